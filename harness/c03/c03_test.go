// C03 — only the current leaseholder serves or persists leader-only state.
//
// Stateful property over 2-4 contenders for one leadership (the PD leader record
// <root>/leader held by member.Member objects, or a per-dc Local TSO allocator
// record <root>/dc-1 held by tso.LocalTSOAllocator objects) sharing one embedded
// etcd root. Histories of campaign / resign / local lease expiry (virtual clock) /
// etcd-side lease revoke / out-of-band delete and overwrite of the record /
// CheckLeader / guarded writes of every leader-guarded writer / TSO requests, with
// injected RPC faults and gate-scheduled races of simultaneous campaigns, deleters
// and a stale writer.
//
// Oracle = the leader record as etcd stores it, read through the raw client, at
// the very revision of each transaction of the code under test:
//
//	(1) a campaign txn that succeeded at revision r found no record at r-1 and left
//	    value_i on i's own lease at r; one that lost found a live record (or a
//	    next-leader key refusing it) at r; Campaign()==nil iff its txn succeeded;
//	(2) while the history contains only protocol removals of the record, at most one
//	    contender has Check()==true and it is the owner of the record on its lease;
//	(3) every applied write txn of contender i (other than on the record itself)
//	    happened at a revision where the record's value was value_i; a guarded write
//	    by a non-owner changes nothing under the root (value and mod revision of every
//	    key) and reports an error; by the owner without injected fault it succeeds;
//	(4) a contender that resigned, expired locally, lost or never won a campaign has
//	    Check()==false, IsLeader()==false and gets no timestamp;
//	(5) every id an allocator returns lies in a window (lo, hi] that this very member
//	    durably stored with one of its own applied transactions (hence while it owned the
//	    record) - never above its own last stored bound, never inside another member's
//	    window; after a rejected window extension further Alloc calls keep failing or
//	    serve only what is left of such an own window.
package c03

import (
	"bytes"
	"context"
	"errors"
	"fmt"
	"os"
	"path"
	"path/filepath"
	"runtime"
	"sort"
	"strings"
	"sync"
	"sync/atomic"
	"testing"
	"time"

	"github.com/pingcap/kvproto/pkg/pdpb"
	pdlog "github.com/pingcap/log"
	"github.com/tikv/pd/pkg/encryption"
	"github.com/tikv/pd/pkg/tsoutil"
	"github.com/tikv/pd/pkg/typeutil"
	"github.com/tikv/pd/server/config"
	"github.com/tikv/pd/server/election"
	"github.com/tikv/pd/server/encryptionkm"
	"github.com/tikv/pd/server/id"
	"github.com/tikv/pd/server/member"
	"github.com/tikv/pd/server/tso"
	"go.etcd.io/etcd/clientv3"
	pb "go.etcd.io/etcd/etcdserver/etcdserverpb"
	"go.uber.org/zap/zapcore"
	"google.golang.org/grpc/codes"
	"google.golang.org/grpc/status"
	"pdverif/vkit"
	"pdverif/vkit/etcdfix"
	"pdverif/vkit/gate"
	"pgregory.net/rapid"
)

const findingSuffix = "C03/local-tso-suffix-write-not-leader-guarded"

var keyDir string

func TestMain(m *testing.M) {
	vkit.Quiet()
	// the histories deliberately provoke "system time may be incorrect" / "not leader" error logs
	pdlog.SetLevel(zapcore.FatalLevel)
	vkit.MainWith(m, "C03", func() {
		etcdfix.Close()
		if keyDir != "" {
			os.RemoveAll(keyDir)
		}
	})
}
func TestProp(t *testing.T)   { vkit.RunAll(t) }
func TestReplay(t *testing.T) { vkit.RunReplay(t) }

func init() {
	vkit.Register("lease", vkit.N{Quick: 1200, Thorough: 24000}, genCase, runCase)
}

// ---------------------------------------------------------------- case data

type Op struct {
	K string `json:"k"`
	// contender: I (mod n) unless Rel is set: "cur" = owner of the record now,
	// "prev" = the contender remembered by the last drop, "notprev" = another one.
	I     int    `json:"i,omitempty"`
	Rel   string `json:"rel,omitempty"`
	TTL   int64  `json:"ttl,omitempty"`
	W     string `json:"w,omitempty"`    // write kind
	N     int    `json:"n,omitempty"`    // small argument (priority, key selector, expiry variant)
	T     int    `json:"t,omitempty"`    // target member / overwrite value selector
	How   string `json:"how,omitempty"`  // drop / race deleter: resign | lexp-eexp | eexp | oobdel | overwrite
	Fail  string `json:"fail,omitempty"` // grant-before | txn-before | txn-lostack | revoke-before
	P     int    `json:"p,omitempty"`    // race: number of campaigners
	Sched []int  `json:"sched,omitempty"`
	Reset bool   `json:"reset,omitempty"` // tso-update: on failure reset allocator + leadership (as the allocator daemon does)
}

type Case struct {
	Domain string `json:"domain"` // pd | dc
	N      int    `json:"n"`
	Ops    []Op   `json:"ops"`
}

var (
	pdKinds   = []string{"txn", "txn", "txncmp", "prio-set", "prio-set", "prio-del", "dcloc-del", "id-rebase", "id-rebase", "id-alloc", "id-alloc", "id-few", "tso-init", "tso-update", "tso-update", "tso-set", "enc", "suffix"}
	dcKinds   = []string{"txn", "txn", "txncmp", "tso-init", "tso-update", "tso-update", "tso-set", "tso-write"}
	raceKinds = map[string][]string{"pd": {"txn", "prio-set", "id-rebase", "tso-update"}, "dc": {"txn", "tso-update"}}
	drops     = []string{"resign", "lexp-eexp", "lexp-eexp", "eexp", "eexp", "oobdel", "oobdel", "overwrite", "lexp"}
	ttls      = []int64{400, 600}
)

func genCase(t *rapid.T) Case {
	c := Case{N: rapid.IntRange(2, 4).Draw(t, "n"), Domain: rapid.SampledFrom([]string{"pd", "pd", "pd", "dc"}).Draw(t, "domain")}
	nops := rapid.IntRange(3, 26).Draw(t, "nops")
	kinds := pdKinds
	if c.Domain == "dc" {
		kinds = dcKinds
	}
	who := func(l string) int { return rapid.IntRange(0, c.N-1).Draw(t, l) }
	ttl := func() int64 { return rapid.SampledFrom(ttls).Draw(t, "ttl") }
	kind := func() string { return rapid.SampledFrom(kinds).Draw(t, "w") }
	fail := func(den int, choices ...string) string {
		if rapid.IntRange(0, den).Draw(t, "faulty") != 0 {
			return ""
		}
		return rapid.SampledFrom(choices).Draw(t, "fail")
	}
	write := func(rel string) Op {
		return Op{K: "write", I: who("wi"), Rel: rel, W: kind(), N: rapid.IntRange(0, 5).Draw(t, "wn"), T: who("wt"),
			Reset: rapid.IntRange(0, 3).Draw(t, "wreset") == 0, Fail: fail(9, "txn-before", "txn-lostack")}
	}
	if rapid.IntRange(0, 5).Draw(t, "start") != 0 {
		i := who("i0")
		c.Ops = append(c.Ops, Op{K: "campaign", I: i, TTL: ttl()}, Op{K: "write", I: i, W: "tso-init"})
	}
	for len(c.Ops) < nops {
		switch k := rapid.IntRange(0, 37).Draw(t, "kind"); {
		case k >= 35:
			// a guarded write delayed in flight across a change of term of the same member value
			if rapid.IntRange(0, 2).Draw(t, "dwcamp") != 0 {
				c.Ops = append(c.Ops, Op{K: "campaign", I: who("i"), TTL: ttl()}, Op{K: "write", Rel: "cur", I: who("ii"), W: "tso-init"})
			}
			c.Ops = append(c.Ops, Op{K: "dwrite", Rel: "cur", I: who("i"),
				W:   rapid.SampledFrom([]string{"txn", "txncmp", "prio-set", "prio-del", "dcloc-del", "tso-update", "tso-update", "enc"}).Draw(t, "dw"),
				How: rapid.SampledFrom([]string{"reset", "reset", "lexp"}).Draw(t, "dhow"),
				N:   rapid.IntRange(0, 3).Draw(t, "dorder"), T: rapid.IntRange(0, 5).Draw(t, "dvariant")})
		case k >= 33:
			// a TSO request that has to wait across the holder's local lease deadline
			if rapid.Bool().Draw(t, "waitinit") {
				c.Ops = append(c.Ops, Op{K: "write", Rel: "cur", I: who("ii"), W: "tso-init"})
			}
			c.Ops = append(c.Ops, Op{K: "tsowait", Rel: "cur", I: who("i"), N: rapid.IntRange(0, 4).Draw(t, "before"), T: rapid.IntRange(0, 2).Draw(t, "tick")})
		case k >= 30 && c.Domain == "pd":
			// id hand-over: the holder allocates, loses the record behind its back, the new owner
			// extends the id window, then the old holder drains its window and keeps asking
			idw := func(rel, kind string) Op {
				return Op{K: "write", I: who("idi"), Rel: rel, W: kind, N: rapid.IntRange(0, 5).Draw(t, "idn")}
			}
			c.Ops = append(c.Ops, idw("cur", rapid.SampledFrom([]string{"id-few", "id-few", "id-rebase", "id-alloc"}).Draw(t, "id0")),
				Op{K: "drop", I: who("di"), How: rapid.SampledFrom([]string{"oobdel", "eexp", "overwrite", "lexp-eexp", "resign"}).Draw(t, "idhow"), T: rapid.IntRange(0, c.N).Draw(t, "dt")},
				Op{K: "campaign", I: who("ci"), Rel: "notprev", TTL: ttl()})
			if rapid.IntRange(0, 3).Draw(t, "newext") != 0 {
				c.Ops = append(c.Ops, idw("cur", rapid.SampledFrom([]string{"id-rebase", "id-few", "id-alloc"}).Draw(t, "id1")))
			}
			c.Ops = append(c.Ops, idw("prev", rapid.SampledFrom([]string{"id-alloc", "id-alloc", "id-rebase"}).Draw(t, "id2")))
			if rapid.Bool().Draw(t, "idmore") {
				c.Ops = append(c.Ops, idw("cur", "id-alloc"), idw("prev", rapid.SampledFrom([]string{"id-few", "id-alloc"}).Draw(t, "id3")))
			}
		case k < 3:
			c.Ops = append(c.Ops, Op{K: "campaign", I: who("i"), TTL: ttl(), Fail: fail(6, "grant-before", "txn-before", "txn-lostack")})
		case k < 9:
			// take-over: the record goes away (or changes) under its holder, another contender
			// campaigns, then the old holder, the new holder and a bystander try guarded writes
			c.Ops = append(c.Ops, Op{K: "drop", I: who("di"), How: rapid.SampledFrom(drops).Draw(t, "how"), T: rapid.IntRange(0, c.N).Draw(t, "dt")})
			if rapid.IntRange(0, 5).Draw(t, "recampaign") != 0 {
				c.Ops = append(c.Ops, Op{K: "campaign", I: who("ci"), Rel: "notprev", TTL: ttl()})
				if rapid.Bool().Draw(t, "init") {
					c.Ops = append(c.Ops, Op{K: "write", Rel: "cur", I: who("ii"), W: "tso-init"})
				}
			}
			c.Ops = append(c.Ops, write("prev"))
			if rapid.Bool().Draw(t, "more") {
				c.Ops = append(c.Ops, write("prev"), Op{K: "tso", Rel: "prev", I: who("ti")})
			}
			if rapid.Bool().Draw(t, "curw") {
				c.Ops = append(c.Ops, write("cur"))
			}
		case k < 14:
			c.Ops = append(c.Ops, write(rapid.SampledFrom([]string{"", "", "cur", "prev"}).Draw(t, "rel")))
		case k < 15:
			c.Ops = append(c.Ops, Op{K: "resign", I: who("i"), Rel: rapid.SampledFrom([]string{"", "cur"}).Draw(t, "rel"), Fail: fail(4, "revoke-before")})
		case k < 16:
			c.Ops = append(c.Ops, Op{K: "lexpire", I: who("i"), Rel: rapid.SampledFrom([]string{"", "cur"}).Draw(t, "rel"), N: rapid.IntRange(0, 1).Draw(t, "far")})
		case k < 17:
			c.Ops = append(c.Ops, Op{K: "eexpire", I: who("i"), Rel: rapid.SampledFrom([]string{"", "cur"}).Draw(t, "rel")})
		case k < 18:
			c.Ops = append(c.Ops, Op{K: "oobdel"})
		case k < 19:
			c.Ops = append(c.Ops, Op{K: "overwrite", T: rapid.IntRange(0, c.N).Draw(t, "ov")})
		case k < 21:
			c.Ops = append(c.Ops, Op{K: "checkleader", I: who("i")})
		case k < 24:
			c.Ops = append(c.Ops, Op{K: "tso", I: who("i"), Rel: rapid.SampledFrom([]string{"", "cur", "prev"}).Draw(t, "rel")})
		case k < 25:
			if c.Domain == "pd" {
				c.Ops = append(c.Ops, Op{K: "dcput", T: who("t"), N: rapid.IntRange(0, 2).Draw(t, "dc")})
			} else {
				c.Ops = append(c.Ops, Op{K: "nextkey", T: rapid.IntRange(-1, c.N-1).Draw(t, "nk")})
			}
		default:
			op := Op{K: "race", I: who("i"), P: rapid.IntRange(1, 3).Draw(t, "p"), TTL: ttl(),
				How:   rapid.SampledFrom([]string{"", "", "oobdel", "resign", "eexp"}).Draw(t, "del"),
				Sched: rapid.SliceOfN(rapid.IntRange(0, 5), 0, 14).Draw(t, "sched"),
				Fail:  fail(5, "grant-before", "txn-before", "txn-lostack", "revoke-before")}
			if rapid.IntRange(0, 2).Draw(t, "racew") != 0 {
				op.W = rapid.SampledFrom(raceKinds[c.Domain]).Draw(t, "rw")
			}
			c.Ops = append(c.Ops, op)
		}
	}
	return c
}

// ---------------------------------------------------------------- virtual clock (process-global hook of the overlay)

type vclock struct {
	mu   sync.Mutex
	base time.Time
	off  [4]time.Duration
	cur  int
	byG  map[uint64]int // race mode: goroutine -> contender
	// one-shot: when contender hookWho next sleeps inside the code under test, hookFn runs hookAt
	// into that sleep (the background updater ticking while a TSO request waits)
	hookWho int
	hookAt  time.Duration
	hookFn  func()
}

var curClock atomic.Value // *vclock (nil pointer = real time)

func goid() uint64 {
	b := make([]byte, 64)
	b = b[:runtime.Stack(b, false)]
	b = bytes.TrimPrefix(b, []byte("goroutine "))
	var n uint64
	for _, c := range b {
		if c < '0' || c > '9' {
			break
		}
		n = n*10 + uint64(c-'0')
	}
	return n
}

func (c *vclock) who() int {
	if len(c.byG) > 0 {
		if i, ok := c.byG[goid()]; ok {
			return i
		}
	}
	return c.cur
}

func clockNow() time.Time {
	c, _ := curClock.Load().(*vclock)
	if c == nil {
		return time.Now()
	}
	c.mu.Lock()
	defer c.mu.Unlock()
	return c.base.Add(c.off[c.who()])
}

func clockSleep(d time.Duration) {
	c, _ := curClock.Load().(*vclock)
	if c == nil {
		time.Sleep(d)
		return
	}
	c.mu.Lock()
	i := c.who()
	if fn := c.hookFn; fn != nil && c.hookWho == i {
		c.hookFn = nil
		at := c.hookAt
		if at > d {
			at = d
		}
		c.off[i] += at
		c.mu.Unlock()
		fn()
		c.mu.Lock()
		c.off[i] += d - at
		c.mu.Unlock()
		return
	}
	c.off[i] += d
	c.mu.Unlock()
}

func (c *vclock) arm(i int, at time.Duration, fn func()) {
	c.mu.Lock()
	c.hookWho, c.hookAt, c.hookFn = i, at, fn
	c.mu.Unlock()
}

func (c *vclock) set(i int) { c.mu.Lock(); c.cur = i; c.mu.Unlock() }
func (c *vclock) offset(i int) time.Duration {
	c.mu.Lock()
	defer c.mu.Unlock()
	return c.off[i]
}
func (c *vclock) advance(i int, d time.Duration) { c.mu.Lock(); c.off[i] += d; c.mu.Unlock() }
func (c *vclock) atLeast(i int, d time.Duration) {
	c.mu.Lock()
	if c.off[i] < d {
		c.off[i] = d
	}
	c.mu.Unlock()
}
func (c *vclock) bind(i int) func() {
	g := goid()
	c.mu.Lock()
	if c.byG == nil {
		c.byG = map[uint64]int{}
	}
	c.byG[g] = i
	c.mu.Unlock()
	return func() { c.mu.Lock(); delete(c.byG, g); c.mu.Unlock() }
}

// ---------------------------------------------------------------- fixture (per process)

type slot struct {
	hooks  *etcdfix.Hooks
	client *clientv3.Client
}

var (
	slotsOnce sync.Once
	slots     []*slot
	slotsErr  error
	pdCfg     *config.Config
	encCfg    *encryption.Config
)

const (
	idStep       = uint64(1000) // id.allocStep: a window extension stores "previous bound + 1000"
	saveInterval = 3 * time.Second
	grantLatency = time.Second // virtual time that passes while a LeaseGrant is in flight
	encKeysPath  = encryptionkm.EncryptionKeysPath
)

func getSlots() ([]*slot, *etcdfix.Fixture, error) {
	f, err := etcdfix.Get()
	if err != nil {
		return nil, nil, err
	}
	slotsOnce.Do(func() {
		for i := 0; i < 4; i++ {
			h := &etcdfix.Hooks{}
			c, err := f.NewClient(h)
			if err != nil {
				slotsErr = err
				return
			}
			slots = append(slots, &slot{hooks: h, client: c})
		}
		pdCfg = &config.Config{}
		pdCfg.AdvertiseClientUrls = "http://127.0.0.1:2379"
		pdCfg.AdvertisePeerUrls = "http://127.0.0.1:2380"
		pdCfg.TSOSaveInterval = typeutil.NewDuration(saveInterval)
		pdCfg.TSOUpdatePhysicalInterval = typeutil.NewDuration(50 * time.Millisecond)
		dir, err := os.MkdirTemp("", "c03-master-key")
		if err != nil {
			slotsErr = err
			return
		}
		keyDir = dir
		kf := filepath.Join(dir, "master.key")
		if err := os.WriteFile(kf, []byte(strings.Repeat("3f", 32)+"\n"), 0o600); err != nil {
			slotsErr = err
			return
		}
		encCfg = &encryption.Config{DataEncryptionMethod: "aes128-ctr",
			MasterKey: encryption.MasterKeyConfig{Type: "file", MasterKeyFileConfig: encryption.MasterKeyFileConfig{FilePath: kf}}}
		if err := encCfg.Adjust(); err != nil {
			slotsErr = err
			return
		}
		election.SetVerifClock(clockNow, clockSleep)
		tso.SetVerifClock(clockNow, clockSleep)
	})
	return slots, f, slotsErr
}

// ---------------------------------------------------------------- world

type kvrec struct {
	V     string
	Mod   int64
	Lease int64
}

type rec struct {
	slot    int
	method  string
	write   bool
	applied bool
	sent    bool // a response came back
	keys    []string
	puts    map[string]string
	rev     int64
	leaseID int64
	revoked int64
	action  etcdfix.Action
	err     error
}

type cont struct {
	idx   int
	name  string
	id    uint64
	value string
	m     *member.Member
	ls    *election.Leadership
	ida   id.Allocator
	am    *tso.AllocatorManager
	ta    tso.Allocator
	lta   *tso.LocalTSOAllocator
	km    *encryptionkm.KeyManager
	// model
	campaigned bool          // Campaign was called at least once
	held       bool          // its last campaign succeeded and it has not reset since (its own belief)
	granted    bool          // the current lease object was granted
	lease      int64         // id of the current lease
	expire     time.Duration // clock offset after which the current lease is locally expired
	noLease    bool          // last campaign failed before a lease was granted (see grantFaultNote)
	isNext     bool          // dc: last campaign used the "I am the next leader" compare
	wins       [][2]uint64   // id windows (lo, hi] stored by its own applied transactions
	nIDs       int
}

type world struct {
	mu               sync.Mutex
	f                *etcdfix.Fixture
	sl               []*slot
	c                Case
	root             string
	leaderKey        string
	nextKey          string
	cs               []*cont
	clock            *vclock
	sched            *gate.Sched
	events           []*rec
	fault            [4]string
	leases           []int64
	gone             map[int64]bool // leases already revoked
	clean            bool           // only protocol removals of the record so far
	prev             int
	foreign          string
	info             *vkit.Info
	holders          map[int]bool
	nonOwnerAttempts int
	step             int
	allocKey         string
	hold             atomic.Pointer[holdT]
	idErr            error // first violation of clause (5)
}

// holdT parks the first write transaction that goroutine g sends through slot.
type holdT struct {
	slot    int
	g       atomic.Uint64
	parked  chan struct{}
	release chan struct{}
}

var errRejected = errors.New("guarded txn not succeeded")

func (w *world) install() {
	for si := range w.sl {
		si := si
		w.sl[si].hooks.Set(func(ev *etcdfix.Event) etcdfix.Action {
			if sc := w.sched; sc != nil {
				if err := sc.Enter(ev.Method, fmt.Sprint(si)); err != nil {
					return etcdfix.FailBefore
				}
			}
			if ev.Method == "LeaseGrant" {
				w.clock.advance(si, grantLatency)
			}
			if h := w.hold.Load(); h != nil && h.slot == si && ev.Method == "Txn" && ev.Write && goid() == h.g.Load() {
				// a guarded write delayed in flight: assembled, not yet at etcd
				close(h.parked)
				<-h.release
			}
			w.mu.Lock()
			fk := w.fault[si]
			act := etcdfix.Proceed
			switch {
			case fk == "grant-before" && ev.Method == "LeaseGrant":
				act = etcdfix.FailBefore
			case fk == "txn-before" && ev.Method == "Txn" && ev.Write:
				act = etcdfix.FailBefore
			case fk == "txn-lostack" && ev.Method == "Txn" && ev.Write:
				act = etcdfix.LostAck
			case fk == "revoke-before" && ev.Method == "LeaseRevoke":
				act = etcdfix.FailBefore
			}
			if act != etcdfix.Proceed {
				w.fault[si] = ""
			}
			w.mu.Unlock()
			return act
		}, func(ev *etcdfix.Event) {
			r := &rec{slot: si, method: ev.Method, write: ev.Write, applied: ev.Applied, keys: ev.Keys, puts: ev.Puts, action: ev.Action, err: ev.Err}
			switch resp := ev.Resp.(type) {
			case *pb.TxnResponse:
				r.sent = true
				if resp.Header != nil {
					r.rev = resp.Header.Revision
				}
			case *pb.LeaseGrantResponse:
				r.sent = true
				r.leaseID = resp.ID
			case *pb.LeaseRevokeResponse:
				r.sent = true
				if rq, ok := ev.Req.(*pb.LeaseRevokeRequest); ok {
					r.revoked = rq.ID
				}
			case *pb.PutResponse:
				r.sent = true
				if resp.Header != nil {
					r.rev = resp.Header.Revision
				}
			case *pb.DeleteRangeResponse:
				r.sent = true
				if resp.Header != nil {
					r.rev = resp.Header.Revision
				}
			}
			w.mu.Lock()
			if ev.Method == "Txn" && ev.Applied && si < len(w.cs) {
				if v, ok := ev.Puts[w.allocKey]; ok {
					if hi, err := typeutil.BytesToUint64([]byte(v)); err == nil && hi >= idStep {
						w.cs[si].wins = append(w.cs[si].wins, [2]uint64{hi - idStep, hi})
					}
				}
			}
			w.events = append(w.events, r)
			if r.leaseID != 0 {
				w.leases = append(w.leases, r.leaseID)
			}
			if r.revoked != 0 {
				w.gone[r.revoked] = true
			}
			w.mu.Unlock()
		})
	}
}

func (w *world) revokeRaw(l int64) {
	w.mu.Lock()
	g := w.gone[l]
	w.gone[l] = true
	w.mu.Unlock()
	if !g {
		w.f.RevokeRaw(l)
	}
}

// envFailure: an RPC of the code under test failed for a reason of the environment (time-out,
// connection trouble on an overloaded machine), not by injection and not by etcd's own answer.
// Such a case is undecided: nothing that requires an operation to succeed is asserted.
func envFailure(evs []*rec) bool {
	for _, e := range evs {
		if e.err == nil || e.action != etcdfix.Proceed {
			continue
		}
		switch status.Code(e.err) {
		case codes.DeadlineExceeded, codes.Canceled, codes.Unavailable, codes.Aborted, codes.ResourceExhausted, codes.Internal:
			return true
		}
		if errors.Is(e.err, context.DeadlineExceeded) || errors.Is(e.err, context.Canceled) {
			return true
		}
		m := e.err.Error()
		if strings.Contains(m, "deadline exceeded") || strings.Contains(m, "context canceled") || strings.Contains(m, "transport") {
			return true
		}
	}
	return false
}

func (w *world) takeEvents() []*rec {
	w.mu.Lock()
	defer w.mu.Unlock()
	e := w.events
	w.events = nil
	return e
}

func (w *world) setFault(i int, f string) { w.mu.Lock(); w.fault[i] = f; w.mu.Unlock() }
func (w *world) clearFaults()             { w.mu.Lock(); w.fault = [4]string{}; w.mu.Unlock() }

// errOracleRead: the oracle's own read failed (overloaded machine): the case is undecided.
var errOracleRead = errors.New("oracle read failed")

func (w *world) record() (kvrec, bool) {
	r, ok, err := w.getAt(w.leaderKey, 0)
	if err != nil {
		panic(errOracleRead)
	}
	return r, ok
}

func (w *world) getAt(key string, rev int64) (kvrec, bool, error) {
	ctx, cancel := context.WithTimeout(context.Background(), 10*time.Second)
	defer cancel()
	resp, err := w.f.Raw.Get(ctx, key, clientv3.WithRev(rev))
	if err != nil {
		return kvrec{}, false, err
	}
	if len(resp.Kvs) == 0 {
		return kvrec{}, false, nil
	}
	kv := resp.Kvs[0]
	return kvrec{string(kv.Value), kv.ModRevision, kv.Lease}, true, nil
}

// snap = every key under the case root plus the (global) encryption keys key.
func (w *world) snap() (map[string]kvrec, error) {
	ctx, cancel := context.WithTimeout(context.Background(), 10*time.Second)
	defer cancel()
	out := map[string]kvrec{}
	resp, err := w.f.Raw.Get(ctx, w.root, clientv3.WithPrefix())
	if err != nil {
		return nil, err
	}
	for _, kv := range resp.Kvs {
		out[string(kv.Key)] = kvrec{string(kv.Value), kv.ModRevision, kv.Lease}
	}
	resp, err = w.f.Raw.Get(ctx, encKeysPath)
	if err != nil {
		return nil, err
	}
	for _, kv := range resp.Kvs {
		out[string(kv.Key)] = kvrec{string(kv.Value), kv.ModRevision, kv.Lease}
	}
	return out, nil
}

// short renders a stored value without anything that differs between two executions of
// the same case (random key material, lease ids, wall-clock dependent bytes).
func short(s string) string {
	for _, r := range s {
		if r < 0x20 || r > 0x7e {
			return fmt.Sprintf("<%d bytes>", len(s))
		}
	}
	if len(s) > 32 {
		return fmt.Sprintf("%q...(%d bytes)", s[:32], len(s))
	}
	return fmt.Sprintf("%q", s)
}

func diffSnap(a, b map[string]kvrec) string {
	keys := map[string]bool{}
	for k := range a {
		keys[k] = true
	}
	for k := range b {
		keys[k] = true
	}
	var ks []string
	for k := range keys {
		ks = append(ks, k)
	}
	sort.Strings(ks)
	for _, k := range ks {
		x, okx := a[k]
		y, oky := b[k]
		switch {
		case okx && !oky:
			return fmt.Sprintf("key %s (value %s) was deleted", k, short(x.V))
		case !okx && oky:
			return fmt.Sprintf("key %s was created with value %s", k, short(y.V))
		case x != y:
			if x.V == y.V {
				return fmt.Sprintf("key %s (value %s) was rewritten: its mod_revision or lease changed", k, short(x.V))
			}
			return fmt.Sprintf("key %s went from value %s to value %s", k, short(x.V), short(y.V))
		}
	}
	return ""
}

func (w *world) modelValid(c *cont) bool {
	return c.held && c.granted && w.clock.offset(c.idx) <= c.expire
}

func (w *world) owner() int {
	r, ok := w.record()
	if !ok {
		return -1
	}
	for _, c := range w.cs {
		if c.value == r.V {
			return c.idx
		}
	}
	return -1
}

func (w *world) resolve(op Op) *cont {
	n := len(w.cs)
	i := ((op.I % n) + n) % n
	switch op.Rel {
	case "cur":
		if o := w.owner(); o >= 0 {
			i = o
		}
	case "prev":
		if w.prev >= 0 {
			i = w.prev
		}
	case "notprev":
		if w.prev >= 0 && n > 1 {
			i = (w.prev + 1 + i%(n-1)) % n
		}
	}
	return w.cs[i]
}

// ---------------------------------------------------------------- primitives on the code under test

func (w *world) campaignCall(c *cont, ttl int64) error {
	if w.c.Domain == "pd" {
		return c.m.CampaignLeader(ttl)
	}
	// as AllocatorManager.campaignAllocatorLeader: compare on the next-leader key
	next, _, _, ok := w.f.GetRaw(w.nextKey)
	var cmp clientv3.Cmp
	if ok && next == fmt.Sprint(c.id) {
		c.isNext = true
		cmp = clientv3.Compare(clientv3.Value(w.nextKey), "=", next)
	} else {
		c.isNext = false
		cmp = clientv3.Compare(clientv3.CreateRevision(w.nextKey), "=", 0)
	}
	return c.lta.CampaignAllocatorLeader(ttl, cmp)
}

// resetCall is what a member does when it steps down: reset the allocator, then the leadership.
func (w *world) resetCall(c *cont) {
	c.ta.Reset()
	if w.c.Domain == "pd" {
		c.m.ResetLeader()
	} else {
		c.ls.Reset()
	}
}

// afterCampaign updates the model of c from the RPCs its Campaign issued and checks
// clause (1) at the revision of the campaign txn.
func (w *world) afterCampaign(c *cont, start time.Duration, ttl int64, cerr error, evs []*rec) (applied bool, err error) {
	c.campaigned, c.held, c.granted, c.noLease, c.lease = true, false, false, true, 0
	var txn *rec
	for _, e := range evs {
		if e.slot != c.idx {
			continue
		}
		if e.method == "LeaseGrant" && e.leaseID != 0 {
			c.granted, c.noLease, c.lease = true, false, e.leaseID
			c.expire = start + time.Duration(ttl)*time.Second
		}
		if e.method == "Txn" && e.write {
			if _, ok := e.puts[w.leaderKey]; ok {
				txn = e
			}
		}
	}
	who := fmt.Sprintf("campaign of %s", c.name)
	if txn == nil || !txn.sent {
		if cerr == nil {
			return false, fmt.Errorf("%s returned nil although its transaction was never answered", who)
		}
		if c.granted {
			c.granted = false // Campaign closed the lease
		}
		return false, nil
	}
	at, okAt, e1 := w.getAt(w.leaderKey, txn.rev)
	if e1 != nil {
		panic(errOracleRead)
	}
	if txn.applied {
		if txn.rev > 1 {
			before, okB, e2 := w.getAt(w.leaderKey, txn.rev-1)
			if e2 != nil {
				panic(errOracleRead)
			}
			if okB {
				return true, fmt.Errorf("%s succeeded although a live record (value of %s, %s) existed at the revision just before its transaction",
					who, w.nameOf(before.V), w.leaseName(before.Lease))
			}
		}
		if !okAt || at.V != c.value || at.Lease != c.lease || c.lease == 0 || at.Mod != txn.rev {
			return true, fmt.Errorf("%s succeeded but the record at the revision of its transaction is (present %v, value of %s, %s, written by that transaction: %v); want its own value on the lease granted to it",
				who, okAt, w.nameOf(at.V), w.leaseName(at.Lease), at.Mod == txn.rev)
		}
		if cerr == nil {
			c.held = true
		} else {
			if txn.action != etcdfix.LostAck {
				return true, fmt.Errorf("%s: transaction succeeded without injected fault but Campaign returned %v", who, cerr)
			}
			c.granted = false
		}
		return true, nil
	}
	// the compare failed
	c.granted = false
	if cerr == nil {
		return false, fmt.Errorf("%s returned nil although its transaction did not succeed (record at that revision: present %v, value of %s)", who, okAt, w.nameOf(at.V))
	}
	if !okAt {
		legit := false
		if w.c.Domain == "dc" {
			nk, okN, e3 := w.getAt(w.nextKey, txn.rev)
			if e3 != nil || (c.isNext && (!okN || nk.V != fmt.Sprint(c.id))) || (!c.isNext && okN) {
				legit = true
			}
		}
		if !legit {
			return false, fmt.Errorf("%s lost (%v) although no record existed at the revision of its transaction", who, cerr)
		}
	}
	return false, nil
}

func (w *world) leaseName(l int64) string {
	if l == 0 {
		return "no lease"
	}
	for _, c := range w.cs {
		if c.lease == l {
			return "current lease of " + c.name
		}
	}
	return "another lease"
}

// rk strips the per-case root so that messages are the same in every execution of a case
// (rapid only shrinks failures that reproduce with an identical message).
func (w *world) rk(keys []string) []string {
	out := make([]string, len(keys))
	for i, k := range keys {
		out[i] = strings.TrimPrefix(k, w.root)
	}
	return out
}

func (w *world) nameOf(v string) string {
	if v == "" {
		return "<none>"
	}
	for _, c := range w.cs {
		if c.value == v {
			return c.name
		}
	}
	if v == w.foreign {
		return "foreign"
	}
	return "unknown " + short(v)
}

func (w *world) doCampaign(c *cont, ttl int64, fault string) error {
	if c.held {
		// a member that still believes it leads never campaigns; it steps down first
		if err := w.doResign(c, ""); err != nil {
			return err
		}
	}
	pre, preOK := w.record()
	w.clock.set(c.idx)
	start := w.clock.offset(c.idx)
	w.takeEvents()
	if fault != "" {
		w.setFault(c.idx, fault)
	}
	cerr := w.campaignCall(c, ttl)
	w.clearFaults()
	evs := w.takeEvents()
	applied, err := w.afterCampaign(c, start, ttl, cerr, evs)
	if err != nil {
		return err
	}
	if envFailure(evs) {
		w.info.Inconclusive = true
		return nil
	}
	post, postOK := w.record()
	switch {
	case cerr == nil:
		if preOK {
			return fmt.Errorf("campaign of %s returned nil although the record existed (value of %s, %s)", c.name, w.nameOf(pre.V), w.leaseName(pre.Lease))
		}
		if !postOK || post.V != c.value || post.Lease != c.lease {
			return fmt.Errorf("campaign of %s returned nil but the record now is (present %v, value of %s, %s), want its value on its own lease", c.name, postOK, w.nameOf(post.V), w.leaseName(post.Lease))
		}
		if w.c.Domain == "pd" {
			c.m.EnableLeader()
		} else {
			c.lta.EnableAllocatorLeader()
		}
		w.info.Class("campaign-ok")
	case preOK:
		if !postOK || post != pre {
			return fmt.Errorf("losing campaign of %s changed the record: (value of %s, %s) -> (present %v, value of %s, %s, rewritten %v)", c.name, w.nameOf(pre.V), w.leaseName(pre.Lease), postOK, w.nameOf(post.V), w.leaseName(post.Lease), post.Mod != pre.Mod)
		}
		w.info.Class("campaign-conflict")
	default:
		// no record before: must win unless a fault was injected or (dc) the next-leader key refuses it
		if fault == "" && !applied {
			refused := false
			if w.c.Domain == "dc" {
				nk, okN, e := w.getAt(w.nextKey, 0)
				if e != nil {
					panic(errOracleRead)
				}
				refused = okN && nk.V != fmt.Sprint(c.id)
			}
			if !refused {
				return fmt.Errorf("campaign of %s failed (%v) although no record existed and no fault was injected", c.name, cerr)
			}
			w.info.Class("campaign-refused-by-next-leader-key")
		} else {
			w.info.Class("campaign-fault")
		}
	}
	if c.noLease {
		w.info.Class("campaign-failed-before-grant")
	}
	return nil
}

func (w *world) doResign(c *cont, fault string) error {
	w.clock.set(c.idx)
	pre, preOK := w.record()
	mine := preOK && pre.Lease == c.lease && c.lease != 0
	w.takeEvents()
	if fault != "" {
		w.setFault(c.idx, fault)
	}
	w.resetCall(c)
	w.clearFaults()
	evs := w.takeEvents()
	revoked := false
	for _, e := range evs {
		if e.slot == c.idx && e.method == "LeaseRevoke" && e.sent {
			revoked = true
		}
	}
	hadLease := c.granted || c.noLease
	c.held, c.granted, c.noLease = false, false, false
	if envFailure(evs) {
		w.info.Inconclusive = true
		return nil
	}
	post, postOK := w.record()
	if mine && revoked && fault == "" && postOK && post == pre {
		return fmt.Errorf("%s resigned (its lease was revoked) but its record is still there", c.name)
	}
	if !mine && (postOK != preOK || post != pre) {
		return fmt.Errorf("resign of %s changed a record that is not on its lease: (present %v, value of %s) -> (present %v, value of %s)", c.name, preOK, w.nameOf(pre.V), postOK, w.nameOf(post.V))
	}
	if hadLease {
		w.info.Class("resign")
	}
	return nil
}

func (w *world) doLocalExpire(c *cont, far bool) {
	if !c.granted {
		w.info.Class("lexpire-without-lease")
		return
	}
	d := time.Nanosecond
	if far {
		d = time.Hour
	}
	w.clock.atLeast(c.idx, c.expire+d)
	w.info.Class("lexpire")
}

func (w *world) doEtcdExpire(c *cont) {
	if c.lease == 0 {
		return
	}
	if w.modelValid(c) {
		// cannot happen with a correct lease protocol: only the write guards are claimed from here on
		w.clean = false
	}
	w.revokeRaw(c.lease)
	w.info.Class("eexpire")
}

// ---------------------------------------------------------------- guarded writes

func (w *world) savedWindow() (time.Time, bool) {
	key := path.Join(w.root, "timestamp")
	if w.c.Domain == "dc" {
		key = path.Join(w.leaderKey, "timestamp")
	}
	v, _, _, ok := w.f.GetRaw(key)
	if !ok {
		return time.Time{}, false
	}
	t, err := typeutil.ParseTimestamp([]byte(v))
	if err != nil {
		return time.Time{}, false
	}
	return t, true
}

func commit(t clientv3.Txn, op clientv3.Op) error {
	resp, err := t.Then(op).Commit()
	if err != nil {
		return err
	}
	if !resp.Succeeded {
		return errRejected
	}
	return nil
}

// writeCall runs one guarded writer of contender c. ran=false: the real callers
// would not issue this call in c's state (class counted, nothing claimed).
func (w *world) writeCall(c *cont, op Op) (err error, ran bool) {
	tgt := w.cs[((op.T%len(w.cs))+len(w.cs))%len(w.cs)]
	gkey := path.Join(w.root, "guarded", fmt.Sprintf("k%d", op.N%2))
	val := fmt.Sprintf("%s@%d", c.name, w.step)
	switch op.W {
	case "txn":
		return commit(c.ls.LeaderTxn(), clientv3.OpPut(gkey, val)), true
	case "txncmp":
		return commit(c.ls.LeaderTxn(clientv3.Compare(clientv3.CreateRevision(path.Join(w.root, "guarded", "never")), "=", 0)), clientv3.OpPut(gkey, val)), true
	case "prio-set":
		return c.m.SetMemberLeaderPriority(tgt.id, op.N+1), true
	case "prio-del":
		return c.m.DeleteMemberLeaderPriority(tgt.id), true
	case "dcloc-del":
		return c.m.DeleteMemberDCLocationInfo(tgt.id), true
	case "id-rebase":
		err := c.ida.Rebase()
		w.allocMore(c, 1+op.N%3)
		return err, true
	case "id-alloc":
		// 1001 calls always run past the end of whatever window is left in memory
		var err error
		for k := 0; k < 1001 && err == nil; k++ {
			_, err = w.alloc(c)
		}
		// a retrying client / the next AllocID requests after the rejection
		w.allocMore(c, 1+op.N%3)
		return err, true
	case "id-few":
		// a few ids from whatever the member has in memory (and one extension if it needs one)
		var err error
		for k := 0; k < 1+op.N && err == nil; k++ {
			_, err = w.alloc(c)
		}
		return err, true
	case "tso-init":
		if !c.held {
			return nil, false
		}
		return c.ta.Initialize(1), true
	case "tso-update":
		// the allocator daemon only updates initialized allocators whose lease looks alive
		if !c.ta.IsInitialize() || !c.ls.Check() {
			return nil, false
		}
		w.clock.advance(c.idx, saveInterval+time.Millisecond)
		if !c.ls.Check() {
			return nil, false
		}
		return c.ta.UpdateTSO(), true
	case "tso-set", "tso-write":
		saved, ok := w.savedWindow()
		if !c.ta.IsInitialize() || !ok {
			return nil, false
		}
		ts := tsoutil.GenerateTimestamp(saved, uint64(op.N+1))
		if op.W == "tso-write" {
			return c.lta.WriteTSO(ts), true
		}
		return c.ta.SetTSO(tsoutil.GenerateTS(ts)), true
	case "enc":
		if !c.held {
			return nil, false
		}
		if c.km == nil {
			km, err := encryptionkm.NewKeyManager(w.sl[c.idx].client, encCfg)
			if err != nil {
				return nil, false
			}
			c.km = km
		}
		return c.km.SetLeadership(c.ls), true
	case "suffix":
		am := tso.NewAllocatorManager(c.m, w.root, pdCfg, func() time.Duration { return 24 * time.Hour })
		am.ClusterDCLocationChecker()
		return nil, true
	}
	return nil, false
}

func guardedKind(k string) bool {
	return k != "id-rebase" && k != "id-alloc" && k != "id-few" && k != "suffix"
}

// alloc is one Alloc() of contender c with clause (5) applied to the id it returns.
func (w *world) alloc(c *cont) (uint64, error) {
	v, err := c.ida.Alloc()
	if err != nil {
		return 0, err
	}
	c.nIDs++
	w.mu.Lock()
	defer w.mu.Unlock()
	for _, win := range c.wins {
		if v > win[0] && v <= win[1] {
			return v, nil
		}
	}
	if w.idErr != nil {
		return v, nil
	}
	var last uint64
	for _, win := range c.wins {
		if win[1] > last {
			last = win[1]
		}
	}
	for _, o := range w.cs {
		if o == c {
			continue
		}
		for _, win := range o.wins {
			if v > win[0] && v <= win[1] {
				w.idErr = fmt.Errorf("Alloc of %s returned id %d (its %d. id), which lies in the window (%d, %d] stored by %s; the last bound %s itself stored is %d",
					c.name, v, c.nIDs, win[0], win[1], o.name, c.name, last)
				return v, nil
			}
		}
	}
	w.idErr = fmt.Errorf("Alloc of %s returned id %d (its %d. id), which lies in no window this member stored itself (own windows %v, last own stored bound %d)",
		c.name, v, c.nIDs, c.wins, last)
	return v, nil
}

func (w *world) allocMore(c *cont, n int) {
	for k := 0; k < n; k++ {
		w.alloc(c)
	}
}

func (w *world) doWrite(c *cont, op Op) error {
	w.clock.set(c.idx)
	if op.W == "suffix" || (op.W == "dcloc-del" && op.N%2 == 0) {
		// member T registered its dc-location (what its own SetLocalTSOConfig stores; not leader-only by design)
		t := w.cs[((op.T%len(w.cs))+len(w.cs))%len(w.cs)]
		w.f.PutRaw(t.m.GetDCLocationPath(t.id), fmt.Sprintf("dc-%d", op.N%3))
	}
	pre, err := w.snap()
	if err != nil {
		w.info.Inconclusive = true
		return nil
	}
	lr, lrOK := pre[w.leaderKey]
	owner := lrOK && lr.V == c.value
	if op.W == "suffix" && !owner && c.m.IsLeader() && vkit.Known(findingSuffix) {
		// known finding: the local-tso suffix write is only guarded by the in-memory IsLeader()
		w.info.Exclude(findingSuffix)
		return nil
	}
	w.takeEvents()
	if op.Fail != "" {
		w.setFault(c.idx, op.Fail)
	}
	werr, ran := w.writeCall(c, op)
	w.clearFaults()
	evs := w.takeEvents()
	if w.idErr != nil {
		return fmt.Errorf("write %q by %s (record: present %v, value of %s): %v", op.W, c.name, lrOK, w.nameOf(lr.V), w.idErr)
	}
	if !ran {
		w.info.Class("write-not-applicable:" + op.W)
		return nil
	}
	attempted, applied, faulted := false, false, false
	for _, e := range evs {
		if e.slot == c.idx && e.write {
			attempted = true
			if e.applied {
				applied = true
			}
			if e.action != etcdfix.Proceed {
				faulted = true
			}
		}
	}
	if err := w.checkAppliedWrites(evs); err != nil {
		return err
	}
	env := envFailure(evs)
	post, err := w.snap()
	if err != nil {
		w.info.Inconclusive = true
		return nil
	}
	who := fmt.Sprintf("guarded write %q by %s", op.W, c.name)
	if !owner {
		state := fmt.Sprintf("the record is (present %v, value of %s)", lrOK, w.nameOf(lr.V))
		if d := diffSnap(pre, post); d != "" {
			return fmt.Errorf("%s while %s changed stored state: %s", who, state, strings.ReplaceAll(d, w.root, ""))
		}
		if attempted {
			w.nonOwnerAttempts++
			w.info.Class("nonowner-write-rejected:" + op.W)
			if werr == nil && op.W != "suffix" {
				return fmt.Errorf("%s while %s sent a write transaction and reported success", who, state)
			}
		} else {
			w.info.Class("nonowner-write-not-sent:" + op.W)
		}
	} else {
		if env {
			w.info.Class("owner-write-environment-failure")
		} else if attempted && !faulted && (lr.Lease == 0 || lr.Lease != c.lease) && (werr != nil || !applied) {
			// the record carries this member's value but is not on its current lease (written out of band,
			// or a stale record of an earlier term): the property does not say such a member must be served,
			// a guard that also compares the lease may refuse it. Counted, not claimed.
			w.info.Class("owner-by-value-on-another-lease-refused:" + op.W)
		} else if attempted && !faulted && (c.campaigned || !guardedKind(op.W)) {
			if werr != nil || !applied {
				return fmt.Errorf("%s, the owner of the record, failed without injected fault: %v (applied %v)", who, werr, applied)
			}
			w.info.Class("owner-write-ok:" + op.W)
		} else if attempted {
			w.info.Class("owner-write-fault:" + op.W)
		} else {
			w.info.Class("owner-write-not-sent:" + op.W)
		}
	}
	if env {
		w.info.Inconclusive = true
		return nil
	}
	if op.W == "tso-update" && werr != nil && op.Reset {
		// AllocatorManager.updateAllocator: ResetAllocatorGroup on failure
		return w.doResign(c, "")
	}
	return nil
}

// checkAppliedWrites is clause (3) at transaction granularity: every applied write of
// slot i that is not on the record itself happened while the record held value_i.
func (w *world) checkAppliedWrites(evs []*rec) error {
	for _, e := range evs {
		if e.method != "Txn" || !e.write || !e.applied || !e.sent || e.rev == 0 {
			continue
		}
		onRecord := false
		for _, k := range e.keys {
			if k == w.leaderKey {
				onRecord = true
			}
		}
		if onRecord {
			continue
		}
		if e.slot >= len(w.cs) {
			continue
		}
		c := w.cs[e.slot]
		at, ok, err := w.getAt(w.leaderKey, e.rev)
		if err != nil {
			continue
		}
		if !ok || at.V != c.value {
			return fmt.Errorf("write transaction of %s on %v was applied at a revision where the record was (present %v, value of %s)", c.name, w.rk(e.keys), ok, w.nameOf(at.V))
		}
	}
	return nil
}

// ---------------------------------------------------------------- other ops

func (w *world) doTSO(c *cont) error { return w.tsoReq(c, 1) }

// tsoReq is one GenerateTSO of c. Clause (4): a timestamp may only be RETURNED while the member's
// lease is locally valid; the request may have slept inside (virtual clock), so validity is judged
// with the clock reading at the moment of return (the code's own last lease check is its last
// clock reading before it returns). Refusing is always fine.
func (w *world) tsoReq(c *cont, count uint32) error {
	w.clock.set(c.idx)
	before := w.clock.offset(c.idx)
	ts, err := c.ta.GenerateTSO(count)
	valid := w.modelValid(c)
	if err == nil && !valid {
		waited := w.clock.offset(c.idx) - before
		return fmt.Errorf("%s granted a timestamp (count %d, logical %d, the request waited %v inside) although at the moment of return it %s", c.name, count, ts.Logical, waited, w.whyInvalid(c))
	}
	if err == nil {
		w.info.Class("tso-granted")
	} else if !valid {
		w.info.Class("tso-denied-not-leaseholder")
	} else {
		w.info.Class("tso-denied-other")
	}
	return nil
}

const updInterval = 50 * time.Millisecond // pdCfg.TSOUpdatePhysicalInterval

var (
	waitBefore = []time.Duration{0, time.Millisecond, updInterval - time.Millisecond, updInterval, 2 * updInterval}
	waitTick   = []time.Duration{0, time.Millisecond, updInterval / 2}
)

// doTSOWait: a TSO request that has to wait across the local lease deadline. The member's physical
// time is brought up to date just before the deadline (regular updater tick), its logical part is
// used up by one big request, the clock is placed d before request-start+TTL, and the next request
// overflows and sleeps one update interval; `tick` into that sleep the background updater runs
// once (only if the lease still looks alive to it, as AllocatorManager.updateAllocator checks).
func (w *world) doTSOWait(c *cont, op Op) error {
	w.clock.set(c.idx)
	d := waitBefore[((op.N%len(waitBefore))+len(waitBefore))%len(waitBefore)]
	tick := waitTick[((op.T%len(waitTick))+len(waitTick))%len(waitTick)]
	const gap = 2 * time.Millisecond
	target := c.expire - d - gap
	if !w.modelValid(c) || !c.ta.IsInitialize() || w.clock.offset(c.idx)+saveInterval+time.Millisecond > target {
		w.info.Class("tsowait-not-applicable")
		return nil
	}
	// the updater's last regular tick before the deadline (guarded window save, all write oracles apply)
	w.clock.atLeast(c.idx, target-saveInterval-time.Millisecond)
	if err := w.doWrite(c, Op{K: "write", W: "tso-update"}); err != nil || w.info.Inconclusive {
		return err
	}
	if !w.modelValid(c) {
		return nil
	}
	if err := w.tsoReq(c, 1<<18-2); err != nil {
		return err
	}
	w.clock.atLeast(c.idx, c.expire-d)
	w.takeEvents()
	ran := false
	w.clock.arm(c.idx, tick, func() {
		if c.ls.Check() {
			ran = true
			c.ta.UpdateTSO()
		}
	})
	err := w.tsoReq(c, 10)
	w.clock.arm(c.idx, 0, nil)
	evs := w.takeEvents()
	if err != nil {
		return fmt.Errorf("request entered %v before the local lease deadline, updater tick %v into its sleep (ran: %v): %v", d, tick, ran, err)
	}
	if err := w.checkAppliedWrites(evs); err != nil {
		return err
	}
	if envFailure(evs) {
		w.info.Inconclusive = true
		return nil
	}
	w.info.Class("tsowait")
	w.info.ClassIf(ran, "tsowait-updater-ran-during-sleep")
	w.info.ClassIf(!w.modelValid(c), "tsowait-woke-after-deadline")
	return nil
}

// doDelayedWrite: a guarded write of the holder that is delayed in flight across a change of term.
// The writer holds the record on lease L (it passes its own leadership check); it loses the lease
// (Leadership.Reset() from another goroutine, or local expiry) either BEFORE it assembles the
// transaction or while the assembled transaction is already in flight; the transaction is parked just
// before it reaches etcd; meanwhile the record is released and the SAME member value is elected again
// on a new lease (the same object campaigns again, optionally after another contender led, or a second
// incarnation publishes the same value); then the transaction is let through.
// Oracle (clause 3, revision-exact owner = the campaign whose lease the writer held): if at the moment
// of arrival the record is not (value of the writer, lease L) the write is rejected: nothing under the
// root changes and the writer gets an error.
func (w *world) doDelayedWrite(c *cont, op Op) error {
	w.clock.set(c.idx)
	r0, ok0 := w.record()
	if !w.modelValid(c) || !ok0 || r0.V != c.value || r0.Lease != c.lease || c.lease == 0 || !c.ls.Check() {
		w.info.Class("dwrite-not-applicable")
		return nil
	}
	heldLease := c.lease
	loseFirst := op.N%2 == 0
	kind := op.W
	switch {
	case w.c.Domain == "dc" && kind != "txn" && kind != "txncmp" && kind != "tso-update":
		kind = "txn"
	case kind == "tso-update" && (!c.ta.IsInitialize() || (loseFirst && op.How != "lexp")):
		kind = "txn"
	case kind == "enc" && loseFirst:
		kind = "txncmp" // rotateKeyIfNeeded checks the lease itself right before it assembles the save
	}
	if kind == "dcloc-del" {
		t := w.cs[((op.T%len(w.cs))+len(w.cs))%len(w.cs)]
		w.f.PutRaw(t.m.GetDCLocationPath(t.id), "dc-1")
	}
	if kind == "tso-update" && !loseFirst {
		if w.clock.offset(c.idx)+saveInterval+time.Millisecond > c.expire {
			kind = "txn"
		} else {
			w.clock.advance(c.idx, saveInterval+time.Millisecond)
		}
	}
	lose := func() {
		if op.How == "lexp" {
			w.clock.atLeast(c.idx, c.expire+time.Nanosecond)
			return
		}
		c.ls.Reset() // ResetAllocatorGroup / a step-down running on another goroutine
	}
	if loseFirst {
		lose()
	}
	w.takeEvents()
	h := &holdT{slot: c.idx, parked: make(chan struct{}), release: make(chan struct{})}
	done := make(chan struct{})
	var werr error
	ran := false
	wop := Op{W: kind, N: op.N, T: op.T}
	go func() {
		defer close(done)
		defer w.clock.bind(c.idx)()
		h.g.Store(goid())
		w.hold.Store(h)
		if kind == "tso-update" {
			// the updater passed its own Check() a moment ago
			werr, ran = c.ta.UpdateTSO(), true
			return
		}
		werr, ran = w.writeCall(c, wop)
	}()
	released := false
	letGo := func() {
		if !released {
			released = true
			w.hold.Store(nil)
			close(h.release)
		}
	}
	defer letGo()
	select {
	case <-h.parked:
	case <-done:
		w.hold.Store(nil)
		w.takeEvents()
		w.info.Class("dwrite-nothing-sent:" + kind)
		if !loseFirst {
			lose()
		}
		if op.How != "lexp" {
			c.held, c.granted, c.noLease = false, false, false
		}
		return nil
	case <-time.After(5 * time.Second):
		w.info.Inconclusive = true
		return nil
	}
	w.hold.Store(nil) // only this one transaction is delayed
	if !loseFirst {
		lose()
	}
	if op.How != "lexp" {
		c.held, c.granted, c.noLease = false, false, false
	} else {
		w.revokeRaw(heldLease) // the etcd side of the expiry
	}
	// the term changes while the write is in flight
	variant := op.T % 3
	if variant == 1 && len(w.cs) > 1 {
		o := w.cs[(c.idx+1)%len(w.cs)]
		if err := w.doCampaign(o, 400, ""); err != nil {
			return err
		}
		if o.held {
			if err := w.doWrite(o, Op{K: "write", W: "txn", N: op.N + 1}); err != nil {
				return err
			}
		}
		if err := w.doResign(o, ""); err != nil {
			return err
		}
	}
	if w.info.Inconclusive {
		return nil
	}
	if variant == 2 {
		// a restarted incarnation of the member (same name, id, urls) wins the election
		w.clean = false
		ctx, cancel := context.WithTimeout(context.Background(), 10*time.Second)
		g, err := w.f.Raw.Grant(ctx, 600)
		if err == nil {
			w.mu.Lock()
			w.leases = append(w.leases, int64(g.ID))
			w.mu.Unlock()
			_, err = w.f.Raw.Txn(ctx).If(clientv3.Compare(clientv3.CreateRevision(w.leaderKey), "=", 0)).
				Then(clientv3.OpPut(w.leaderKey, c.value, clientv3.WithLease(g.ID))).Commit()
		}
		cancel()
		if err != nil {
			w.info.Inconclusive = true
			return nil
		}
	} else if err := w.doCampaign(c, 600, ""); err != nil {
		return err
	}
	if w.info.Inconclusive {
		return nil
	}
	w.clock.set(c.idx)
	pre, err := w.snap()
	if err != nil {
		w.info.Inconclusive = true
		return nil
	}
	w.takeEvents()
	letGo()
	select {
	case <-done:
	case <-time.After(15 * time.Second):
		w.info.Inconclusive = true
		return nil
	}
	evs := w.takeEvents()
	post, err := w.snap()
	if err != nil || envFailure(evs) {
		w.info.Inconclusive = true
		return nil
	}
	if w.idErr != nil {
		return w.idErr
	}
	_ = ran
	lr, lrOK := pre[w.leaderKey]
	order := "assembled after the lease was lost"
	if !loseFirst {
		order = "assembled before the lease was lost"
	}
	how := map[bool]string{true: "local expiry + revoke", false: "Reset()"}[op.How == "lexp"]
	what := fmt.Sprintf("guarded write %q of %s, %s (%s), delayed in flight until the record was re-acquired (variant %d)", kind, c.name, order, how, variant)
	if lrOK && lr.V == c.value && lr.Lease == heldLease {
		w.info.Class("dwrite-still-owner")
		return nil
	}
	applied := false
	for _, e := range evs {
		if e.slot == c.idx && e.method == "Txn" && e.write && e.applied {
			applied = true
		}
	}
	state := fmt.Sprintf("the record at arrival is (present %v, value of %s, on the lease the writer held: false)", lrOK, w.nameOf(lr.V))
	if d := diffSnap(pre, post); d != "" {
		return fmt.Errorf("%s: %s, yet stored state changed: %s", what, state, strings.ReplaceAll(d, w.root, ""))
	}
	if applied || werr == nil {
		return fmt.Errorf("%s: %s, yet the transaction was applied (%v) / reported success (%v)", what, state, applied, werr == nil)
	}
	w.nonOwnerAttempts++
	w.info.Class("dwrite-rejected:" + kind)
	w.info.Class("dwrite-rejected-order:" + order)
	w.info.ClassIf(lrOK && lr.V == c.value, "dwrite-rejected-same-value-new-lease")
	return nil
}

func (w *world) whyInvalid(c *cont) string {
	switch {
	case !c.campaigned:
		return "never campaigned"
	case !c.held:
		return "lost its last campaign or resigned"
	case !c.granted:
		return "has no granted lease"
	default:
		return fmt.Sprintf("is %v past its local lease deadline", w.clock.offset(c.idx)-c.expire)
	}
}

func (w *world) doCheckLeader(c *cont) error {
	if c.held {
		// a member that believes it leads sits in its leader loop and does not call CheckLeader
		w.info.Class("checkleader-not-applicable")
		return nil
	}
	w.clock.set(c.idx)
	pre, preOK := w.record()
	w.takeEvents()
	var (
		leader *pdpb.Member
		rev    int64
		again  bool
	)
	if w.c.Domain == "pd" {
		leader, rev, again = c.m.CheckLeader()
	} else {
		leader, rev, again = c.lta.CheckAllocatorLeader()
	}
	if envFailure(w.takeEvents()) {
		w.info.Inconclusive = true
		return nil
	}
	post, postOK := w.record()
	if again {
		return fmt.Errorf("CheckLeader of %s asked to retry without any injected fault", c.name)
	}
	if !preOK {
		if leader != nil || postOK {
			return fmt.Errorf("CheckLeader of %s reported leader %q although no record existed", c.name, leader.GetName())
		}
		return nil
	}
	var m pdpb.Member
	if err := m.Unmarshal([]byte(pre.V)); err != nil {
		return nil
	}
	if m.MemberId == c.id {
		// its own stale record: deleted so that a new election can start
		if leader != nil || postOK {
			return fmt.Errorf("CheckLeader of %s found its own stale record but returned leader %q, record still present: %v", c.name, leader.GetName(), postOK)
		}
		c.granted, c.noLease = false, false
		w.info.Class("checkleader-deleted-own-stale-record")
		return nil
	}
	if leader == nil || leader.MemberId != m.MemberId || rev != pre.Mod || !postOK || post != pre {
		return fmt.Errorf("CheckLeader of %s: record is (value of %s) but it returned leader %q (revision equals the record's mod_revision: %v), record afterwards present %v and unchanged %v", c.name, w.nameOf(pre.V), leader.GetName(), rev == pre.Mod, postOK, post == pre)
	}
	return nil
}

func (w *world) doDrop(op Op) error {
	h := w.owner()
	if h < 0 {
		h = op.I % len(w.cs)
	}
	c := w.cs[h]
	w.prev = h
	w.info.Class("drop:" + op.How)
	switch op.How {
	case "resign":
		return w.doResign(c, "")
	case "lexp":
		w.doLocalExpire(c, false)
	case "lexp-eexp":
		w.doLocalExpire(c, op.T%2 == 0)
		w.doEtcdExpire(c)
	case "eexp":
		w.doEtcdExpire(c)
	case "oobdel":
		w.clean = false
		w.f.DeleteRaw(w.leaderKey, false)
	case "overwrite":
		w.doOverwrite(op.T, h)
	}
	return nil
}

func (w *world) doOverwrite(t int, not int) {
	w.clean = false
	v := w.foreign
	if t >= 0 && t < len(w.cs) && t != not {
		v = w.cs[t].value
	}
	w.f.PutRaw(w.leaderKey, v)
	w.info.Class("overwrite")
}

// ---------------------------------------------------------------- race

func (w *world) doRace(op Op) error {
	n := len(w.cs)
	p := op.P
	if p > n {
		p = n
	}
	holder := w.owner()
	var camp []*cont
	for k := 0; k < p; k++ {
		c := w.cs[(op.I+k)%n]
		if (op.How == "resign" || op.How == "eexp" || op.W != "") && c.idx == holder {
			continue // the holder takes part as the one who resigns / is revoked / writes
		}
		camp = append(camp, c)
	}
	if len(camp) == 0 {
		return nil
	}
	for _, c := range camp {
		if c.held {
			if err := w.doResign(c, ""); err != nil {
				return err
			}
		}
	}
	_, preOK := w.record()
	var victim, writer *cont
	if holder >= 0 {
		if op.How == "resign" || op.How == "eexp" {
			victim = w.cs[holder]
		}
		if op.W != "" {
			writer = w.cs[holder]
		}
	} else if op.W != "" && w.prev >= 0 {
		writer = w.cs[w.prev]
		for _, c := range camp {
			if c == writer {
				writer = nil
			}
		}
	}
	if writer != nil && victim == writer && op.How == "resign" {
		writer = nil // Reset and LeaderTxn of one Leadership object would be a data race of the harness' own making
	}
	if writer != nil && op.W == "tso-update" && (!writer.ta.IsInitialize() || !w.modelValid(writer)) {
		writer = nil
	}
	ndel := 0
	sc := gate.New()
	w.takeEvents()
	if op.Fail != "" {
		w.setFault(camp[0].idx, op.Fail)
	}
	type res struct {
		start time.Duration
		err   error
	}
	results := make([]res, len(camp))
	w.sched = sc
	for k, c := range camp {
		k, c := k, c
		results[k].start = w.clock.offset(c.idx)
		sc.Go(k+1, func() {
			defer w.clock.bind(c.idx)()
			results[k].err = w.campaignCall(c, op.TTL)
		})
	}
	switch {
	case op.How == "oobdel":
		ndel++
		w.clean = false
		sc.Go(7, func() {
			sc.Enter("oobdel", "")
			w.f.DeleteRaw(w.leaderKey, false)
		})
	case op.How == "resign" && victim != nil:
		ndel++
		sc.Go(7, func() {
			defer w.clock.bind(victim.idx)()
			w.resetCall(victim)
		})
	case op.How == "eexp" && victim != nil && victim.lease != 0:
		ndel++
		if w.modelValid(victim) {
			w.clean = false
		}
		sc.Go(7, func() {
			sc.Enter("eexp", "")
			w.revokeRaw(victim.lease)
		})
	}
	var werr error
	wran := false
	if writer != nil {
		wop := Op{W: op.W, N: op.I, T: op.I}
		sc.Go(8, func() {
			defer w.clock.bind(writer.idx)()
			werr, wran = w.writeCall(writer, wop)
		})
	}
	ok := sc.Run(op.Sched, nil)
	sc.Disable()
	w.sched = nil
	w.clearFaults()
	evs := w.takeEvents()
	if !ok {
		w.info.Inconclusive = true
		return nil
	}
	if victim != nil && op.How == "resign" {
		victim.held, victim.granted, victim.noLease = false, false, false
	}
	applied, lost := 0, 0
	for k, c := range camp {
		a, err := w.afterCampaign(c, results[k].start, op.TTL, results[k].err, evs)
		if err != nil {
			return fmt.Errorf("race (schedule %v): %v", op.Sched, err)
		}
		if a {
			applied++
			if results[k].err != nil {
				lost++
			}
		}
		if results[k].err == nil {
			if w.c.Domain == "pd" {
				c.m.EnableLeader()
			} else {
				c.lta.EnableAllocatorLeader()
			}
		}
	}
	if err := w.checkAppliedWrites(evs); err != nil {
		return fmt.Errorf("race (schedule %v): %v", op.Sched, err)
	}
	_ = werr
	if envFailure(evs) {
		w.info.Inconclusive = true
		return nil
	}
	free := 0
	if !preOK {
		free = 1
	}
	if applied > free+ndel+lost {
		return fmt.Errorf("race (schedule %v): %d campaigns succeeded with %d deletions of the record in between (record present at start: %v)", op.Sched, applied, ndel+lost, preOK)
	}
	if !preOK && ndel == 0 && op.Fail == "" && w.c.Domain == "pd" && applied != 1 {
		return fmt.Errorf("race (schedule %v): %d of %d simultaneous campaigns succeeded on an absent record without faults", op.Sched, applied, len(camp))
	}
	w.info.Class("race")
	if len(camp) >= 2 {
		w.info.Class("race-2+campaigns")
	}
	if ndel > 0 {
		w.info.Class("race-with-" + op.How)
	}
	if wran {
		w.info.Class("race-with-writer:" + op.W)
	}
	if len(sc.Trace) >= 5 {
		w.info.Class("race-interleaved")
	}
	return nil
}

// ---------------------------------------------------------------- invariants after every step

func (w *world) invariants() error {
	r, ok := w.record()
	nCheck := 0
	for _, c := range w.cs {
		w.clock.set(c.idx)
		chk := c.ls.Check()
		valid := w.modelValid(c)
		if chk && !valid {
			if c.noLease {
				// grantFaultNote: Campaign failed before a lease was granted; lease.expireTime was
				// never stored, IsExpired() is false and Check() reports true until the next
				// Reset/Campaign. Counted, not claimed (every leader-only path has a second guard).
				w.info.Class("check-true-after-failed-grant")
				continue
			}
			return fmt.Errorf("Check() of %s is true although it %s", c.name, w.whyInvalid(c))
		}
		if w.c.Domain == "pd" && c.m.IsLeader() && !valid {
			return fmt.Errorf("IsLeader() of %s is true although it %s", c.name, w.whyInvalid(c))
		}
		if w.c.Domain == "dc" && c.lta.IsAllocatorLeader() && !valid {
			return fmt.Errorf("IsAllocatorLeader() of %s is true although it %s", c.name, w.whyInvalid(c))
		}
		if chk {
			nCheck++
			if w.clean && (!ok || r.V != c.value || r.Lease != c.lease) {
				return fmt.Errorf("Check() of %s is true, only protocol removals happened, but the record is (present %v, value of %s, %s); want its value on its own lease", c.name, ok, w.nameOf(r.V), w.leaseName(r.Lease))
			}
		}
		if ok && r.V == c.value {
			w.holders[c.idx] = true
		}
	}
	if w.clean && nCheck > 1 {
		return fmt.Errorf("%d contenders have Check()==true at the same time although the record was only ever removed by the protocol", nCheck)
	}
	if nCheck > 1 {
		w.info.Class("two-believers-after-out-of-band-removal")
	}
	return nil
}

// ---------------------------------------------------------------- runner

func memberValue(name string, id uint64) string {
	m := &pdpb.Member{Name: name, MemberId: id, ClientUrls: []string{"http://127.0.0.1:2379"}, PeerUrls: []string{"http://127.0.0.1:2380"}}
	b, _ := m.Marshal()
	return string(b)
}

func newWorld(c Case, info *vkit.Info) (*world, error) {
	sl, f, err := getSlots()
	if err != nil {
		return nil, err
	}
	if c.N < 2 {
		c.N = 2
	}
	if c.N > 4 {
		c.N = 4
	}
	root := f.Root() + "/x"
	w := &world{f: f, sl: sl, c: c, root: root, clean: true, prev: -1, info: info, holders: map[int]bool{}, gone: map[int64]bool{},
		clock: &vclock{base: time.Unix(1700000000, 0)}, foreign: memberValue("foreign", 999)}
	if c.Domain == "dc" {
		w.leaderKey = path.Join(root, "dc-1")
		w.nextKey = path.Join(root, "dc-1", "next-leader")
	} else {
		w.leaderKey = path.Join(root, "leader")
	}
	w.allocKey = path.Join(root, "alloc_id")
	for i := 0; i < c.N; i++ {
		ct := &cont{idx: i, name: fmt.Sprintf("m%d", i), id: uint64(101 + i)}
		ct.m = member.NewMember(f.Etcd, sl[i].client, ct.id)
		ct.m.MemberInfo(pdCfg, ct.name, root)
		ct.value = ct.m.MemberValue()
		ct.ida = id.NewAllocator(sl[i].client, root, ct.value)
		ct.am = tso.NewAllocatorManager(ct.m, root, pdCfg, func() time.Duration { return 24 * time.Hour })
		if c.Domain == "dc" {
			ct.ls = election.NewLeadership(sl[i].client, w.leaderKey, "dc-1 local allocator leader election")
			ct.ta = tso.NewLocalTSOAllocator(ct.am, ct.ls, "dc-1")
			ct.lta = ct.ta.(*tso.LocalTSOAllocator)
		} else {
			ct.ls = ct.m.GetLeadership()
			ct.ta = tso.NewGlobalTSOAllocator(ct.am, ct.ls)
		}
		w.cs = append(w.cs, ct)
	}
	curClock.Store(w.clock)
	w.install()
	return w, nil
}

func (w *world) close() {
	w.sched = nil
	for _, s := range w.sl {
		s.hooks.Set(nil, nil)
	}
	for _, c := range w.cs {
		c.ls.Reset()
	}
	curClock.Store((*vclock)(nil))
	w.mu.Lock()
	ls := w.leases
	w.mu.Unlock()
	for _, l := range ls {
		w.revokeRaw(l)
	}
	w.f.DeleteRaw(w.root, true)
	w.f.DeleteRaw(encKeysPath, false)
}

func runCase(c Case) (info vkit.Info, rerr error) {
	w, err := newWorld(c, &info)
	if err != nil {
		info.Inconclusive = true
		return info, nil
	}
	defer w.close()
	defer func() {
		if r := recover(); r != nil {
			if r == errOracleRead {
				info.Inconclusive, rerr = true, nil
				return
			}
			panic(r)
		}
	}()
	info.Class("domain-" + c.Domain)
	for step, op := range c.Ops {
		w.step = step
		var err error
		switch op.K {
		case "campaign":
			err = w.doCampaign(w.resolve(op), op.TTL, op.Fail)
		case "resign":
			err = w.doResign(w.resolve(op), op.Fail)
		case "lexpire":
			w.doLocalExpire(w.resolve(op), op.N == 1)
		case "eexpire":
			w.doEtcdExpire(w.resolve(op))
		case "oobdel":
			w.clean = false
			w.f.DeleteRaw(w.leaderKey, false)
			info.Class("oobdel")
		case "overwrite":
			w.doOverwrite(op.T, -1)
		case "drop":
			err = w.doDrop(op)
		case "write":
			if c.Domain == "dc" && (op.W != "txn" && op.W != "txncmp" && !strings.HasPrefix(op.W, "tso-")) {
				op.W = "txn"
			}
			if c.Domain == "pd" && op.W == "tso-write" {
				op.W = "tso-set"
			}
			err = w.doWrite(w.resolve(op), op)
		case "tso":
			err = w.doTSO(w.resolve(op))
		case "tsowait":
			err = w.doTSOWait(w.resolve(op), op)
		case "dwrite":
			err = w.doDelayedWrite(w.resolve(op), op)
		case "checkleader":
			err = w.doCheckLeader(w.resolve(op))
		case "dcput":
			if c.Domain == "pd" {
				t := w.cs[((op.T%len(w.cs))+len(w.cs))%len(w.cs)]
				// what member t's own SetLocalTSOConfig stores (not leader-only by design)
				w.f.PutRaw(t.m.GetDCLocationPath(t.id), fmt.Sprintf("dc-%d", op.N%3))
			}
		case "nextkey":
			if c.Domain == "dc" {
				if op.T < 0 {
					w.f.DeleteRaw(w.nextKey, false)
				} else {
					w.f.PutRaw(w.nextKey, fmt.Sprint(w.cs[op.T%len(w.cs)].id))
				}
			}
		case "race":
			err = w.doRace(op)
		}
		if err == nil && w.idErr != nil {
			err = w.idErr
		}
		if err != nil {
			return info, fmt.Errorf("op %d %s: %v", step, describe(op), err)
		}
		if info.Inconclusive {
			return info, nil
		}
		if err := w.invariants(); err != nil {
			return info, fmt.Errorf("after op %d %s: %v", step, describe(op), err)
		}
	}
	info.ClassIf(len(w.holders) >= 2, "two-holders")
	info.ClassIf(w.nonOwnerAttempts > 0, "nonowner-write-attempted")
	info.ClassIf(w.clean, "protocol-only-history")
	info.NonTrivial = len(w.holders) >= 2 && w.nonOwnerAttempts > 0
	return info, nil
}

func describe(op Op) string {
	s := op.K
	if op.W != "" {
		s += ":" + op.W
	}
	if op.How != "" {
		s += ":" + op.How
	}
	if op.Rel != "" {
		s += "(" + op.Rel + ")"
	} else {
		s += fmt.Sprintf("(%d)", op.I)
	}
	if op.Fail != "" {
		s += "!" + op.Fail
	}
	return s
}

// ---------------------------------------------------------------- finding probes

// A stale leader (record deleted out of band and re-acquired by another member, own
// lease still locally valid) runs ClusterDCLocationChecker: the local-tso suffix of a
// new dc-location is written with a plain create-if-absent txn, not a LeaderTxn.
func TestFinding_local_tso_suffix_write_not_leader_guarded(t *testing.T) {
	var info vkit.Info
	w, err := newWorld(Case{Domain: "pd", N: 2}, &info)
	if err != nil {
		t.Skip("fixture not available")
	}
	defer w.close()
	a, b := w.cs[0], w.cs[1]
	reproduced, detail := false, ""
	func() {
		if err := w.doCampaign(a, 600, ""); err != nil || !a.held {
			detail = fmt.Sprintf("set-up failed: %v", err)
			return
		}
		w.f.PutRaw(b.m.GetDCLocationPath(b.id), "dc-9")
		w.f.DeleteRaw(w.leaderKey, false)
		if err := w.doCampaign(b, 600, ""); err != nil || !b.held {
			detail = fmt.Sprintf("set-up failed: %v", err)
			return
		}
		w.clock.set(a.idx)
		pre, _ := w.snap()
		w.takeEvents()
		am := tso.NewAllocatorManager(a.m, w.root, pdCfg, func() time.Duration { return 24 * time.Hour })
		am.ClusterDCLocationChecker()
		evs := w.takeEvents()
		post, _ := w.snap()
		d := diffSnap(pre, post)
		wrote := false
		for _, e := range evs {
			if e.slot == a.idx && e.write && e.applied {
				wrote = true
			}
		}
		reproduced = d != "" && wrote
		detail = fmt.Sprintf("record owned by %s; stale leader %s (Check=%v) ran ClusterDCLocationChecker: %s", w.nameOf(post[w.leaderKey].V), a.name, a.ls.Check(), strings.ReplaceAll(d, w.root, ""))
		if d == "" {
			detail = "stale leader's suffix write was rejected"
		}
	}()
	vkit.Finding(t, findingSuffix, reproduced, detail)
}
