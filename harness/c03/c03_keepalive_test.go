// C03 `keepalive` — the local view of the lease stays conservative while the real keep-alive loop runs.
//
// "A member whose lease has expired ... grants no timestamps and answers not-leader": what pd checks is
// Leadership.Check(), i.e. the LOCAL deadline of the lease. At most one member can hold a leadership only
// because that deadline never lies after the deadline etcd enforces: it must be computed from a clock reading
// taken BEFORE the request that (re)newed the lease was sent, plus the TTL etcd answered. The `lease` property
// drives grant / expiry / resign with the keep-alive loop switched off; this one runs the real
// Leadership.Keep (lease.KeepAlive + keepAliveWorker) against the embedded etcd on the virtual clock of the
// overlay and lets generated amounts of time pass while each keep-alive request is on its way (before it is
// sent, and before its answer is returned), with requests that are not sent, answers that are lost and an
// out-of-band revoke of the lease.
//
// Oracle: B = max over the LeaseGrant and over every keep-alive round trip whose answer was delivered of
// (clock when the request was handed to the client + TTL of the answer). Once the clock is past B,
// Check() must be false. (Before B it is normally true; that is counted, not required: a deadline that is
// more conservative than necessary is no violation.)
package c03

import (
	"context"
	"fmt"
	"sync"
	"testing"
	"time"

	"github.com/tikv/pd/server/election"
	pb "go.etcd.io/etcd/etcdserver/etcdserverpb"
	"pdverif/vkit"
	"pdverif/vkit/etcdfix"
	"pgregory.net/rapid"
)

type KARound struct {
	Act string `json:"act"`          // ok | fail (not sent) | lost (answered, answer dropped)
	D1  int    `json:"d1,omitempty"` // ms passing between the worker's clock reading and the send
	D2  int    `json:"d2,omitempty"` // ms passing before the answer is returned to the worker
}

type KACase struct {
	TTL    int       `json:"ttl"`              // seconds, as passed to Campaign
	GrantD int       `json:"grant_d"`          // ms passing while the LeaseGrant is in flight
	Rounds []KARound `json:"rounds"`           // plan of the i-th keep-alive request
	Revoke bool      `json:"revoke,omitempty"` // after the planned rounds the lease is revoked out of band (else: further requests are not sent)
	// GrantFail: the LeaseGrant of the campaign fails ("before": not sent, "lost": granted, answer dropped): the
	// campaign fails and the member holds no lease it knows of
	GrantFail string `json:"grant_fail,omitempty"`
}

func init() {
	vkit.Register("keepalive", vkit.N{Quick: 144, Thorough: 4800}, genKA, runKA)
}

func genKA(t *rapid.T) KACase {
	c := KACase{TTL: 1}
	if uniIn(t, 0, 99, "ttl2") < 15 {
		c.TTL = 2
	}
	ms := func(label string) int {
		switch uniIn(t, 0, 9, label+"-kind") {
		case 0, 1, 2:
			return 0
		case 3, 4, 5, 6:
			return uniIn(t, 1, 900, label)
		default:
			return uniIn(t, 900, 1000*c.TTL*3, label)
		}
	}
	c.GrantD = ms("grant-d")
	n := uniIn(t, 1, 4, "rounds")
	for i := 0; i < n; i++ {
		r := KARound{Act: "ok"}
		switch uniIn(t, 0, 9, "act") {
		case 0:
			r.Act = "fail"
		case 1:
			r.Act = "lost"
		}
		r.D1, r.D2 = ms("d1"), ms("d2")
		c.Rounds = append(c.Rounds, r)
	}
	c.Revoke = uniIn(t, 0, 3, "revoke") == 0
	if uniIn(t, 0, 9, "grantFail") == 0 {
		c.GrantFail = vkit.PickU(t, []string{"before", "lost"}, "grantFailKind")
	}
	return c
}

type kaWorld struct {
	mu        sync.Mutex
	clock     *vclock
	c         KACase
	next      int                   // index of the next keep-alive request
	sentAt    map[int]time.Duration // request seq -> clock offset when it was handed over
	plan      map[int]KARound
	inflight  int
	done      int  // requests completed (answered, failed or not sent)
	tail      bool // planned rounds are over
	bound     time.Duration
	delivered int
	slowOK    int
	grantSeen bool
	cond      *sync.Cond
	ls        *election.Leadership
	early     string // Check() answered true before any lease was granted
}

func runKA(c KACase) (info vkit.Info, rerr error) {
	sl, f, err := getSlots()
	if err != nil {
		info.Inconclusive = true
		return info, nil
	}
	s := sl[0]
	w := &kaWorld{clock: &vclock{base: time.Unix(1700000000, 0)}, c: c, sentAt: map[int]time.Duration{}, plan: map[int]KARound{}}
	w.cond = sync.NewCond(&w.mu)
	// (the grpc property switches the overlay's clock hook off for its live server; it is registered after this one,
	// and the hook is re-installed here in any case)
	election.SetVerifClock(clockNow, clockSleep)
	curClock.Store(w.clock)
	defer curClock.Store((*vclock)(nil))
	s.hooks.Set(w.before, w.after)
	s.hooks.SetStreams(true)
	defer func() {
		s.hooks.Set(nil, nil)
		s.hooks.SetStreams(false)
	}()

	root := f.Root()
	ls := election.NewLeadership(s.client, root+"/leader", "c03 keepalive")
	w.ls = ls
	if ls.Check() {
		return info, fmt.Errorf("Check() is true on a member that never campaigned")
	}
	if c.GrantFail != "" {
		err := ls.Campaign(int64(c.TTL), "member-ka")
		info.Class("grant-fails-" + c.GrantFail)
		info.NonTrivial = true
		if w.early != "" {
			return info, fmt.Errorf("%s", w.early)
		}
		if err == nil {
			return info, fmt.Errorf("the campaign succeeded although its LeaseGrant failed (%s)", c.GrantFail)
		}
		if ls.Check() {
			return info, fmt.Errorf("the LeaseGrant of the campaign failed (%s: %v), the member holds no lease, and Check() answers true", c.GrantFail, err)
		}
		return info, nil
	}
	if err := ls.Campaign(int64(c.TTL), "member-ka"); err != nil {
		// no fault is injected into the campaign: an error is an environment problem
		info.Inconclusive = true
		return info, nil
	}
	if !w.grantSeen {
		return info, fmt.Errorf("campaign succeeded without a LeaseGrant passing the interceptor")
	}
	if w.early != "" {
		return info, fmt.Errorf("%s", w.early)
	}
	ctx, cancel := context.WithCancel(context.Background())
	kept := make(chan struct{})
	go func() { ls.Keep(ctx); close(kept) }()

	// wait until the planned rounds are over (or the keep-alive loop gave up), in real time: the worker ticks
	// every TTL/3 of the real clock
	limit := time.Now().Add(time.Duration(len(c.Rounds)+3)*time.Duration(c.TTL)*time.Second/3 + 5*time.Second)
	gaveUp := false
	for {
		w.mu.Lock()
		d := w.done
		w.mu.Unlock()
		if d >= len(c.Rounds) {
			break
		}
		select {
		case <-kept:
			gaveUp = true
		default:
		}
		if gaveUp {
			break
		}
		if time.Now().After(limit) {
			cancel()
			<-kept
			ls.Reset()
			info.Inconclusive = true
			return info, nil
		}
		time.Sleep(2 * time.Millisecond)
	}
	w.mu.Lock()
	w.tail = true
	w.mu.Unlock()
	if c.Revoke {
		if l := leaseOf(f, root+"/leader"); l != 0 {
			f.RevokeRaw(l)
		}
		info.Class("ka:revoked-out-of-band")
	}
	// let requests that are on their way finish, and the loop store what was delivered
	w.mu.Lock()
	for w.inflight > 0 {
		w.cond.Wait()
	}
	B, delivered, slow := w.bound, w.delivered, w.slowOK
	w.mu.Unlock()
	time.Sleep(30 * time.Millisecond)

	now := w.clock.offset(0)
	if now <= B {
		if B-now > time.Millisecond {
			w.clock.atLeast(0, B-time.Millisecond)
		}
		if ls.Check() {
			info.Class("ka:valid-until-bound")
		} else {
			info.Class("ka:more-conservative-than-bound")
		}
		w.clock.atLeast(0, B+time.Nanosecond)
	} else {
		info.Class("ka:clock-already-past-bound")
	}
	if ls.Check() {
		rerr = fmt.Errorf("Check() is true at %v past the lease grant although every request that renewed the lease was handed over "+
			"early enough for a deadline of at most %v (ttl %ds, %d keep-alive answers delivered): the local deadline is not conservative",
			w.clock.offset(0), B, c.TTL, delivered)
	}
	cancel()
	<-kept
	ls.Reset()

	info.Class(fmt.Sprintf("ka:delivered-%d", minInt(delivered, 3)))
	if gaveUp {
		info.Class("ka:loop-gave-up")
	}
	info.NonTrivial = slow > 0
	return info, rerr
}

func leaseOf(f *etcdfix.Fixture, key string) int64 {
	_, _, l, ok := f.GetRaw(key)
	if !ok {
		return 0
	}
	return l
}

func (w *kaWorld) before(ev *etcdfix.Event) etcdfix.Action {
	switch ev.Method {
	case "LeaseGrant":
		w.mu.Lock()
		w.sentAt[ev.Seq] = w.clock.offset(0)
		if w.ls != nil && w.ls.Check() {
			w.early = "Check() answers true while the LeaseGrant of the campaign is still in flight (no lease granted yet)"
		}
		w.mu.Unlock()
		w.clock.advance(0, time.Duration(w.c.GrantD)*time.Millisecond)
		switch w.c.GrantFail {
		case "before":
			return etcdfix.FailBefore
		case "lost":
			return etcdfix.LostAck
		}
		return etcdfix.Proceed
	case "LeaseKeepAlive":
		w.mu.Lock()
		defer w.mu.Unlock()
		i := w.next
		w.next++
		if w.tail || i >= len(w.c.Rounds) {
			if w.c.Revoke {
				// the lease is (about to be) revoked: etcd answers that it does not exist
				w.sentAt[ev.Seq] = w.clock.offset(0)
				w.plan[ev.Seq] = KARound{Act: "ok"}
				w.inflight++
				return etcdfix.Proceed
			}
			return etcdfix.FailBefore
		}
		r := w.c.Rounds[i]
		w.sentAt[ev.Seq] = w.clock.offset(0)
		w.plan[ev.Seq] = r
		w.clock.advance(0, time.Duration(r.D1)*time.Millisecond)
		switch r.Act {
		case "fail":
			return etcdfix.FailBefore
		case "lost":
			w.inflight++
			return etcdfix.LostAck
		}
		w.inflight++
		return etcdfix.Proceed
	}
	return etcdfix.Proceed
}

func (w *kaWorld) after(ev *etcdfix.Event) {
	switch ev.Method {
	case "LeaseGrant":
		if r, ok := ev.Resp.(*pb.LeaseGrantResponse); ok && ev.Err == nil {
			w.mu.Lock()
			w.grantSeen = true
			if b := w.sentAt[ev.Seq] + time.Duration(r.TTL)*time.Second; b > w.bound {
				w.bound = b
			}
			w.mu.Unlock()
		}
	case "LeaseKeepAlive":
		w.mu.Lock()
		r, planned := w.plan[ev.Seq]
		if ev.Action != etcdfix.FailBefore {
			w.inflight--
		}
		if planned && !w.tail {
			w.mu.Unlock()
			w.clock.advance(0, time.Duration(r.D2)*time.Millisecond)
			w.mu.Lock()
		}
		if resp, ok := ev.Resp.(*pb.LeaseKeepAliveResponse); ok && ev.Err == nil && resp.TTL > 0 {
			w.delivered++
			if r.D1+r.D2 > 0 {
				w.slowOK++
			}
			if b := w.sentAt[ev.Seq] + time.Duration(resp.TTL)*time.Second; b > w.bound {
				w.bound = b
			}
		}
		w.done++
		w.cond.Broadcast()
		w.mu.Unlock()
	}
}

func minInt(a, b int) int {
	if a < b {
		return a
	}
	return b
}

// uniIn draws uniformly from [lo, hi].
func uniIn(t *rapid.T, lo, hi int, label string) int { return lo + vkit.Uni(t, hi-lo+1, label) }

// The LeaseGrant of a campaign is still in flight, then fails: the member holds no lease, Check() must be false
// at both moments.
func TestFinding_check_true_without_granted_lease(t *testing.T) {
	_, err := runKA(KACase{TTL: 1, GrantFail: "before"})
	detail := "Check() is false while the grant is in flight and after it failed"
	if err != nil {
		detail = err.Error()
	}
	vkit.Finding(t, "C03/check-true-without-granted-lease", err != nil, detail)
}
