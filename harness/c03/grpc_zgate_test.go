package c03

// Property "gate" — the request gate of a live PD member in the state "lease lost, leader loop has not
// noticed yet". Sibling of "grpc" (which steps down through Member.ResetLeader, i.e. lease and remembered
// leader together): here the member's own leader loop is HELD STILL at its lease check, so that the state
// in which the two views of the leadership disagree can be kept as long as the requests need:
//
//	lease.expireTime / Leadership.Check()   the authoritative local view  -> lost
//	Member.leader (EnableLeader/ResetLeader) the remembered leader         -> still this member
//
// Fixture: the live, bootstrapped 1-member server of harness/livesrv. The build overlay routes every
// clock reading of server/election through a hook; the hook parks the goroutine whose stack contains
// (*Server).campaignLeader (the 50ms ticker loop: `if !s.member.IsLeader() { return }`) while a round
// asks for it, and adds the round's clock offset. Nothing else of the server is touched: the keep-alive
// worker, the TSO daemon, the raft cluster jobs and the gRPC handlers run as in production.
//
// A round: the member leads and answers; the leader loop is parked at its next tick; the lease is lost
//   - "reset":  Leadership.Reset() from another goroutine (what AllocatorManager.updateAllocator ->
//     ResetAllocatorGroup(global) does when a TSO window save fails): deadline cleared, lease revoked;
//   - "expire": the member's clock jumps past request-start+TTL (process stall longer than the lease);
//
// then 2-4 callers send id / metadata requests (AllocID, GetStore, GetAllStores, GetRegion, GetRegionByID,
// ScanRegions, GetClusterConfig, GetGCSafePoint, AskBatchSplit, IsBootstrapped, GetOperator — every one
// passes Server.validateRequest) over the real gRPC connection; the loop is released, steps down and the
// member is re-elected; requests after that are answered again.
//
// Oracle (clause "a member whose lease has expired or was resigned answers not-leader to id-allocation
// and metadata requests"): a request for which Leadership.Check() was false both immediately before it was
// sent and immediately after its answer arrived (the lease cannot come back in between while the loop is
// parked; on the expire path a keep-alive answer may revive it, then the sample after is true and the
// request is not judged) must be answered with the not-leader error — not with an id, not with data, not
// with a header error. Refusing is always fine. Transport errors, time-outs, a loop that could not be
// parked and a member that does not come back are inconclusive.

import (
	"context"
	"fmt"
	"os"
	"runtime"
	"strings"
	"sync"
	"sync/atomic"
	"time"

	"github.com/pingcap/kvproto/pkg/metapb"
	"github.com/pingcap/kvproto/pkg/pdpb"
	"github.com/tikv/pd/server/election"
	"github.com/tikv/pd/server/tso"
	"pdverif/livesrv"
	"pdverif/vkit"
	"pgregory.net/rapid"
)

func init() {
	vkit.Register("gate", vkit.N{Quick: 40, Thorough: 640}, genGate, runGate)
}

type GRound struct {
	How   string     `json:"how"`   // reset | expire
	Kinds [][]string `json:"kinds"` // per caller: request kinds it sends while the lease is lost
	Warm  int        `json:"warm"`  // requests before (the member leads)
	After int        `json:"after"` // requests after the re-election
}

type GCase struct {
	Rounds []GRound `json:"rounds"`
}

var gkinds = []string{"alloc", "alloc", "alloc", "getstore", "getallstores", "getregion", "getregionbyid", "scanregions", "clusterconfig", "gcsafepoint", "asksplit", "isbootstrapped", "getoperator"}

func genGate(t *rapid.T) GCase {
	var c GCase
	for r, n := 0, 1+vkit.Uni(t, 3, "rounds"); r < n; r++ {
		rd := GRound{How: vkit.PickU(t, []string{"reset", "reset", "expire"}, "how"), Warm: vkit.Uni(t, 3, "warm"), After: vkit.Uni(t, 3, "after")}
		for w, nw := 0, 1+vkit.Uni(t, 3, "callers"); w < nw; w++ {
			var ks []string
			for i, nk := 0, 1+vkit.Uni(t, 5, "nkinds"); i < nk; i++ {
				ks = append(ks, vkit.PickU(t, gkinds, "kind"))
			}
			rd.Kinds = append(rd.Kinds, ks)
		}
		c.Rounds = append(c.Rounds, rd)
	}
	return c
}

// ---------------------------------------------------------------- clock hook of server/election

var gateClk struct {
	park    atomic.Bool
	parked  atomic.Int32
	mu      sync.Mutex
	release chan struct{}
	offset  atomic.Int64 // nanoseconds added to the real clock
}

func onLeaderLoop() bool {
	pcs := make([]uintptr, 32)
	n := runtime.Callers(0, pcs)
	frames := runtime.CallersFrames(pcs[:n])
	for {
		f, more := frames.Next()
		if strings.HasSuffix(f.Function, "(*Server).campaignLeader") {
			return true
		}
		if !more {
			return false
		}
	}
}

func gateNow() time.Time {
	if gateClk.park.Load() && onLeaderLoop() {
		gateClk.mu.Lock()
		ch := gateClk.release
		gateClk.mu.Unlock()
		if ch != nil && gateClk.park.Load() {
			gateClk.parked.Add(1)
			<-ch
		}
	}
	return time.Now().Add(time.Duration(gateClk.offset.Load()))
}

func gatePark() {
	gateClk.mu.Lock()
	gateClk.release = make(chan struct{})
	gateClk.mu.Unlock()
	gateClk.parked.Store(0)
	gateClk.park.Store(true)
}

func gateRelease() {
	gateClk.park.Store(false)
	gateClk.mu.Lock()
	if gateClk.release != nil {
		close(gateClk.release)
		gateClk.release = nil
	}
	gateClk.mu.Unlock()
}

// ---------------------------------------------------------------- runner

type gev struct {
	round, caller  int
	phase, kind    string
	before, after  bool // Leadership.Check() around the request
	remembered     bool // Member.leader named this member after the answer
	notLeader      bool
	answer, errTxt string
	transport      bool
}

func (e *gev) String() string {
	a := e.answer
	if e.errTxt != "" {
		a = "error " + e.errTxt
	}
	return fmt.Sprintf("round %d caller %d %s %s: lease valid before/after %v/%v, remembered leader is itself %v -> %s", e.round, e.caller, e.phase, e.kind, e.before, e.after, e.remembered, a)
}

var gateOnce sync.Once

func runGate(c GCase) (info vkit.Info, err error) {
	if os.Getenv("VERIF_REPLAY") != "" {
		defer livesrv.ShutdownAll()
	}
	inconclusive := func(why string) (vkit.Info, error) {
		info.Inconclusive = true
		info.Class("inconclusive:" + why)
		return info, nil
	}
	// live servers run on the real clock; this property owns the election clock while a case runs
	tso.SetVerifClock(nil, nil)
	election.SetVerifClock(nil, nil)
	// the thorough tier's grpc property (registered before this one) leaves its 3-member cluster running; its
	// leader's coordinator may still wait for its regions, which the single-member fixture's start-up check
	// ("no coordinator is starting in this process") would take for its own
	gateOnce.Do(livesrv.ShutdownMulti)
	fx := livesrv.MustGet()
	n := fx.Node()
	if !n.WaitServing(40 * time.Second) {
		livesrv.Fatal("C03 gate: the live member does not serve as leader")
	}
	cli, e := n.PD()
	if e != nil {
		return inconclusive("no-connection")
	}
	mem := n.Svr.GetMember()
	ls := mem.GetLeadership()
	myID := mem.ID()
	election.SetVerifClock(gateNow, nil)
	dirty := false
	defer func() {
		gateRelease()
		election.SetVerifClock(nil, nil)
		if dirty {
			// lease deadlines were stored in the shifted time frame: make the member take a fresh lease on the real clock
			gateClk.offset.Store(0)
			mem.ResetLeader()
			n.WaitServing(40 * time.Second)
		}
	}()

	var region *metapb.Region
	if rc := n.Svr.GetRaftCluster(); rc != nil {
		if r := rc.GetRegionByKey([]byte("")); r != nil {
			region = r.GetMeta()
		}
	}
	call := func(round, caller int, phase, kind string) *gev {
		ev := &gev{round: round, caller: caller, phase: phase, kind: kind}
		ctx, cancel := context.WithTimeout(context.Background(), 10*time.Second)
		defer cancel()
		hdr := n.Header()
		ev.before = ls.Check()
		var rerr error
		var herr *pdpb.Error
		switch kind {
		case "alloc":
			r, e := cli.AllocID(ctx, &pdpb.AllocIDRequest{Header: hdr})
			rerr, herr = e, r.GetHeader().GetError()
			ev.answer = fmt.Sprintf("id (%v)", r.GetId() != 0)
		case "getstore":
			r, e := cli.GetStore(ctx, &pdpb.GetStoreRequest{Header: hdr, StoreId: 1})
			rerr, herr = e, r.GetHeader().GetError()
			ev.answer = fmt.Sprintf("store record (%v)", r.GetStore() != nil)
		case "getallstores":
			r, e := cli.GetAllStores(ctx, &pdpb.GetAllStoresRequest{Header: hdr})
			rerr, herr = e, r.GetHeader().GetError()
			ev.answer = fmt.Sprintf("%d stores", len(r.GetStores()))
		case "getregion":
			r, e := cli.GetRegion(ctx, &pdpb.GetRegionRequest{Header: hdr, RegionKey: []byte("k")})
			rerr, herr = e, r.GetHeader().GetError()
			ev.answer = fmt.Sprintf("region (%v)", r.GetRegion() != nil)
		case "getregionbyid":
			r, e := cli.GetRegionByID(ctx, &pdpb.GetRegionByIDRequest{Header: hdr, RegionId: region.GetId()})
			rerr, herr = e, r.GetHeader().GetError()
			ev.answer = fmt.Sprintf("region (%v)", r.GetRegion() != nil)
		case "scanregions":
			r, e := cli.ScanRegions(ctx, &pdpb.ScanRegionsRequest{Header: hdr, StartKey: []byte(""), Limit: 4})
			rerr, herr = e, r.GetHeader().GetError()
			ev.answer = fmt.Sprintf("%d regions", len(r.GetRegionMetas()))
		case "clusterconfig":
			r, e := cli.GetClusterConfig(ctx, &pdpb.GetClusterConfigRequest{Header: hdr})
			rerr, herr = e, r.GetHeader().GetError()
			ev.answer = fmt.Sprintf("cluster config (%v)", r.GetCluster() != nil)
		case "gcsafepoint":
			r, e := cli.GetGCSafePoint(ctx, &pdpb.GetGCSafePointRequest{Header: hdr})
			rerr, herr = e, r.GetHeader().GetError()
			ev.answer = "gc safe point"
		case "asksplit":
			r, e := cli.AskBatchSplit(ctx, &pdpb.AskBatchSplitRequest{Header: hdr, Region: region, SplitCount: 1})
			rerr, herr = e, r.GetHeader().GetError()
			ev.answer = fmt.Sprintf("%d split ids", len(r.GetIds()))
		case "isbootstrapped":
			r, e := cli.IsBootstrapped(ctx, &pdpb.IsBootstrappedRequest{Header: hdr})
			rerr, herr = e, r.GetHeader().GetError()
			ev.answer = fmt.Sprintf("bootstrapped=%v", r.GetBootstrapped())
		case "getoperator":
			r, e := cli.GetOperator(ctx, &pdpb.GetOperatorRequest{Header: hdr, RegionId: region.GetId()})
			rerr, herr = e, r.GetHeader().GetError()
			ev.answer = "operator answer"
		}
		ev.after = ls.Check()
		ev.remembered = mem.GetLeader().GetMemberId() == myID
		if rerr != nil {
			m := rerr.Error()
			ev.errTxt = m
			switch {
			case strings.Contains(m, "not leader"):
				ev.notLeader = true
				ev.errTxt = "not leader"
			case strings.Contains(m, "DeadlineExceeded") || strings.Contains(m, "deadline exceeded") || strings.Contains(m, "transport") ||
				strings.Contains(m, "connection") || strings.Contains(m, "Canceled") || strings.Contains(m, "canceled"):
				ev.transport = true
			}
		} else if herr != nil {
			ev.answer = "header error " + herr.GetType().String()
		}
		return ev
	}

	var hist []*gev
	var hmu sync.Mutex
	judged, served := 0, 0
	for ri, rd := range c.Rounds {
		if !n.WaitServing(40 * time.Second) {
			return inconclusive("member-did-not-come-back")
		}
		for i := 0; i < rd.Warm; i++ {
			ev := call(ri, 0, "leading", gkinds[(ri+i)%len(gkinds)])
			hist = append(hist, ev)
			if ev.transport {
				return inconclusive("transport")
			}
			if ev.before && ev.after && !ev.notLeader {
				served++
			}
		}
		// hold the leader loop still at its next lease check
		gatePark()
		deadline := time.Now().Add(2 * time.Second)
		for gateClk.parked.Load() == 0 && time.Now().Before(deadline) {
			time.Sleep(time.Millisecond)
		}
		if gateClk.parked.Load() == 0 {
			gateRelease()
			return inconclusive("leader-loop-not-parked")
		}
		if !ls.Check() || mem.GetLeader().GetMemberId() != myID {
			gateRelease()
			return inconclusive("lost-leadership-before-the-round")
		}
		dirty = true
		switch rd.How {
		case "expire":
			gateClk.offset.Add(int64(time.Hour))
		default:
			ls.Reset()
		}
		info.Class("lease-lost:" + rd.How)
		var wg sync.WaitGroup
		for ci, ks := range rd.Kinds {
			wg.Add(1)
			go func(ci int, ks []string) {
				defer wg.Done()
				for _, k := range ks {
					ev := call(ri, ci, "lease-lost", k)
					hmu.Lock()
					hist = append(hist, ev)
					hmu.Unlock()
				}
			}(ci, ks)
		}
		wg.Wait()
		gateRelease()
		if !n.WaitServing(40 * time.Second) {
			return inconclusive("member-did-not-come-back")
		}
		for i := 0; i < rd.After; i++ {
			ev := call(ri, 0, "re-elected", gkinds[(ri+i+3)%len(gkinds)])
			hist = append(hist, ev)
			if ev.transport {
				return inconclusive("transport")
			}
		}
	}
	var viol *gev
	for _, ev := range hist {
		if ev.phase != "lease-lost" {
			continue
		}
		if ev.transport {
			return inconclusive("transport")
		}
		if ev.before || ev.after {
			info.Class("not-judged:lease-valid-around-the-request")
			continue
		}
		judged++
		if ev.notLeader {
			info.Class("refused-not-leader:" + ev.kind)
			info.ClassIf(ev.remembered, "refused-while-remembered-leader-still-itself")
			continue
		}
		if viol == nil {
			viol = ev
		}
	}
	if viol != nil {
		// the history goes to the log; the message itself is the same in every execution of the case
		for _, ev := range hist {
			if ev.round == viol.round {
				fmt.Println("C03 gate:", ev.String())
			}
		}
		got := "an answer: " + viol.answer
		if viol.errTxt != "" {
			got = "a different error"
		}
		return info, fmt.Errorf("a %s request of round %d was sent while the member's lease was lost (%s, Leadership.Check() false before and after the request) and its leader loop had not yet run ResetLeader (held at its lease check): want the not-leader error, got %s",
			viol.kind, viol.round, c.Rounds[viol.round].How, got)
	}
	info.ClassIf(served > 0, "served-while-leading")
	info.NonTrivial = judged > 0
	return info, nil
}
