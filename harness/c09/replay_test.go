package c09

// Property "replay": region reports reach the operator controller through
// RaftCluster.HandleRegionHeartbeat of a LIVE pd server (livesrv fixture: one
// bootstrapped 1-member server per test process, schedulers removed and all
// schedule limits 0 so that nothing but the case creates operators). A report
// the region cache refuses (older epoch than the cached one: a late duplicate,
// a report re-sent after a reconnect) must not reach the running operator:
//
//	the replayed report is refused (error returned), the cached region keeps its epoch;
//	the operator keeps running (it changed the region only through its own steps);
//	every command a store receives carries the epoch and leader of the cached region.
//
// The store side is simkit's region simulator again; commands are what the
// server's real HeartbeatStreams hand to recording store streams.

import (
	"fmt"
	"runtime"
	"sort"
	"sync"
	"time"

	"github.com/pingcap/kvproto/pkg/metapb"
	"github.com/pingcap/kvproto/pkg/pdpb"
	"github.com/tikv/pd/server/cluster"
	"github.com/tikv/pd/server/core/storelimit"
	"github.com/tikv/pd/server/schedule/hbstream"
	"github.com/tikv/pd/server/schedule/operator"
	"pdverif/livesrv"
	"pdverif/simkit"
	"pdverif/vkit"
	"pgregory.net/rapid"
)

func init() {
	vkit.Register("replay", vkit.N{Quick: 1200, Thorough: 20000}, genReplay, runReplay)
}

// RStep is one step of a replay case.
type RStep struct {
	// Kind: exec (store executes the newest command, reports the new state), hb (reports the current state
	// again), replay (re-delivers an OLDER accepted report: Back selects which, Times how often)
	Kind  string `json:"k"`
	Back  int    `json:"back,omitempty"`
	Times int    `json:"times,omitempty"`
}

// ReplayCase is one generated input of the replay property.
type ReplayCase struct {
	Stores []uint64 `json:"stores"` // stores of the region's voters (subset of 1..5), the first is the leader
	Learn  int      `json:"learn"`  // 0, or index (>0) of a peer that is a learner
	Req    string   `json:"req"`    // movePeer addPeer removePeer moveLeader transferLeader
	A      int      `json:"a"`
	B      int      `json:"b"`
	Script []RStep  `json:"script"`
}

const replayStores = 5

func genReplay(t *rapid.T) ReplayCase {
	var c ReplayCase
	all := []uint64{1, 2, 3, 4, 5}
	n := simkit.IntU(t, 2, 4, "nPeers")
	c.Stores = rapid.Permutation(all).Draw(t, "stores")[:n]
	if n >= 3 && simkit.Pct(t, 30, "learner") {
		c.Learn = simkit.IntU(t, 1, n-1, "learn")
	}
	c.Req = simkit.Pick(t, []string{"movePeer", "movePeer", "movePeer", "moveLeader", "moveLeader", "addPeer", "removePeer", "transferLeader"}, "req")
	c.A, c.B = simkit.IntU(t, 0, 5, "a"), simkit.IntU(t, 0, 5, "b")
	k := simkit.IntU(t, 3, 10, "nSteps")
	for i := 0; i < k; i++ {
		s := RStep{Kind: simkit.Pick(t, []string{"exec", "exec", "exec", "replay", "replay", "hb"}, "kind")}
		if s.Kind == "replay" {
			s.Back = simkit.IntU(t, 0, 3, "back")
			s.Times = simkit.Pick(t, []int{1, 1, 2, 3}, "times")
		}
		c.Script = append(c.Script, s)
	}
	return c
}

// ---------------------------------------------------------------- live fixture

type liveEnv struct {
	f      *livesrv.Fixture
	rc     *cluster.RaftCluster
	hb     *hbstream.HeartbeatStreams
	rec    *recorder
	stream map[uint64]*recStream
	seq    int
}

var (
	liveOnce sync.Once
	live     *liveEnv
	liveErr  error
)

func liveSetup() (*liveEnv, error) {
	liveOnce.Do(func() {
		f, err := livesrv.Get()
		if err != nil {
			liveErr = err
			return
		}
		e := &liveEnv{f: f, rc: f.Svr.GetRaftCluster(), rec: &recorder{}, stream: map[uint64]*recStream{}}
		// nothing but the cases creates operators
		for _, name := range e.rc.GetSchedulers() {
			_ = e.rc.RemoveScheduler(name)
		}
		cfg := f.Svr.GetScheduleConfig().Clone()
		cfg.LeaderScheduleLimit, cfg.RegionScheduleLimit, cfg.ReplicaScheduleLimit = 0, 0, 0
		cfg.MergeScheduleLimit, cfg.HotRegionScheduleLimit = 0, 0
		if err := f.Svr.SetScheduleConfig(*cfg); err != nil {
			liveErr = err
			return
		}
		for id := uint64(1); id <= replayStores; id++ {
			if e.rc.GetStore(id) == nil {
				if err := e.rc.PutStore(&metapb.Store{Id: id, Address: fmt.Sprintf("mock://c09-%d", id), Version: "4.0.0"}); err != nil {
					liveErr = fmt.Errorf("put store %d: %v", id, err)
					return
				}
			}
		}
		_ = e.rc.SetAllStoresLimit(storelimit.AddPeer, storelimit.Unlimited*60)
		_ = e.rc.SetAllStoresLimit(storelimit.RemovePeer, storelimit.Unlimited*60)
		e.hb = e.rc.GetHeartbeatStreams()
		for id := uint64(1); id <= replayStores; id++ {
			s := &recStream{rec: e.rec, store: id}
			e.stream[id] = s
			e.hb.BindStream(id, s)
		}
		live = e
	})
	return live, liveErr
}

func (e *liveEnv) storeHeartbeats() error {
	const gb = uint64(1) << 30
	for id := uint64(1); id <= replayStores; id++ {
		if err := e.rc.HandleStoreHeartbeat(&pdpb.StoreStats{StoreId: id, Capacity: 100 * gb, Available: 90 * gb, UsedSize: gb}); err != nil {
			return err
		}
	}
	return nil
}

func (e *liveEnv) barrier() bool {
	deadline := time.Now().Add(10 * time.Second)
	for spins := 0; e.hb.MsgLength() != 0; spins++ {
		if time.Now().After(deadline) {
			return false
		}
		if spins < 50 {
			runtime.Gosched()
		} else {
			time.Sleep(20 * time.Microsecond)
		}
	}
	done := make(chan struct{})
	go func() {
		e.hb.BindStream(1, e.stream[1])
		e.hb.BindStream(1, e.stream[1])
		close(done)
	}()
	select {
	case <-done:
		return true
	case <-time.After(10 * time.Second):
		return false
	}
}

// ---------------------------------------------------------------- runner

func runReplay(c ReplayCase) (vkit.Info, error) {
	var info vkit.Info
	e, err := liveSetup()
	if err != nil || e == nil {
		info.Inconclusive = true
		info.Class("fixture-unavailable")
		return info, nil
	}
	if err := e.storeHeartbeats(); err != nil {
		info.Inconclusive = true
		return info, nil
	}
	oc := e.rc.GetOperatorController()
	alloc := func() uint64 { id, _ := e.rc.AllocID(); return id }

	// a fresh region with its own key range
	e.seq++
	spec := simkit.RegionSpec{ID: alloc(), Start: fmt.Sprintf("c09r%08d", e.seq), End: fmt.Sprintf("c09r%08d", e.seq+1),
		Leader: 0, Version: 5, ConfVer: 5, Size: 10, Keys: 10000}
	for i, s := range c.Stores {
		role := simkit.Voter
		if i > 0 && i == c.Learn {
			role = simkit.Learner
		}
		spec.Peers = append(spec.Peers, simkit.PeerSpec{ID: alloc(), Store: s, Role: role})
	}
	sim := simkit.NewRegion(spec, simkit.NewIDAlloc(1<<40))
	e.barrier()
	e.rec.drain()
	defer func() {
		if op := oc.GetOperator(sim.ID); op != nil {
			oc.RemoveOperator(op)
		}
	}()

	var accepted []*simkit.Region // reports the cache accepted, oldest first
	report := func() error {
		if err := e.rc.HandleRegionHeartbeat(sim.ToRegionInfo()); err != nil {
			return fmt.Errorf("the in-order report %s was refused: %v", sim, err)
		}
		accepted = append(accepted, sim.Clone())
		return nil
	}
	if err := report(); err != nil {
		return info, err
	}

	// the request
	ri := sim.ToRegionInfo()
	var voters, free []uint64
	for _, p := range sim.Peers {
		if p.Role == simkit.Voter && p.ID != sim.Leader {
			voters = append(voters, p.Store)
		}
	}
	for id := uint64(1); id <= replayStores; id++ {
		if sim.PeerOnStore(id) == nil {
			free = append(free, id)
		}
	}
	sort.Slice(voters, func(i, j int) bool { return voters[i] < voters[j] })
	var op *operator.Operator
	var berr error
	switch {
	case c.Req == "movePeer" && len(free) > 0:
		old := sim.Peers[mod(c.A, len(sim.Peers))]
		op, berr = operator.CreateMovePeerOperator("c09-replay", e.rc, ri, operator.OpRegion, old.Store,
			&metapb.Peer{StoreId: free[mod(c.B, len(free))], Role: roleOfLearner(old.Role == simkit.Learner)})
	case c.Req == "moveLeader" && len(free) > 0:
		op, berr = operator.CreateMoveLeaderOperator("c09-replay", e.rc, ri, operator.OpRegion, sim.LeaderStore(), &metapb.Peer{StoreId: free[mod(c.B, len(free))]})
	case c.Req == "addPeer" && len(free) > 0:
		op, berr = operator.CreateAddPeerOperator("c09-replay", e.rc, ri, &metapb.Peer{StoreId: free[mod(c.B, len(free))]}, operator.OpReplica)
	case c.Req == "removePeer" && len(sim.Peers) > 1:
		op, berr = operator.CreateRemovePeerOperator("c09-replay", e.rc, operator.OpReplica, ri, sim.Peers[mod(c.A, len(sim.Peers))].Store)
	case c.Req == "transferLeader" && len(voters) > 0:
		op, berr = operator.CreateTransferLeaderOperator("c09-replay", e.rc, ri, sim.LeaderStore(), voters[mod(c.A, len(voters))], operator.OpLeader)
	}
	if op == nil || berr != nil {
		info.Class("no-operator")
		return info, nil
	}
	steps := stepsOf(op)
	plan := describe(steps)
	if !oc.AddOperator(op) {
		info.Class("not-admitted")
		return info, nil
	}
	info.Class("req:" + c.Req)

	// collect: what the stores received since the last call; every command of this region must carry the
	// epoch and leader of the cached region (the newest accepted report; `also`: the one before, for a
	// command created just before the report that is being processed)
	var inbox []*pdpb.RegionHeartbeatResponse
	collect := func(when string, also *simkit.Region) error {
		if !e.barrier() {
			return errInconclusive
		}
		cur := accepted[len(accepted)-1]
		for _, d := range e.rec.drain() {
			m := d.m
			if m.GetRegionId() != sim.ID {
				continue
			}
			ok := func(v *simkit.Region) bool {
				return v != nil && m.GetRegionEpoch().GetConfVer() == v.ConfVer && m.GetRegionEpoch().GetVersion() == v.Version &&
					m.GetTargetPeer().GetId() == v.Leader && d.store == v.LeaderStore()
			}
			if !ok(cur) && !ok(also) {
				return fmt.Errorf("%s: store %d received %v; the cached region is %s: a command must carry the region's current epoch and go to its current leader; plan %s",
					when, d.store, m, cur, plan)
			}
			inbox = append(inbox, m)
		}
		return nil
	}
	fail := func(err error) (vkit.Info, error) {
		if err == errInconclusive {
			info.Inconclusive = true
			return info, nil
		}
		return info, err
	}
	if err := collect("after AddOperator", nil); err != nil {
		return fail(err)
	}

	executed, replays := 0, 0
	for i, st := range c.Script {
		switch st.Kind {
		case "exec", "hb":
			prev := accepted[len(accepted)-1]
			if st.Kind == "exec" && len(inbox) > 0 {
				m := inbox[len(inbox)-1]
				inbox = nil
				if sim.CheckHeader(m) == nil {
					if _, err := sim.ApplyResponse(m); err != nil {
						info.Class("store-refused")
						return info, nil // an unsafe plan is C08's subject
					}
					executed++
				}
			}
			if err := report(); err != nil {
				return info, fmt.Errorf("step %d: %v", i, err)
			}
			if err := collect(fmt.Sprintf("step %d (%s)", i, st.Kind), prev); err != nil {
				return fail(err)
			}
		case "replay":
			cur := accepted[len(accepted)-1]
			var older []*simkit.Region
			for _, a := range accepted {
				if a.ConfVer < cur.ConfVer || a.Version < cur.Version {
					older = append(older, a)
				}
			}
			if len(older) == 0 {
				continue
			}
			old := older[len(older)-1-mod(st.Back, len(older))]
			before := op.Status()
			wasRunning := oc.GetOperator(sim.ID) == op
			for k := 0; k < st.Times; k++ {
				if err := e.rc.HandleRegionHeartbeat(old.ToRegionInfo()); err == nil {
					return info, fmt.Errorf("step %d: the replayed older report %s was accepted although the cached region is %s", i, old, cur)
				}
				replays++
			}
			if got := e.rc.GetRegion(sim.ID); got == nil || got.GetRegionEpoch().GetConfVer() != cur.ConfVer || got.GetRegionEpoch().GetVersion() != cur.Version {
				return info, fmt.Errorf("step %d: after the replayed report %s the cached region is %v, want %s", i, old, got, cur)
			}
			if before == operator.STARTED && wasRunning && (op.Status() != operator.STARTED || oc.GetOperator(sim.ID) != op) {
				return info, fmt.Errorf("step %d: the replayed older report %s (refused by the region cache, cached %s) ended the operator: status %s; the region changed only through the operator's own steps; plan %s",
					i, old, cur, operator.OpStatusToString(op.Status()), plan)
			}
			if err := collect(fmt.Sprintf("step %d (replay of %s)", i, old), nil); err != nil {
				return fail(err)
			}
		}
		if s := op.Status(); s == operator.CANCELED || s == operator.TIMEOUT || s == operator.REPLACED {
			if time.Since(startOf(op)) > 8*time.Second {
				info.Inconclusive = true // a stalled process: the operator timed out on the real clock
				return info, nil
			}
			return info, fmt.Errorf("step %d (%s): operator ended %s although the region %s changed only through its own steps; plan %s",
				i, st.Kind, operator.OpStatusToString(s), sim, plan)
		}
	}
	info.ClassIf(replays > 0, "older-report-replayed")
	info.ClassIf(replays > 0 && executed > 0, "older-report-replayed-after-own-step")
	info.ClassIf(op.Status() == operator.SUCCESS, "operator:success")
	info.NonTrivial = replays > 0 && executed > 0
	return info, nil
}

func startOf(op *operator.Operator) time.Time { return op.GetStartTime() }
