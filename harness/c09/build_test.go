package c09

import (
	"fmt"
	"sort"

	"github.com/pingcap/kvproto/pkg/eraftpb"
	"github.com/pingcap/kvproto/pkg/metapb"
	"github.com/pingcap/kvproto/pkg/pdpb"
	"github.com/tikv/pd/server/core"
	"github.com/tikv/pd/server/schedule/operator"
	"github.com/tikv/pd/server/schedule/placement"
	"pdverif/simkit"
)

// ---------------------------------------------------------------- steps as data

func stepsOf(op *operator.Operator) []operator.OpStep {
	out := make([]operator.OpStep, op.Len())
	for i := range out {
		out[i] = op.Step(i)
	}
	return out
}

// stepStores: every store a step names.
func stepStores(st operator.OpStep, into map[uint64]bool) {
	switch s := st.(type) {
	case operator.TransferLeader:
		into[s.FromStore], into[s.ToStore] = true, true
	case operator.AddPeer:
		into[s.ToStore] = true
	case operator.AddLightPeer:
		into[s.ToStore] = true
	case operator.AddLearner:
		into[s.ToStore] = true
	case operator.AddLightLearner:
		into[s.ToStore] = true
	case operator.PromoteLearner:
		into[s.ToStore] = true
	case operator.DemoteFollower:
		into[s.ToStore] = true
	case operator.RemovePeer:
		into[s.FromStore] = true
	case operator.ChangePeerV2Enter:
		for _, p := range s.PromoteLearners {
			into[p.ToStore] = true
		}
		for _, d := range s.DemoteVoters {
			into[d.ToStore] = true
		}
	case operator.ChangePeerV2Leave:
		for _, p := range s.PromoteLearners {
			into[p.ToStore] = true
		}
		for _, d := range s.DemoteVoters {
			into[d.ToStore] = true
		}
	}
}

// nominalConf: by how much a faithful execution of the step bumps conf_ver
// (TiKV: 1 per simple change, n per joint enter, number of joint peers per leave).
func nominalConf(st operator.OpStep) uint64 {
	switch s := st.(type) {
	case operator.AddPeer, operator.AddLightPeer, operator.AddLearner, operator.AddLightLearner,
		operator.PromoteLearner, operator.DemoteFollower, operator.RemovePeer:
		return 1
	case operator.ChangePeerV2Enter:
		return uint64(len(s.PromoteLearners) + len(s.DemoteVoters))
	case operator.ChangePeerV2Leave:
		return uint64(len(s.PromoteLearners) + len(s.DemoteVoters))
	}
	return 0
}

// vacuous: a step for which pd never sends a command (empty joint enter; empty
// leave on a region that is not joint).
func vacuous(st operator.OpStep, r *simkit.Region) bool {
	switch s := st.(type) {
	case operator.ChangePeerV2Enter:
		return len(s.PromoteLearners)+len(s.DemoteVoters) == 0
	case operator.ChangePeerV2Leave:
		return len(s.PromoteLearners)+len(s.DemoteVoters) == 0 && !r.InJoint()
	}
	return false
}

func isChange(m *pdpb.RegionHeartbeatResponse, typ eraftpb.ConfChangeType, id, store uint64) bool {
	cp := m.GetChangePeer()
	return cp != nil && cp.GetChangeType() == typ && cp.GetPeer().GetId() == id && cp.GetPeer().GetStoreId() == store
}

// matchStep: is m the command pd sends for step st (compared as data)?
func matchStep(m *pdpb.RegionHeartbeatResponse, st operator.OpStep) bool {
	switch s := st.(type) {
	case operator.TransferLeader:
		tl := m.GetTransferLeader()
		return tl != nil && tl.GetPeer().GetStoreId() == s.ToStore
	case operator.AddPeer:
		return isChange(m, eraftpb.ConfChangeType_AddNode, s.PeerID, s.ToStore)
	case operator.AddLightPeer:
		return isChange(m, eraftpb.ConfChangeType_AddNode, s.PeerID, s.ToStore)
	case operator.PromoteLearner:
		return isChange(m, eraftpb.ConfChangeType_AddNode, s.PeerID, s.ToStore)
	case operator.AddLearner:
		return isChange(m, eraftpb.ConfChangeType_AddLearnerNode, s.PeerID, s.ToStore)
	case operator.AddLightLearner:
		return isChange(m, eraftpb.ConfChangeType_AddLearnerNode, s.PeerID, s.ToStore)
	case operator.DemoteFollower:
		return isChange(m, eraftpb.ConfChangeType_AddLearnerNode, s.PeerID, s.ToStore)
	case operator.RemovePeer:
		cp := m.GetChangePeer()
		return cp != nil && cp.GetChangeType() == eraftpb.ConfChangeType_RemoveNode && cp.GetPeer().GetStoreId() == s.FromStore
	case operator.MergeRegion:
		return !s.IsPassive && m.GetMerge() != nil && m.GetMerge().GetTarget().GetId() == s.ToRegion.GetId()
	case operator.SplitRegion:
		return m.GetSplitRegion() != nil
	case operator.ChangePeerV2Enter:
		v2 := m.GetChangePeerV2()
		n := len(s.PromoteLearners) + len(s.DemoteVoters)
		if v2 == nil || n == 0 || len(v2.GetChanges()) != n {
			return false
		}
		i := 0
		for _, p := range s.PromoteLearners {
			ch := v2.GetChanges()[i]
			if ch.GetChangeType() != eraftpb.ConfChangeType_AddNode || ch.GetPeer().GetId() != p.PeerID || ch.GetPeer().GetStoreId() != p.ToStore {
				return false
			}
			i++
		}
		for _, d := range s.DemoteVoters {
			ch := v2.GetChanges()[i]
			if ch.GetChangeType() != eraftpb.ConfChangeType_AddLearnerNode || ch.GetPeer().GetId() != d.PeerID || ch.GetPeer().GetStoreId() != d.ToStore {
				return false
			}
			i++
		}
		return true
	case operator.ChangePeerV2Leave:
		v2 := m.GetChangePeerV2()
		return v2 != nil && m.GetChangePeer() == nil && len(v2.GetChanges()) == 0
	}
	return false
}

func describe(steps []operator.OpStep) string {
	s := "["
	for i, st := range steps {
		if i > 0 {
			s += "; "
		}
		s += fmt.Sprintf("%d:%s", i, st)
	}
	return s + "]"
}

// ---------------------------------------------------------------- resolving a request

type snapshot struct {
	r       *simkit.Region // clone of pd's view
	peers   []simkit.Peer  // by store
	free    []uint64       // cluster stores without a peer of the region
	voters  []simkit.Peer  // plain voters that are not the leader
	learner []simkit.Peer
}

func takeSnapshot(w *world, r *simkit.Region) *snapshot {
	s := &snapshot{r: r}
	s.peers = append(s.peers, r.Peers...)
	sort.Slice(s.peers, func(i, j int) bool { return s.peers[i].Store < s.peers[j].Store })
	for _, id := range w.c.Cluster.StoreIDs() {
		if r.PeerOnStore(id) == nil {
			s.free = append(s.free, id)
		}
	}
	for _, p := range s.peers {
		switch {
		case p.Role == simkit.Learner:
			s.learner = append(s.learner, p)
		case p.Role == simkit.Voter && p.ID != r.Leader:
			s.voters = append(s.voters, p)
		}
	}
	return s
}

func mod(i, n int) int {
	if n <= 0 {
		return 0
	}
	return ((i % n) + n) % n
}

func roleOfLearner(learner bool) metapb.PeerRole {
	if learner {
		return metapb.PeerRole_Learner
	}
	return metapb.PeerRole_Voter
}

// buildOps performs the request against the real code. It returns the built
// operators (two for a merge), whether they come from the hand-made templates,
// and for a merge the partner region.
func (w *world) buildOps(rs *regState, q *BuildReq) (ops []*operator.Operator, partner *regState, err error) {
	s := takeSnapshot(w, rs.view.Clone())
	ri := s.r.ToRegionInfo()
	mc := w.mc
	desc := []string{"c09-a", "c09-b", "c09-c"}[mod(q.C, 3)]
	var kind operator.OpKind
	if q.Prio == "admin" {
		kind |= operator.OpAdmin
	}
	one := func(op *operator.Operator, err error) ([]*operator.Operator, *regState, error) {
		if err != nil || op == nil {
			return nil, nil, err
		}
		return []*operator.Operator{op}, nil, nil
	}
	none := func(why string) ([]*operator.Operator, *regState, error) {
		return nil, nil, fmt.Errorf("not applicable: %s", why)
	}
	switch q.Kind {
	case "transferLeader":
		if len(s.voters) == 0 || s.r.Leader == 0 {
			return none("no transfer target")
		}
		to := s.voters[mod(q.A, len(s.voters))].Store
		return one(operator.CreateTransferLeaderOperator(desc, mc, ri, s.r.LeaderStore(), to, kind|operator.OpLeader))
	case "movePeer":
		if len(s.free) == 0 {
			return none("no free store")
		}
		old := s.peers[mod(q.A, len(s.peers))]
		return one(operator.CreateMovePeerOperator(desc, mc, ri, kind|operator.OpRegion, old.Store,
			&metapb.Peer{StoreId: s.free[mod(q.B, len(s.free))], Role: roleOfLearner(old.Role == simkit.Learner)}))
	case "addPeer":
		if len(s.free) == 0 {
			return none("no free store")
		}
		return one(operator.CreateAddPeerOperator(desc, mc, ri,
			&metapb.Peer{StoreId: s.free[mod(q.B, len(s.free))], Role: roleOfLearner(q.C%3 == 0)}, kind|operator.OpReplica))
	case "removePeer":
		return one(operator.CreateRemovePeerOperator(desc, mc, kind|operator.OpReplica, ri, s.peers[mod(q.A, len(s.peers))].Store))
	case "moveLeader":
		if len(s.free) == 0 || s.r.Leader == 0 {
			return none("no free store / leader")
		}
		return one(operator.CreateMoveLeaderOperator(desc, mc, ri, kind|operator.OpRegion, s.r.LeaderStore(),
			&metapb.Peer{StoreId: s.free[mod(q.B, len(s.free))]}))
	case "promoteLearner":
		if len(s.learner) == 0 {
			return none("no learner")
		}
		return one(operator.CreatePromoteLearnerOperator(desc, mc, ri, &metapb.Peer{StoreId: s.learner[mod(q.A, len(s.learner))].Store}))
	case "leaveJoint":
		return one(operator.CreateLeaveJointStateOperator(desc, mc, ri))
	case "builder":
		target := map[uint64]*metapb.Peer{}
		for i, p := range s.peers {
			learner := p.Role == simkit.Learner || p.Role == simkit.DemotingVoter
			switch q.Mask[mod(i, len(q.Mask))] {
			case 1:
				learner = !learner
			case 2:
				continue
			}
			target[p.Store] = &metapb.Peer{StoreId: p.Store, Role: roleOfLearner(learner)}
		}
		nAdd := mod(q.B, 3)
		for i := 0; i < nAdd && i < len(s.free); i++ {
			st := s.free[mod(q.A+i, len(s.free))]
			if _, dup := target[st]; !dup {
				target[st] = &metapb.Peer{StoreId: st, Role: roleOfLearner(i == 1 && q.C%2 == 0)}
			}
		}
		b := operator.NewBuilder(desc, mc, ri).SetPeers(target)
		if q.C >= 3 {
			var vs []uint64
			for st, p := range target {
				if p.Role == metapb.PeerRole_Voter {
					vs = append(vs, st)
				}
			}
			sort.Slice(vs, func(i, j int) bool { return vs[i] < vs[j] })
			if len(vs) > 0 {
				b.SetLeader(vs[mod(q.A, len(vs))])
			}
		}
		if q.Light {
			b.EnableLightWeight()
		}
		return one(b.Build(kind))
	case "demoteLeader":
		// requested roles derived from the current region: the current leader becomes a learner on its own
		// store, a learner (or a new peer) is named leader (or is the only voter left that may lead), the other
		// voters become followers / stay voters, the other learners stay learners
		if s.r.Leader == 0 {
			return none("no leader")
		}
		roles := map[uint64]placement.PeerRoleType{}
		other := placement.Follower
		if q.B%3 == 0 {
			other = placement.Voter
		}
		for _, p := range s.peers {
			switch {
			case p.ID == s.r.Leader:
				roles[p.Store] = placement.Learner
			case p.Role == simkit.Learner:
				roles[p.Store] = placement.Learner
			default:
				roles[p.Store] = other
			}
		}
		var newLeader uint64
		if len(s.learner) > 0 && (q.A%2 == 0 || len(s.free) == 0) {
			newLeader = s.learner[mod(q.A/2, len(s.learner))].Store
		} else if len(s.free) > 0 {
			newLeader = s.free[mod(q.A/2, len(s.free))]
		} else {
			return none("nobody to promote")
		}
		roles[newLeader] = placement.Leader
		if q.C%4 == 0 {
			roles[newLeader] = placement.Voter // not named: the followers leave it as the only candidate
		}
		return one(operator.CreateMoveRegionOperator(desc, mc, ri, kind|operator.OpRegion, roles))
	case "split":
		keys := [][]byte{[]byte(s.r.StartKey + "\x01")}
		policy := pdpb.CheckPolicy_USEKEY
		if q.A%2 == 0 {
			keys, policy = nil, pdpb.CheckPolicy_APPROXIMATE
		}
		return one(operator.CreateSplitRegionOperator(desc, ri, kind, policy, keys))
	case "merge":
		// an adjacent region pd knows
		var cand []*regState
		for _, o := range w.regs {
			if o != rs && o.view != nil && !o.sim.Merged &&
				((o.view.StartKey == s.r.EndKey && s.r.EndKey != "") || (o.view.EndKey == s.r.StartKey && s.r.StartKey != "")) {
				cand = append(cand, o)
			}
		}
		if len(cand) == 0 {
			return none("no adjacent region")
		}
		tgt := cand[mod(q.A, len(cand))]
		ops, err := operator.CreateMergeRegionOperator(desc, mc, ri, tgt.view.ToRegionInfo(), kind|operator.OpMerge)
		if err != nil || len(ops) != 2 {
			return nil, nil, err
		}
		return ops, tgt, nil
	case "handmade":
		steps, k := w.template(s, q)
		if len(steps) == 0 {
			return none("template does not apply")
		}
		// only step lists a faithful store can execute from here (as a scheduler would produce)
		dry := s.r.Clone()
		for i, st := range steps {
			if e := dry.ApplyStep(st); e != nil {
				return none(fmt.Sprintf("template step %d refused: %v", i, e))
			}
		}
		return one(operator.NewOperator(desc, fmt.Sprintf("handmade template %d", q.Tmpl), s.r.ID, ri.GetRegionEpoch(), kind|k, steps...), nil)
	}
	return nil, nil, fmt.Errorf("unknown request kind %q", q.Kind)
}

// template builds a hand-made step list (the way schedulers did before the
// builder existed) from the snapshot; together the templates contain every step
// kind. New peer ids come from the cluster's allocator, as AllocPeer does.
func (w *world) template(s *snapshot, q *BuildReq) ([]operator.OpStep, operator.OpKind) {
	if s.r.Leader == 0 || s.r.InJoint() {
		return nil, 0
	}
	leader := *s.r.LeaderPeer()
	newID := func() uint64 { id, _ := w.mc.AllocID(); return id }
	var free uint64
	if len(s.free) > 0 {
		free = s.free[mod(q.B, len(s.free))]
	}
	var fol, fol2 simkit.Peer
	if len(s.voters) > 0 {
		fol = s.voters[mod(q.A, len(s.voters))]
	}
	if len(s.voters) > 1 {
		fol2 = s.voters[mod(q.A+1, len(s.voters))]
	}
	joint := w.c.Cluster.JointSupported && w.c.Cluster.UseJoint
	switch q.Tmpl {
	case 0: // classic replace of a follower
		if free == 0 || fol.ID == 0 {
			return nil, 0
		}
		return []operator.OpStep{operator.AddPeer{ToStore: free, PeerID: newID()}, operator.RemovePeer{FromStore: fol.Store, PeerID: fol.ID}}, operator.OpRegion
	case 1: // move the leader through learner, promote, transfer, remove
		if free == 0 {
			return nil, 0
		}
		id := newID()
		return []operator.OpStep{operator.AddLearner{ToStore: free, PeerID: id}, operator.PromoteLearner{ToStore: free, PeerID: id},
			operator.TransferLeader{FromStore: leader.Store, ToStore: free}, operator.RemovePeer{FromStore: leader.Store, PeerID: leader.ID}}, operator.OpRegion | operator.OpLeader
	case 2: // joint swap of a follower
		if free == 0 || fol.ID == 0 || !joint {
			return nil, 0
		}
		id := newID()
		pl := []operator.PromoteLearner{{ToStore: free, PeerID: id}}
		dv := []operator.DemoteVoter{{ToStore: fol.Store, PeerID: fol.ID}}
		return []operator.OpStep{operator.AddLightLearner{ToStore: free, PeerID: id},
			operator.ChangePeerV2Enter{PromoteLearners: pl, DemoteVoters: dv}, operator.ChangePeerV2Leave{PromoteLearners: pl, DemoteVoters: dv},
			operator.RemovePeer{FromStore: fol.Store, PeerID: fol.ID}}, operator.OpRegion
	case 3: // light add
		if free == 0 {
			return nil, 0
		}
		return []operator.OpStep{operator.AddLightPeer{ToStore: free, PeerID: newID()}}, operator.OpRegion
	case 4: // simple demote, then remove
		if fol.ID == 0 || len(s.voters) < 2 || !w.c.Cluster.JointSupported {
			return nil, 0
		}
		return []operator.OpStep{operator.DemoteFollower{ToStore: fol.Store, PeerID: fol.ID}, operator.RemovePeer{FromStore: fol.Store, PeerID: fol.ID}}, operator.OpRegion
	case 5: // joint move of the leader: the leader is demoted inside the joint state
		if free == 0 || !joint {
			return nil, 0
		}
		id := newID()
		pl := []operator.PromoteLearner{{ToStore: free, PeerID: id}}
		dv := []operator.DemoteVoter{{ToStore: leader.Store, PeerID: leader.ID}}
		return []operator.OpStep{operator.AddLearner{ToStore: free, PeerID: id},
			operator.ChangePeerV2Enter{PromoteLearners: pl, DemoteVoters: dv}, operator.TransferLeader{FromStore: leader.Store, ToStore: free},
			operator.ChangePeerV2Leave{PromoteLearners: pl, DemoteVoters: dv}, operator.RemovePeer{FromStore: leader.Store, PeerID: leader.ID}}, operator.OpRegion | operator.OpLeader
	case 6: // split
		return []operator.OpStep{operator.SplitRegion{StartKey: []byte(s.r.StartKey), EndKey: []byte(s.r.EndKey),
			Policy: pdpb.CheckPolicy_USEKEY, SplitKeys: [][]byte{[]byte(s.r.StartKey + "\x01")}}}, operator.OpSplit
	case 7: // joint demotion of two followers, then both removed
		if fol.ID == 0 || fol2.ID == 0 || fol.ID == fol2.ID || len(s.voters) < 2 || !joint {
			return nil, 0
		}
		dv := []operator.DemoteVoter{{ToStore: fol.Store, PeerID: fol.ID}, {ToStore: fol2.Store, PeerID: fol2.ID}}
		return []operator.OpStep{operator.ChangePeerV2Enter{DemoteVoters: dv}, operator.ChangePeerV2Leave{DemoteVoters: dv},
			operator.RemovePeer{FromStore: fol.Store, PeerID: fol.ID}, operator.RemovePeer{FromStore: fol2.Store, PeerID: fol2.ID}}, operator.OpRegion
	case 8: // transfer, then remove the old leader
		if fol.ID == 0 {
			return nil, 0
		}
		return []operator.OpStep{operator.TransferLeader{FromStore: leader.Store, ToStore: fol.Store},
			operator.RemovePeer{FromStore: leader.Store, PeerID: leader.ID}}, operator.OpRegion | operator.OpLeader
	}
	return nil, 0
}

func priorityOf(q *BuildReq) core.PriorityLevel {
	switch q.Prio {
	case "admin", "high":
		return core.HighPriority
	case "low":
		return core.LowPriority
	}
	return core.NormalPriority
}
