package c09

import (
	"context"
	"fmt"
	"strings"
	"testing"

	"github.com/tikv/pd/server/schedule"
	"github.com/tikv/pd/server/schedule/hbstream"
	"github.com/tikv/pd/server/schedule/operator"
	"pdverif/simkit"
	"pdverif/vkit"
)

func upStores(n uint64) []simkit.StoreSpec {
	var out []simkit.StoreSpec
	for i := uint64(1); i <= n; i++ {
		out = append(out, simkit.StoreSpec{ID: i, State: simkit.StateUp, UsedRatio: 0.05, AvailableRatio: 0.95})
	}
	return out
}

// TestFinding_leave_confver_uses_peerid_as_storeid reproduces the two
// manifestations of ChangePeerV2Leave.ConfVerChanged looking up
// region.GetStorePeer(dv.PeerID) (a peer id where a store id is meant).
//
// (b) peer ids that collide with store ids (pd's own mock-cluster style), no
// foreign event at all: region {peer 1@store 1 leader, peer 2@store 3, peer
// 3@store 2}, operator "enter joint {demote 3@2, demote 2@3}; leave; remove
// peer on 2; remove peer on 3", every command executed by the faithful store.
// After "remove peer on store 2" the lookup GetStorePeer(3) hits the unrelated
// peer 2 on store 3, the Leave step is counted as 0 and the operator is
// cancelled as stale although only its own steps ran. Run through the ordinary
// runner in strict mode (nothing excluded).
//
// (a) globally unique ids: region {101@1, 102@2 learner, 103@3, 104@4 leader},
// operator "transfer leader 4->3; enter joint {demote 101@1, demote 104@4};
// leave; remove 1; remove 4"; after the Enter a heartbeat reports one more
// conf change than the operator's steps explain (a learner on store 5; conf_ver
// +3 where the executed steps account for 2). GetStorePeer(101) finds nothing,
// the two pending demotions are counted as done (accounted 4 >= 3) and the
// operator keeps running. A raft-faithful store cannot produce this heartbeat
// (no conf change other than Leave is possible inside a joint state), so this
// manifestation is shown directly and is not part of the generated histories.
func TestFinding_leave_confver_uses_peerid_as_storeid(t *testing.T) {
	// ---- (b)
	c := Case{Seed: 1, Collide: true}
	c.Cluster = simkit.ClusterSpec{Stores: upStores(3), MaxReplicas: 3, JointSupported: true, UseJoint: true, AllocBase: 2000}
	c.Regions = []simkit.RegionSpec{{ID: 100, Leader: 0, Version: 1, ConfVer: 1, Size: 10, Peers: []simkit.PeerSpec{
		{ID: 1, Store: 1, Role: simkit.Voter}, {ID: 2, Store: 3, Role: simkit.Voter}, {ID: 3, Store: 2, Role: simkit.Voter}}}}
	c.Ops = []Op{{Kind: "build", Req: &BuildReq{Kind: "handmade", Tmpl: 7}}, {Kind: "add"}, {Kind: "exec"}, {Kind: "exec"}, {Kind: "exec"}}
	var info vkit.Info
	err := runWith(&c, &info, true)
	b := err != nil && strings.Contains(err.Error(), "was cancelled by the heartbeat although the region") &&
		strings.Contains(err.Error(), "leave joint state")
	detailB := "(b) colliding ids: operator ran to the end without a false stale"
	if err != nil {
		detailB = "(b) colliding ids: " + err.Error()
	}

	// ---- (a)
	a, detailA := probeUniqueIDs()

	vkit.Finding(t, keyLeave, a || b, detailB+" || "+detailA)
	if err != nil && !b {
		t.Logf("probe (b) fails differently: %v", err)
	}
}

func probeUniqueIDs() (bool, string) {
	ctx, cancel := context.WithCancel(context.Background())
	defer cancel()
	spec := simkit.ClusterSpec{Stores: upStores(5), MaxReplicas: 3, JointSupported: true, UseJoint: true, AllocBase: 2000}
	mc, stop := simkit.Build(ctx, spec)
	defer stop()
	hb := hbstream.NewTestHeartbeatStreams(ctx, mc.ID, mc, true)
	defer hb.Close()
	oc := schedule.NewOperatorController(ctx, mc, hb)
	sim := simkit.NewRegion(simkit.RegionSpec{ID: 100, Leader: 3, Version: 1, ConfVer: 1, Size: 10, Peers: []simkit.PeerSpec{
		{ID: 101, Store: 1, Role: simkit.Voter}, {ID: 102, Store: 2, Role: simkit.Learner},
		{ID: 103, Store: 3, Role: simkit.Voter}, {ID: 104, Store: 4, Role: simkit.Voter}}}, nil)
	ri := sim.ToRegionInfo()
	mc.PutRegion(ri)
	dv := []operator.DemoteVoter{{ToStore: 1, PeerID: 101}, {ToStore: 4, PeerID: 104}}
	steps := []operator.OpStep{operator.TransferLeader{FromStore: 4, ToStore: 3}, operator.ChangePeerV2Enter{DemoteVoters: dv},
		operator.ChangePeerV2Leave{DemoteVoters: dv}, operator.RemovePeer{FromStore: 1, PeerID: 101}, operator.RemovePeer{FromStore: 4, PeerID: 104}}
	op := operator.NewOperator("probe", "probe", 100, ri.GetRegionEpoch(), operator.OpRegion|operator.OpLeader, steps...)
	if !oc.AddOperator(op) {
		return false, "(a) unique ids: operator not admitted"
	}
	hbeat := func() {
		ri := sim.ToRegionInfo()
		mc.PutRegion(ri)
		oc.Dispatch(ri, schedule.DispatchFromHeartBeat)
	}
	for _, st := range steps[:2] { // own: transfer, enter joint (conf_ver +2)
		if err := sim.ApplyStep(st); err != nil {
			return false, "(a) unique ids: " + err.Error()
		}
		hbeat()
	}
	if op.Status() != operator.STARTED {
		return false, "(a) unique ids: operator ended before the foreign change: " + operator.OpStatusToString(op.Status())
	}
	// one more conf change than the operator's steps explain (not a state a raft-faithful store reaches)
	sim.Peers = append(sim.Peers, simkit.Peer{ID: 9001, Store: 5, Role: simkit.Learner})
	sim.ConfVer++
	hbeat()
	accounted := op.ConfVerChanged(sim.ToRegionInfo())
	still := op.Status() == operator.STARTED && oc.GetOperator(100) == op
	return still, fmt.Sprintf("(a) unique ids: region %s, conf_ver +3 since the operator's snapshot of which its executed steps caused 2; "+
		"Operator.ConfVerChanged claims %d; operator status after the heartbeat: %s", sim, accounted, operator.OpStatusToString(op.Status()))
}
