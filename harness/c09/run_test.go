package c09

import (
	"context"
	"errors"
	"fmt"
	"math/rand"
	"runtime"
	"sync"
	"sync/atomic"
	"time"

	"github.com/gogo/protobuf/proto"
	"github.com/pingcap/kvproto/pkg/eraftpb"
	"github.com/pingcap/kvproto/pkg/metapb"
	"github.com/pingcap/kvproto/pkg/pdpb"
	"github.com/tikv/pd/pkg/mock/mockcluster"
	"github.com/tikv/pd/server/core"
	"github.com/tikv/pd/server/core/storelimit"
	"github.com/tikv/pd/server/schedule"
	"github.com/tikv/pd/server/schedule/hbstream"
	"github.com/tikv/pd/server/schedule/operator"
	"pdverif/simkit"
	"pdverif/vkit"
)

var errInconclusive = errors.New("inconclusive")

// ---------------------------------------------------------------- recording streams

type delivered struct {
	store uint64
	m     *pdpb.RegionHeartbeatResponse // what was on the wire: a copy taken inside Send
	obj   *pdpb.RegionHeartbeatResponse // the object that was handed to Send
}

// recorder keeps what the stream goroutine handed to Send, in order.
type recorder struct {
	mu   sync.Mutex
	msgs []delivered
	gate atomic.Value // chan struct{}: while set, the stream loop is held inside the Send of an error message
}

type recStream struct {
	rec   *recorder
	store uint64
}

func (s *recStream) Send(m *pdpb.RegionHeartbeatResponse) error {
	if m.GetHeader().GetError() != nil {
		// the harness' own marker message (SendErr): a store stream that does not return from Send for a
		// while (back-pressure); the single stream loop is stuck here and later commands queue up in msgCh
		if g, _ := s.rec.gate.Load().(chan struct{}); g != nil {
			<-g
		}
		return nil
	}
	c := proto.Clone(m).(*pdpb.RegionHeartbeatResponse)
	s.rec.mu.Lock()
	s.rec.msgs = append(s.rec.msgs, delivered{s.store, c, m})
	s.rec.mu.Unlock()
	return nil
}

func (r *recorder) drain() []delivered {
	r.mu.Lock()
	defer r.mu.Unlock()
	out := r.msgs
	r.msgs = nil
	return out
}

// ---------------------------------------------------------------- state

type epoch struct{ ver, conf uint64 }

func epochOf(r *simkit.Region) epoch { return epoch{r.Version, r.ConfVer} }

// entry is one change of a region on the store, in store order.
type entry struct {
	op     int      // operator whose executed command caused it, -1 = somebody else
	conf   uint64   // conf_ver delta
	stores []uint64 // stores whose peer changed
	kind   string   // conf | leader | range
}

type inMsg struct {
	m    *pdpb.RegionHeartbeatResponse
	op   *opRec
	step int // index of the step it is the command of (-1 = none)
}

type regState struct {
	sim      *simkit.Region // truth on the store
	view     *simkit.Region // what pd heard at the last heartbeat (nil = never)
	viewLen  int            // ledger length at that heartbeat
	prevView *simkit.Region // the view when the current event began (an event may heartbeat several regions one after the other)
	ledger   []entry
	inbox    []inMsg
	children []*regState // split off, not yet heartbeated
	parent   *regState
}

type opRec struct {
	idx           int
	op            *operator.Operator
	rs            *regState
	ep            epoch // epoch of the snapshot it was built from
	pos           int   // ledger length at that snapshot
	prio          core.PriorityLevel
	kind          string
	steps         []operator.OpStep
	shared        []operator.OpStep // the operator's own step slice (same backing array)
	stores        map[uint64]bool
	executed      []bool
	seen          []bool // executed, as of the last heartbeat of the region
	submitted     bool
	last          operator.OpStatus
	running       bool
	created       time.Time // virtual time of construction
	started       time.Time // virtual time of the event in which it was started
	burialPending bool      // reached an end status outside the controller (observer) while waiting; not buried yet
	unsound       bool      // a faithful store refused one of its commands although nothing foreign happened (C08 matter)
	ambiguous     bool      // a foreign change hit between an executed step and the heartbeat that reports it
	unseen        bool
}

// next: pd's current step as far as the store can tell - the first step after
// the last one the store executed (pd only sends the command of its current
// step, so it is past everything before an executed step) that was neither
// executed nor is vacuous.
func (o *opRec) next(r *simkit.Region) int { return nextOf(o.steps, o.executed, r) }

// nextSeen: the same, as far as pd can tell from the last heartbeat (steps the
// store executed since then are not known to pd yet; a push re-sends their command).
func (o *opRec) nextSeen(view *simkit.Region) int { return nextOf(o.steps, o.seen, view) }

func nextOf(steps []operator.OpStep, executed []bool, r *simkit.Region) int {
	o := struct {
		steps    []operator.OpStep
		executed []bool
	}{steps, executed}
	i := 0
	for k, done := range o.executed {
		if done {
			i = k + 1
		}
	}
	for i < len(o.steps) && (o.executed[i] || vacuous(o.steps[i], r)) {
		i++
	}
	return i
}

func (o *opRec) String() string {
	return fmt.Sprintf("op#%d(%s r%d built@v%dc%d %s status=%s)", o.idx, o.kind, o.rs.sim.ID, o.ep.ver, o.ep.conf,
		describe(o.steps), operator.OpStatusToString(o.op.Status()))
}

type world struct {
	c      *Case
	info   *vkit.Info
	strict bool
	ctx    context.Context
	cancel context.CancelFunc
	mcStop context.CancelFunc
	mc     *mockcluster.Cluster
	oc     *schedule.OperatorController
	hb     *hbstream.HeartbeatStreams
	rec    *recorder
	stream map[uint64]*recStream
	ids    *simkit.IDAlloc
	regs   []*regState
	byID   map[uint64]*regState
	ops    []*opRec
	byOp   map[*operator.Operator]*opRec
	pool   [][]*opRec
	start  time.Time
	step   int
	vclock int64 // virtual time, unix nanoseconds

	raceTimeout bool

	nonTrivial bool
	classes    map[string]bool
	excluded   bool
}

// event context for the checks that follow an event
type evCtx struct {
	kind    string
	rs      *regState
	removed *opRec
	raced   *opRec // the operator whose finished step was checked concurrently in this event
	looked  *opRec // the operator an outside reader looked at in this event
	judges  []*judge
	msgs    map[*regState][]inMsg
}

func (w *world) class(c string) { w.classes[c] = true }

func (w *world) errf(format string, a ...interface{}) error {
	return fmt.Errorf("event %d (%s): %s", w.step, w.c.Ops[w.step].Kind, fmt.Sprintf(format, a...))
}

func newWorld(c *Case, info *vkit.Info, strict bool) *world {
	w := &world{c: c, info: info, strict: strict, byID: map[uint64]*regState{}, byOp: map[*operator.Operator]*opRec{},
		classes: map[string]bool{}, stream: map[uint64]*recStream{}, rec: &recorder{}, start: time.Now()}
	rand.Seed(c.Seed) // waiting operators are promoted from buckets picked with math/rand
	// virtual clock for everything timed in the controller and the operators (expire, timeout, push intervals);
	// it only moves in "clock" events. The record TTL cache (pkg/cache) keeps the real clock: records never expire in a case.
	atomic.StoreInt64(&w.vclock, time.Date(2030, 1, 1, 0, 0, 0, 0, time.UTC).UnixNano())
	operator.SetVerifClock(w.now, nil)
	schedule.SetVerifClock(w.now, nil)
	w.ctx, w.cancel = context.WithCancel(context.Background())
	w.mc, w.mcStop = simkit.Build(w.ctx, c.Cluster)
	for _, id := range c.Cluster.StoreIDs() {
		// store limits are a token bucket over wall-clock time: switch them off so that admission is a function of the case
		w.mc.SetStoreLimit(id, storelimit.AddPeer, storelimit.Unlimited*60)
		w.mc.SetStoreLimit(id, storelimit.RemovePeer, storelimit.Unlimited*60)
	}
	w.hb = hbstream.NewTestHeartbeatStreams(w.ctx, w.mc.ID, w.mc, true /* needRun */)
	for _, id := range c.Cluster.StoreIDs() {
		s := &recStream{rec: w.rec, store: id}
		w.stream[id] = s
		w.hb.BindStream(id, s)
	}
	w.oc = schedule.NewOperatorController(w.ctx, w.mc, w.hb)
	w.ids = simkit.NewIDAlloc(c.Cluster.AllocBase + 100000)
	for _, spec := range c.Regions {
		rs := &regState{sim: simkit.NewRegion(spec, w.ids)}
		rs.view = rs.sim.Clone()
		w.mc.PutRegion(rs.sim.ToRegionInfo())
		w.regs = append(w.regs, rs)
		w.byID[rs.sim.ID] = rs
	}
	return w
}

func (w *world) close() {
	w.hb.Close()
	w.mcStop()
	w.cancel()
	operator.SetVerifClock(nil, nil)
	schedule.SetVerifClock(nil, nil)
}

func (w *world) now() time.Time { return time.Unix(0, atomic.LoadInt64(&w.vclock)) }

// waitTime: how long an operator may run (operator.go: SlowOperatorWaitTime for operators marked OpRegion, else FastOperatorWaitTime).
func waitTime(o *opRec) time.Duration {
	if o.op.Kind()&operator.OpRegion != 0 {
		return operator.SlowOperatorWaitTime
	}
	return operator.FastOperatorWaitTime
}

// overdue: a STARTED operator that has been running for its wait time or longer.
func (w *world) overdue(o *opRec) bool {
	return !o.started.IsZero() && w.now().Sub(o.started) >= waitTime(o)
}

// barrier: every message handed to SendMsg so far has been passed to a stream's
// Send. msgCh is drained by a single select loop; once it is empty the loop is
// either idle or still inside the last Send. streamCh has capacity 1: the first
// BindStream fills the buffer, the second is accepted only after the loop took
// the first one, i.e. after it returned from that last Send.
func (w *world) barrier() bool {
	deadline := time.Now().Add(10 * time.Second)
	for spins := 0; w.hb.MsgLength() != 0; spins++ {
		if time.Now().After(deadline) {
			return false
		}
		if spins < 50 {
			runtime.Gosched()
		} else {
			time.Sleep(20 * time.Microsecond)
		}
	}
	id := w.c.Cluster.Stores[0].ID
	done := make(chan struct{})
	go func() {
		w.hb.BindStream(id, w.stream[id])
		w.hb.BindStream(id, w.stream[id])
		close(done)
	}()
	select {
	case <-done:
		return true
	case <-time.After(10 * time.Second):
		return false
	}
}

func (w *world) runningRec(rs *regState) *opRec {
	if op := w.oc.GetOperator(rs.sim.ID); op != nil {
		return w.byOp[op]
	}
	return nil
}

// foreignSince: did anything happen to the region, since the snapshot the
// operator was built from, that is not the execution of one of its own commands?
func (o *opRec) foreignSince() bool {
	for _, e := range o.rs.ledger[o.pos:] {
		if e.op != o.idx {
			return true
		}
	}
	return false
}

func (w *world) appendEntry(rs *regState, e entry) {
	rs.ledger = append(rs.ledger, e)
	for _, o := range w.ops {
		if o.rs == rs && o.unseen && e.op != o.idx {
			o.ambiguous = true
		}
	}
}

// ---------------------------------------------------------------- run

func runCase(c Case) (vkit.Info, error) {
	var info vkit.Info
	err := runWith(&c, &info, !leaveKnown())
	if errors.Is(err, errInconclusive) {
		info.Inconclusive = true
		return info, nil
	}
	return info, err
}

func runWith(c *Case, info *vkit.Info, strict bool) error {
	w := newWorld(c, info, strict)
	defer w.close()
	var err error
	for i := range c.Ops {
		w.step = i
		if err = w.event(c.Ops[i]); err != nil {
			break
		}
	}
	info.NonTrivial = w.nonTrivial && !w.excluded
	if c.Collide {
		w.class("ids:collide-with-stores")
	} else {
		w.class("ids:unique")
	}
	for _, k := range sortedKeys(w.classes) {
		info.Class(k)
	}
	if w.excluded {
		info.Exclude(keyLeave)
	}
	return err
}

func sortedKeys(m map[string]bool) []string {
	var out []string
	for k := range m {
		out = append(out, k)
	}
	for i := range out {
		for j := i + 1; j < len(out); j++ {
			if out[j] < out[i] {
				out[i], out[j] = out[j], out[i]
			}
		}
	}
	return out
}

func (w *world) event(op Op) error {
	rs := w.regs[mod(op.R, len(w.regs))]
	ev := &evCtx{kind: op.Kind, rs: rs}
	for _, r := range w.regs {
		r.prevView = r.view
	}
	var err error
	switch op.Kind {
	case "build":
		err = w.evBuild(rs, op.Req)
	case "add":
		err = w.evAdd(ev, op)
	case "remove":
		err = w.evRemove(ev, rs, op.Which)
	case "exec":
		w.evExec(ev, rs, op.NoHB, op.Race)
	case "hb":
		w.heartbeat(ev, rs)
	case "hbs":
		w.evHeartbeats(ev)
	case "lose":
		if len(rs.inbox) > 0 {
			w.class("event:commands-lost")
		}
		rs.inbox = nil
	case "push":
		w.class("event:push")
		w.oc.PushOperators()
	case "clock":
		d := clockSteps[mod(op.D, len(clockSteps))]
		atomic.AddInt64(&w.vclock, int64(d))
		w.class("event:clock+" + d.String())
	case "influence":
		err = w.evInfluence()
	case "observer":
		w.evObserver(ev, rs, op.Which, op.N)
	case "foreign":
		w.evForeign(rs, op.F)
	default:
		return fmt.Errorf("unknown event %q", op.Kind)
	}
	if err != nil {
		return err
	}
	if err := w.collect(ev); err != nil {
		return err
	}
	if err := w.sweep(ev); err != nil {
		return err
	}
	return w.postJudge(ev)
}

// unsafePlansKnown: while C08's finding about plans that add a peer on a still occupied store is listed as
// known, operators whose plan a faithful store cannot execute are not judged for staleness. Once it is fixed
// nothing is exempt: a plan that gets its operator cancelled (or stuck) through its own steps is reported.
func unsafePlansKnown() bool { return vkit.Known("C08/nojoint-inplace-demote") }

// ---------------------------------------------------------------- build / add / remove

func (w *world) evBuild(rs *regState, q *BuildReq) error {
	if rs.view == nil || rs.sim.Merged || w.mc.GetRegion(rs.sim.ID) == nil {
		return nil
	}
	ops, partner, err := w.buildOps(rs, q)
	if err != nil || len(ops) == 0 {
		w.class("build:no-operator")
		return nil
	}
	var bundle []*opRec
	for i, built := range ops {
		// the same plan (steps, kind, epoch, priority) as an operator whose step slice the harness keeps a
		// handle on: the concurrent round wraps an already finished step in a rendezvous (see raceRound)
		shared := stepsOf(built)
		op := operator.NewOperator(built.Desc(), "c09 "+q.Kind, built.RegionID(), built.RegionEpoch(), built.Kind(), shared...)
		op.SetPriorityLevel(built.GetPriorityLevel())
		r := rs
		if i == 1 {
			r = partner
		}
		// pos: the view may lag behind the store; everything after the view's heartbeat is "after the snapshot"
		o := &opRec{idx: len(w.ops), op: op, rs: r, ep: epochOf(r.view), pos: r.viewLen, kind: q.Kind,
			steps: stepsOf(op), shared: shared, stores: map[uint64]bool{}, last: operator.CREATED, created: w.now()}
		if !op.GetCreateTime().Equal(o.created) {
			return w.errf("%s: create time %v, the clock says %v", o, op.GetCreateTime(), o.created)
		}
		o.executed = make([]bool, len(o.steps))
		o.seen = make([]bool, len(o.steps))
		for _, st := range o.steps {
			stepStores(st, o.stores)
		}
		switch q.Prio {
		case "high", "admin": // admin: kind OpAdmin where the helper takes a kind; the level is set as the admin API does
			op.SetPriorityLevel(core.HighPriority)
		case "low":
			op.SetPriorityLevel(core.LowPriority)
		}
		o.prio = priorityOf(q)
		// a plan that a faithful store cannot execute from the snapshot it was built from is C08's
		// subject (two known findings there); C09 does not judge staleness of such an operator
		dry := r.view.Clone()
		for _, st := range o.steps {
			if e := dry.ApplyStep(st); e != nil && unsafePlansKnown() {
				o.unsound = true
				w.class("operator:unsafe-plan")
				break
			}
		}
		if op.GetPriorityLevel() != o.prio {
			return w.errf("%s: priority level %d, the request (%q) means %d", o, op.GetPriorityLevel(), q.Prio, o.prio)
		}
		if e := op.RegionEpoch(); e.GetVersion() != o.ep.ver || e.GetConfVer() != o.ep.conf || op.RegionID() != r.sim.ID {
			return w.errf("%s records region %d epoch v%dc%d, it was built from region %d at v%dc%d",
				o, op.RegionID(), e.GetVersion(), e.GetConfVer(), r.sim.ID, o.ep.ver, o.ep.conf)
		}
		if op.Status() != operator.CREATED {
			return w.errf("%s is not CREATED after construction", o)
		}
		w.ops = append(w.ops, o)
		w.byOp[op] = o
		bundle = append(bundle, o)
		for _, st := range o.steps {
			w.class(fmt.Sprintf("step:%T", st)[len("step:operator."):])
		}
	}
	w.pool = append(w.pool, bundle)
	w.class("build:" + q.Kind)
	return nil
}

func (w *world) mismatch(o *opRec) bool {
	return o.rs.view == nil || w.mc.GetRegion(o.rs.sim.ID) == nil || epochOf(o.rs.view) != o.ep
}

func (w *world) evAdd(ev *evCtx, op Op) error {
	if len(w.pool) == 0 {
		return nil
	}
	n := 1
	if op.Mode == "waiting" && op.N > 1 {
		n = op.N
	}
	var bundles [][]*opRec
	for k := 0; k < n && len(w.pool) > 0; k++ {
		i := len(w.pool) - 1 - mod(op.Which, len(w.pool))
		bundles = append(bundles, w.pool[i])
		w.pool = append(w.pool[:i], w.pool[i+1:]...)
	}
	var flat []*operator.Operator
	var recs []*opRec
	mism := map[*opRec]bool{}
	for _, b := range bundles {
		for _, o := range b {
			flat = append(flat, o.op)
			recs = append(recs, o)
			o.submitted = true
			mism[o] = w.mismatch(o)
			if mism[o] {
				w.class("add:stale-epoch")
			}
		}
	}
	if op.Mode == "waiting" {
		w.class("event:add-waiting")
		added := w.oc.AddWaitingOperator(flat...)
		if added < 0 || added > len(flat) {
			return w.errf("AddWaitingOperator returned %d for %d operators", added, len(flat))
		}
		waiting := map[*operator.Operator]bool{}
		for _, x := range w.oc.GetWaitingOperators() {
			waiting[x] = true
		}
		for i, o := range recs {
			st := o.op.Status()
			if mism[o] && (st == operator.STARTED || st == operator.SUCCESS) {
				return w.errf("%s was started although its epoch differs from pd's view %s", o, viewStr(o.rs))
			}
			if i == 0 && mism[o] && st != operator.CANCELED {
				return w.errf("%s: epoch differs from pd's view %s, AddWaitingOperator must refuse and cancel it", o, viewStr(o.rs))
			}
			if st == operator.CREATED && !waiting[o.op] && i < added {
				return w.errf("%s counted as added (%d) but is neither waiting nor started nor ended", o, added)
			}
		}
		return nil
	}
	w.class("event:add")
	ok := w.oc.AddOperator(flat...)
	any := false
	for _, o := range recs {
		any = any || mism[o]
	}
	if any && ok {
		return w.errf("AddOperator admitted %v although the epoch differs from pd's view (%s)", recs, viewStr(recs[0].rs))
	}
	for _, o := range recs {
		st := o.op.Status()
		if ok {
			if st != operator.STARTED && st != operator.SUCCESS {
				return w.errf("AddOperator returned true, %s is not started", o)
			}
			if w.runningRec(o.rs) != o {
				return w.errf("AddOperator returned true, %s is not the running operator of its region", o)
			}
			if e := o.op.RegionEpoch(); e.GetVersion() != o.rs.view.Version || e.GetConfVer() != o.rs.view.ConfVer {
				return w.errf("AddOperator returned true, %s records epoch v%dc%d, pd's view is %s", o, e.GetVersion(), e.GetConfVer(), viewStr(o.rs))
			}
			w.class("add:admitted")
		} else {
			if st != operator.CANCELED && !(st == operator.EXPIRED) {
				return w.errf("AddOperator returned false, %s must end CANCELED", o)
			}
			if w.runningRec(o.rs) == o {
				return w.errf("AddOperator returned false, %s is in the running set", o)
			}
			w.class("add:refused")
		}
	}
	return nil
}

func viewStr(rs *regState) string {
	if rs.view == nil {
		return "<unknown to pd>"
	}
	return rs.view.String()
}

func (w *world) evRemove(ev *evCtx, rs *regState, which int) error {
	if which == 1 {
		// an operator that already ended: nothing may change
		var ended *opRec
		for _, o := range w.ops {
			if o.rs == rs && o.submitted && operator.IsEndStatus(o.op.Status()) && w.runningRec(rs) != o {
				ended = o
			}
		}
		if ended == nil {
			return nil
		}
		cur := w.runningRec(rs)
		if w.oc.RemoveOperator(ended.op) {
			return w.errf("RemoveOperator(%s) returned true for an operator that is not running", ended)
		}
		if w.runningRec(rs) != cur {
			return w.errf("RemoveOperator of the ended %s changed the running operator of the region", ended)
		}
		w.class("event:remove-ended")
		return nil
	}
	cur := w.runningRec(rs)
	if cur == nil {
		return nil
	}
	before := cur.op.Status()
	ev.removed = cur
	if !w.oc.RemoveOperator(cur.op) {
		return w.errf("RemoveOperator(%s) returned false for the running operator", cur)
	}
	if w.runningRec(rs) == cur {
		return w.errf("%s still running after RemoveOperator", cur)
	}
	if before == operator.STARTED && cur.op.Status() != operator.CANCELED {
		return w.errf("%s removed while STARTED, must be CANCELED", cur)
	}
	w.class("event:remove-running")
	return nil
}

// evObserver: somebody outside the controller looks at an operator the controller knows (running, or
// waiting), through the methods the real readers use: the hot-region scheduler's pending-influence
// bookkeeping (CheckExpired() || CheckTimeout()), HTTP listings and log lines (String, which runs
// CheckSuccess and CheckTimeout), CheckTimeout / CheckSuccess / Status alone. Looking may move the status
// along a legal timed edge only (created->expired after the expire time, started->timeout after the wait
// time); the sweep that follows every event judges that.
func (w *world) evObserver(ev *evCtx, rs *regState, which, call int) {
	var cand []*opRec
	if o := w.runningRec(rs); o != nil {
		cand = append(cand, o)
	}
	waiting := map[*operator.Operator]bool{}
	for _, x := range w.oc.GetWaitingOperators() {
		waiting[x] = true
	}
	for _, o := range w.ops {
		if waiting[o.op] {
			cand = append(cand, o)
		}
	}
	if len(cand) == 0 {
		return
	}
	o := cand[mod(which, len(cand))]
	ev.looked = o
	switch mod(call, 6) {
	case 0:
		_ = o.op.CheckExpired() || o.op.CheckTimeout()
		w.class("observer:CheckExpired||CheckTimeout")
	case 1:
		_ = o.op.CheckTimeout()
		w.class("observer:CheckTimeout")
	case 2:
		_ = o.op.CheckSuccess()
		w.class("observer:CheckSuccess")
	case 3:
		_ = o.op.String()
		w.class("observer:String")
	case 4:
		_ = o.op.Status()
		w.class("observer:Status")
	case 5:
		_ = o.op.CheckExpired()
		w.class("observer:CheckExpired")
	}
}

// evInfluence: what every scheduler tick does. GetOpInfluence runs CheckTimeout on
// every running operator: one that has been running for its wait time becomes
// TIMEOUT (it stays in the running set until the next dispatch); nothing else changes.
func (w *world) evInfluence() error {
	var due []*opRec
	for _, o := range w.ops {
		if o.op.Status() == operator.STARTED && w.overdue(o) {
			due = append(due, o)
		}
	}
	w.class("event:get-op-influence")
	w.oc.GetOpInfluence(w.mc)
	for _, o := range due {
		if o.op.Status() != operator.TIMEOUT {
			return w.errf("%s has been running for %v (wait time %v) and GetOpInfluence checked it: want TIMEOUT", o, w.now().Sub(o.started), waitTime(o))
		}
	}
	return nil
}

// ---------------------------------------------------------------- store side

func touched(m *pdpb.RegionHeartbeatResponse, r *simkit.Region) (stores []uint64, kind string) {
	switch {
	case m.GetChangePeer() != nil:
		return []uint64{m.GetChangePeer().GetPeer().GetStoreId()}, "conf"
	case m.GetChangePeerV2() != nil:
		chs := m.GetChangePeerV2().GetChanges()
		if len(chs) == 0 {
			for _, p := range r.Peers {
				if p.Role.Joint() {
					stores = append(stores, p.Store)
				}
			}
			return stores, "conf"
		}
		for _, c := range chs {
			stores = append(stores, c.GetPeer().GetStoreId())
		}
		return stores, "conf"
	case m.GetTransferLeader() != nil:
		return nil, "leader"
	}
	return nil, "range"
}

func (w *world) newChild(parent *regState, sim *simkit.Region) {
	ch := &regState{sim: sim, parent: parent}
	parent.children = append(parent.children, ch)
	w.regs = append(w.regs, ch)
	w.byID[sim.ID] = ch
}

func (w *world) evExec(ev *evCtx, rs *regState, nohb bool, race int) {
	msgs := rs.inbox
	rs.inbox = nil
	hbOn := rs
	for _, im := range msgs {
		if rs.sim.Merged {
			break
		}
		if err := rs.sim.CheckHeader(im.m); err != nil {
			w.class("store:stale-command-dropped")
			continue
		}
		own := im.op != nil && w.runningRec(rs) == im.op && im.op.op.Status() == operator.STARTED
		stores, kind := touched(im.m, rs.sim)
		before := rs.sim.ConfVer
		var children []*simkit.Region
		var target *regState
		apply := func(r *simkit.Region) error {
			if mg := im.m.GetMerge(); mg != nil {
				target = w.byID[mg.GetTarget().GetId()]
				if target == nil || target.sim.Merged {
					return fmt.Errorf("merge target unknown")
				}
				return r.MergeInto(target.sim)
			}
			var err error
			children, err = r.ApplyResponse(im.m)
			return err
		}
		var err error
		if own {
			err = apply(rs.sim)
		} else {
			err = rs.sim.Inject(apply)
		}
		if err != nil {
			w.class("store:command-refused")
			if im.op != nil && !im.op.foreignSince() && unsafePlansKnown() {
				// a faithful store refuses a command of an operator although nothing else happened:
				// the plan is unsafe (C08's subject); nothing further is judged about this operator
				im.op.unsound = true
				w.class("operator:unsafe-plan")
			}
			continue
		}
		w.class("store:command-executed")
		idx := -1
		if im.op != nil {
			idx = im.op.idx
			if im.step >= 0 {
				im.op.executed[im.step] = true
			}
			im.op.unseen = true
		}
		w.appendEntry(rs, entry{op: idx, conf: rs.sim.ConfVer - before, stores: stores, kind: kind})
		for _, c := range children {
			w.newChild(rs, c)
		}
		if target != nil {
			// the target absorbed the source: for the passive operator on the target this is its own step
			pidx := -1
			if p := w.runningRec(target); p != nil {
				for i, st := range p.steps {
					if mr, ok := st.(operator.MergeRegion); ok && mr.IsPassive && mr.FromRegion.GetId() == rs.sim.ID {
						p.executed[i] = true
						p.unseen = true
						pidx = p.idx
					}
				}
			}
			w.appendEntry(target, entry{op: pidx, kind: "range"})
			hbOn = target
			w.class("store:merged")
		}
	}
	if !nohb {
		w.heartbeat(ev, hbOn, race)
	}
}

func (w *world) evForeign(rs *regState, f *Foreign) {
	if rs.sim.Merged {
		return
	}
	r := rs.sim
	s := takeSnapshot(w, r.Clone())
	before := r.ConfVer
	var stores []uint64
	kind := "conf"
	var children []*simkit.Region
	err := r.Inject(func(r *simkit.Region) error {
		switch f.Kind {
		case "addLearner", "addVoter":
			if len(s.free) == 0 {
				return fmt.Errorf("no free store")
			}
			st := s.free[mod(f.A, len(s.free))]
			stores = []uint64{st}
			if f.Kind == "addLearner" {
				return r.AddLearner(w.ids.Next(), st)
			}
			return r.AddVoter(w.ids.Next(), st)
		case "remove":
			p := s.peers[mod(f.A, len(s.peers))]
			stores = []uint64{p.Store}
			return r.Remove(p.Store, p.ID)
		case "promote":
			if len(s.learner) == 0 {
				return fmt.Errorf("no learner")
			}
			p := s.learner[mod(f.A, len(s.learner))]
			stores = []uint64{p.Store}
			return r.Promote(p.Store, p.ID)
		case "demote":
			if len(s.voters) == 0 {
				return fmt.Errorf("no follower")
			}
			p := s.voters[mod(f.A, len(s.voters))]
			stores = []uint64{p.Store}
			return r.Demote(p.Store, p.ID)
		case "transfer":
			kind = "leader"
			var cand []simkit.Peer
			for _, p := range s.peers {
				if p.Role.CanLead() && p.ID != r.Leader {
					cand = append(cand, p)
				}
			}
			if len(cand) == 0 {
				return fmt.Errorf("no transfer target")
			}
			return r.TransferLeader(cand[mod(f.A, len(cand))].Store)
		case "split":
			kind = "range"
			var err error
			children, err = r.Split([]string{r.StartKey + "\x01"})
			return err
		case "enterJoint":
			var cs []simkit.Change
			if len(s.voters) > 0 {
				p := s.voters[mod(f.A, len(s.voters))]
				cs = append(cs, simkit.Change{Type: eraftpb.ConfChangeType_AddLearnerNode, ID: p.ID, Store: p.Store})
			}
			if len(s.learner) > 0 && (f.B%2 == 0 || len(cs) == 0) {
				p := s.learner[mod(f.B, len(s.learner))]
				cs = append(cs, simkit.Change{Type: eraftpb.ConfChangeType_AddNode, ID: p.ID, Store: p.Store})
			}
			if len(cs) == 0 {
				return fmt.Errorf("nothing to change")
			}
			for _, c := range cs {
				stores = append(stores, c.Store)
			}
			return r.ChangePeerV2(cs)
		case "leaveJoint":
			for _, p := range r.Peers {
				if p.Role.Joint() {
					stores = append(stores, p.Store)
				}
			}
			return r.ChangePeerV2(nil)
		}
		return fmt.Errorf("unknown foreign change %q", f.Kind)
	})
	if err != nil {
		w.class("foreign:refused")
		return
	}
	w.class("foreign:" + f.Kind)
	w.appendEntry(rs, entry{op: -1, conf: r.ConfVer - before, stores: stores, kind: kind})
	for _, c := range children {
		w.newChild(rs, c)
	}
}

// ---------------------------------------------------------------- heartbeat and its judgement

type judge struct {
	x          *opRec
	foreign    bool
	allDone    bool
	next       int
	mustCancel string
	excluded   bool
	leader     bool
	overdue    bool // it has been running for its wait time: Check turns it into TIMEOUT unless all steps are finished
}

// leaveTrigger: exactly the situations in which ChangePeerV2Leave.ConfVerChanged
// (lookup by GetStorePeer(dv.PeerID), a peer id used as a store id) answers
// differently from the lookup by dv.ToStore, for a Leave step that is finished
// or current: a demotion that is not (or no longer) visible on dv.ToStore while
// the two lookups disagree on whether "the peer still exists".
//
//	under: the lookup hits an unrelated peer although the demoted peer is gone:
//	       the Leave step is counted as 0 instead of n (a false stale is possible)
//	over:  the lookup finds nothing although the peer is still there and not yet
//	       demoted: the Leave step is counted as n instead of 0 (a stale operator may survive)
func leaveTrigger(o *opRec, r *simkit.Region) (under, over bool) {
	n := o.next(r)
	for i, st := range o.steps {
		if i > n {
			break
		}
		lv, ok := st.(operator.ChangePeerV2Leave)
		if !ok || len(lv.DemoteVoters) == 0 {
			continue
		}
		promoted := true
		for _, pl := range lv.PromoteLearners {
			p := r.PeerOnStore(pl.ToStore)
			promoted = promoted && p != nil && p.ID == pl.PeerID && p.Role == simkit.Voter
		}
		if !promoted {
			continue // both formulas say 0
		}
		// what the two lookups make of this Leave step (n = counted, 0 = not counted)
		asWritten, asMeant := true, true
		for _, dv := range lv.DemoteVoters {
			p := r.PeerOnStore(dv.ToStore)
			if p != nil && p.ID == dv.PeerID && p.Role == simkit.Learner {
				continue // demotion visible: counted either way
			}
			if r.PeerOnStore(dv.PeerID) != nil { // GetStorePeer(dv.PeerID): peer id used as store id
				asWritten = false
			}
			if p != nil { // GetStorePeer(dv.ToStore)
				asMeant = false
			}
		}
		under = under || (!asWritten && asMeant)
		over = over || (asWritten && !asMeant)
	}
	return under, over
}

func (w *world) heartbeat(ev *evCtx, rs *regState, race ...int) {
	if rs.sim.Merged {
		return
	}
	if rs.view == nil && rs.parent != nil {
		rs = rs.parent // a split-off region is first reported together with the region it was split from
	}
	// the step pd is waiting for, if the store executed it since the last heartbeat
	raceStep := -1
	raced := w.runningRec(rs)
	if raced != nil && rs.view != nil && raced.op.Status() == operator.STARTED {
		if k := raced.nextSeen(rs.view); k < len(raced.steps) && raced.executed[k] {
			raceStep = k
		}
	}
	rs.view = rs.sim.Clone()
	rs.viewLen = len(rs.ledger)
	ri := rs.sim.ToRegionInfo()
	w.mc.PutRegion(ri)
	for _, ch := range rs.children {
		ch.view = ch.sim.Clone()
		ch.viewLen = len(ch.ledger)
		ch.parent = nil
		w.mc.PutRegion(ch.sim.ToRegionInfo())
	}
	rs.children = nil
	ev.rs = rs
	if x := w.runningRec(rs); x != nil && x.op.Status() == operator.STARTED {
		ev.judges = append(ev.judges, w.preJudge(x, rs))
	}
	for _, o := range w.ops {
		if o.rs == rs {
			o.unseen = false
			copy(o.seen, o.executed)
		}
	}
	w.class("event:heartbeat")
	if len(race) > 0 && race[0] > 0 && raceStep >= 0 {
		ev.raced = raced
		w.raceRound(ri, raced, raceStep, race[0])
		return
	}
	w.oc.Dispatch(ri, schedule.DispatchFromHeartBeat)
}

// evHeartbeats: every region heartbeats while a store stream is stuck in Send (a
// slow / back-pressured store): the stream loop does not take anything out of
// msgCh, so the commands of all these dispatches are queued together before the
// first of them reaches a store. What the stores then receive is judged as usual
// (header = the region's view, command = the operator's current step, one per dispatch).
func (w *world) evHeartbeats(ev *evCtx) {
	g := make(chan struct{})
	w.rec.gate.Store(g)
	st := w.c.Cluster.Stores[0].ID
	w.hb.SendErr(pdpb.ErrorType_UNKNOWN, "c09 stalled stream", &metapb.Peer{StoreId: st})
	for _, rs := range append([]*regState(nil), w.regs...) {
		if rs.view != nil && !rs.sim.Merged {
			w.heartbeat(ev, rs)
		}
	}
	w.rec.gate.Store((chan struct{})(nil))
	close(g)
	w.class("event:heartbeats-behind-stalled-stream")
}

// rendezvous wraps a finished step without changing its behaviour: the first
// `want` callers that see it finished wait for each other inside IsFinish, i.e.
// all of them are inside Operator.Check, have loaded the same currentStep and
// have seen the step finished (what a heartbeat and the push ticker, or two
// heartbeats, do when they notice a finished step at the same time).
type rendezvous struct {
	operator.OpStep
	want     int32
	arrivals int32
	first    chan struct{}
	release  chan struct{}
	once     sync.Once
	onceF    sync.Once
	timedOut int32
}

func (s *rendezvous) open() { s.once.Do(func() { close(s.release) }) }

func (s *rendezvous) IsFinish(region *core.RegionInfo) bool {
	if !s.OpStep.IsFinish(region) {
		return false
	}
	n := atomic.AddInt32(&s.arrivals, 1)
	if n == 1 {
		s.onceF.Do(func() { close(s.first) })
	}
	if n >= s.want {
		s.open()
		return true
	}
	select {
	case <-s.release:
	case <-time.After(10 * time.Second):
		atomic.StoreInt32(&s.timedOut, 1)
	}
	return true
}

// raceRound: the heartbeat that reports a just executed step is dispatched
// concurrently with the push ticker and/or a second dispatch.
//
//	mode 1: Dispatch || PushOperators   mode 2: Dispatch || Dispatch   mode 3: Dispatch || Dispatch || PushOperators
//
// Dispatch calls Operator.Check without the controller lock, PushOperators calls
// it under the lock: the dispatches are started first, the ticker last, and a
// ticker that does not reach the operator (another operator on top of its heap)
// releases the others when it returns.
func (w *world) raceRound(ri *core.RegionInfo, x *opRec, k int, mode int) {
	dispatches, push := 1, true
	switch mode {
	case 2:
		dispatches, push = 2, false
	case 3:
		dispatches = 2
	}
	rv := &rendezvous{OpStep: x.shared[k], want: int32(dispatches), first: make(chan struct{}), release: make(chan struct{})}
	if push {
		rv.want++
	}
	x.shared[k] = rv
	var wg sync.WaitGroup
	dDone := make(chan struct{}, dispatches)
	for i := 0; i < dispatches; i++ {
		wg.Add(1)
		go func() {
			defer wg.Done()
			w.oc.Dispatch(ri, schedule.DispatchFromHeartBeat)
			dDone <- struct{}{}
		}()
	}
	if push {
		// wait until a dispatch is inside Check (or all dispatches returned without looking at the step)
		returned := 0
		for waiting := true; waiting; {
			select {
			case <-rv.first:
				if int(atomic.LoadInt32(&rv.arrivals))+returned >= dispatches {
					waiting = false
				} else {
					runtime.Gosched()
				}
			case <-dDone:
				returned++
				waiting = returned < dispatches
			}
		}
		wg.Add(1)
		go func() {
			defer wg.Done()
			w.oc.PushOperators()
			rv.open() // the ticker did not get to this operator: nobody else will arrive
		}()
	}
	wg.Wait()
	x.shared[k] = rv.OpStep
	if atomic.LoadInt32(&rv.timedOut) != 0 {
		w.raceTimeout = true
	}
	if atomic.LoadInt32(&rv.arrivals) >= 2 {
		w.class(fmt.Sprintf("race:check-entered-concurrently(mode %d)", mode))
	} else {
		w.class("race:no-interleaving")
	}
}

func (w *world) preJudge(x *opRec, rs *regState) *judge {
	r := rs.sim
	j := &judge{x: x, foreign: x.foreignSince(), next: x.next(r), leader: r.Leader != 0}
	j.allDone = j.next == len(x.steps)
	j.overdue = w.overdue(x)
	if x.unsound || j.overdue {
		return j
	}
	under, over := leaveTrigger(x, r)
	if !j.foreign {
		// known finding, under-reporting side: the operator may be cancelled although only its own steps ran
		j.excluded = !w.strict && under
		return j
	}
	// what the simulator's own/foreign tags say about conf_ver
	var own, all uint64
	confTouch := false
	for _, e := range rs.ledger[x.pos:] {
		all += e.conf
		if e.op == x.idx {
			own += e.conf
			continue
		}
		if e.conf > 0 {
			for _, s := range e.stores {
				confTouch = confTouch || x.stores[s]
			}
		}
	}
	delta := r.ConfVer - x.ep.conf
	if all != delta {
		// the ledger must explain the epoch (internal consistency of the harness)
		panic(fmt.Sprintf("c09 harness: ledger explains conf_ver +%d, region moved by +%d (%s, %s)", all, delta, x, r))
	}
	if confTouch {
		w.class("foreign:touches-operator-stores(not judged)")
		return j // the foreign change may coincide with what a step wants: no judgement
	}
	unexecConf := false
	for i, st := range x.steps {
		if !x.executed[i] && nominalConf(st) > 0 && !vacuous(st, r) {
			unexecConf = true
		}
	}
	if delta > own && unexecConf && over && !w.strict {
		// known finding, over-reporting side: pending demotions are counted as done, the stale operator may survive
		j.excluded = true
		return j
	}
	if delta > own && unexecConf {
		j.mustCancel = fmt.Sprintf("conf_ver advanced by %d since the operator's snapshot, its own executed commands account for %d", delta, own)
		return j
	}
	if !x.ambiguous && j.next < len(x.steps) {
		st := x.steps[j.next]
		code := simkit.CodeOf(r.CheckStep(st))
		falsified := false
		switch s := st.(type) {
		case operator.RemovePeer:
			falsified = code == simkit.LeaderRemoved
		case operator.DemoteFollower:
			falsified = code == simkit.LeaderDemoted
		case operator.ChangePeerV2Leave:
			falsified = code == simkit.LeaveLeaderDemoting
		case operator.TransferLeader:
			p := r.PeerOnStore(s.ToStore)
			falsified = code == simkit.BadTransferTarget && (p == nil || p.Role == simkit.Learner)
		}
		if falsified {
			j.mustCancel = fmt.Sprintf("the precondition of its current step %d (%s) no longer holds (%s)", j.next, st, code)
		}
	}
	return j
}

func (w *world) postJudge(ev *evCtx) error {
	for _, j := range ev.judges {
		if err := w.postJudge1(ev, j); err != nil {
			return err
		}
	}
	return nil
}

func (w *world) postJudge1(ev *evCtx, j *judge) error {
	x := j.x
	st := x.op.Status()
	running := w.runningRec(x.rs) == x
	switch {
	case j.overdue:
		// Dispatch first lets the operator look at the region: finished => SUCCESS, else overdue => TIMEOUT; either way it leaves
		if (st != operator.TIMEOUT && st != operator.SUCCESS) || running {
			return w.errf("%s has been running for %v (wait time %v): the heartbeat must end it with TIMEOUT (or SUCCESS)", x, w.now().Sub(x.started), waitTime(x))
		}
		if !x.unsound && !j.foreign {
			if want := map[bool]operator.OpStatus{true: operator.SUCCESS, false: operator.TIMEOUT}[j.allDone]; st != want {
				return w.errf("%s: overdue, all steps executed = %v, nothing foreign: want %s", x, j.allDone, operator.OpStatusToString(want))
			}
		}
		return nil
	case x.unsound:
		return nil
	case j.excluded:
		w.excluded = true
		w.class("excluded:leave-confver-lookup-differs")
		return nil
	case !j.foreign:
		if j.allDone {
			if st != operator.SUCCESS || running {
				return w.errf("%s: every step was executed by the store and nothing else happened to the region (%s), the heartbeat must finish it with SUCCESS", x, x.rs.sim)
			}
			w.class("operator:success")
			if len(x.steps) >= 2 {
				w.class("operator:success-multi-step")
				w.nonTrivial = true
			}
			for _, s := range x.steps {
				switch s.(type) {
				case operator.ChangePeerV2Leave:
					w.class("operator:success-joint")
				case operator.MergeRegion:
					w.class("operator:success-merge")
				case operator.SplitRegion:
					w.class("operator:success-split")
				}
			}
			return nil
		}
		if st == operator.REPLACED && !running {
			// a later dispatch of the same event promoted a waiting operator of higher priority (the sweep has
			// checked that such an operator was started on the region in this event)
			return nil
		}
		if st != operator.STARTED || !running {
			return w.errf("%s: the region (%s) changed only through the operator's own executed commands, the heartbeat must not end it", x, x.rs.sim)
		}
		if mr, ok := x.steps[j.next].(operator.MergeRegion); ok && mr.IsPassive {
			return nil
		}
		if j.leader && len(ev.msgs[x.rs]) == 0 {
			return w.errf("%s: the heartbeat sent no command for its current step %d (%s)", x, j.next, x.steps[j.next])
		}
		return nil
	case j.mustCancel != "":
		if st != operator.CANCELED || running {
			return w.errf("%s must be cancelled by this heartbeat: %s; region %s", x, j.mustCancel, x.rs.sim)
		}
		w.class("operator:cancelled-by-foreign-change")
		w.nonTrivial = true
	}
	return nil
}

// ---------------------------------------------------------------- messages

func (w *world) collect(ev *evCtx) error {
	if !w.barrier() || w.raceTimeout {
		return errInconclusive
	}
	ev.msgs = map[*regState][]inMsg{}
	seenObj := map[*pdpb.RegionHeartbeatResponse]bool{}
	for _, d := range w.rec.drain() {
		m := d.m
		if m.GetRegionId() == 0 {
			continue // keep-alive
		}
		// one event = commands that were created without anything in between that waits for the stream loop:
		// an object that shows up twice among them was queued twice (SendMsg addresses the object in place,
		// so the earlier addressee lost its command)
		if seenObj[d.obj] {
			return w.errf("the same command object was queued twice in one event (now delivered to store %d as %v): the command created first was re-addressed, a created command must be received exactly once", d.store, m)
		}
		seenObj[d.obj] = true
		rs := w.byID[m.GetRegionId()]
		if rs == nil || rs.view == nil {
			return w.errf("store %d received a command for region %d which pd never heard of", d.store, m.GetRegionId())
		}
		v := rs.view
		if pv := rs.prevView; pv != nil && pv != v {
			// created before this region's own heartbeat of the same event (another region's dispatch promoted a
			// waiting operator of this region): judged against what pd knew at that moment
			if e := m.GetRegionEpoch(); (e.GetVersion() != v.Version || e.GetConfVer() != v.ConfVer || m.GetTargetPeer().GetId() != v.Leader) &&
				e.GetVersion() == pv.Version && e.GetConfVer() == pv.ConfVer && m.GetTargetPeer().GetId() == pv.Leader {
				v = pv
			}
		}
		if e := m.GetRegionEpoch(); e.GetVersion() != v.Version || e.GetConfVer() != v.ConfVer {
			return w.errf("command for region %d carries epoch v%dc%d, the region's current epoch (last heartbeat) is %s", v.ID, e.GetVersion(), e.GetConfVer(), v)
		}
		if v.Leader == 0 || m.GetTargetPeer().GetId() != v.Leader || m.GetTargetPeer().GetStoreId() != v.LeaderStore() {
			return w.errf("command for region %d addressed to peer %d on store %d, the current leader is peer %d on store %d (%s)",
				v.ID, m.GetTargetPeer().GetId(), m.GetTargetPeer().GetStoreId(), v.Leader, v.LeaderStore(), v)
		}
		if d.store != v.LeaderStore() {
			return w.errf("command for region %d delivered to the stream of store %d, the leader is on store %d", v.ID, d.store, v.LeaderStore())
		}
		o := w.runningRec(rs)
		if o == nil && ev.raced != nil && ev.raced.rs == rs {
			// Dispatch reads the status and sends without the controller lock: a concurrent dispatch may
			// have ended the operator in between (check-then-act inside pd; not part of the statement)
			o = ev.raced
			w.class("race:command-for-operator-ended-by-concurrent-dispatch")
		}
		// an event may dispatch several regions (push, heartbeats behind a stalled stream): the operator that was
		// running on this region when the event began may have sent this command and been replaced / ended by a
		// later dispatch of the same event (promotion of a waiting operator). It is the sender when the command
		// is the command of its current step and not of the current operator's.
		for _, p := range w.ops {
			if p.rs == rs && (p.running || (p.last == operator.CREATED && p.op.HasStarted())) && p != o && p.nextSeen(v) < len(p.steps) && matchStep(m, p.steps[p.nextSeen(v)]) &&
				(o == nil || o.nextSeen(v) >= len(o.steps) || !matchStep(m, o.steps[o.nextSeen(v)])) {
				o = p
				w.class("command:of-operator-replaced-later-in-the-event")
			}
		}
		if o == nil {
			return w.errf("store %d received a command for region %d which has no running operator", d.store, v.ID)
		}
		n := o.nextSeen(v)
		idx := -1
		for i := n; i < len(o.steps) && idx < 0; i++ {
			if matchStep(m, o.steps[i]) {
				idx = i
			}
		}
		for i := 0; i < n && i < len(o.steps) && idx < 0; i++ {
			if matchStep(m, o.steps[i]) {
				idx = i
			}
		}
		if !o.unsound && !o.foreignSince() && idx != n {
			cur := "none (all steps executed)"
			if n < len(o.steps) {
				cur = fmt.Sprintf("%d (%s)", n, o.steps[n])
			}
			return w.errf("%s: received command %v is not the command of its current step %s; region %s", o, m, cur, v)
		}
		im := inMsg{m: m, op: o, step: idx}
		rs.inbox = append(rs.inbox, im)
		ev.msgs[rs] = append(ev.msgs[rs], im)
		w.class("command:received")
	}
	return nil
}

// ---------------------------------------------------------------- status sweep

var pbStatus = map[operator.OpStatus]pdpb.OperatorStatus{
	operator.STARTED:  pdpb.OperatorStatus_RUNNING,
	operator.SUCCESS:  pdpb.OperatorStatus_SUCCESS,
	operator.CANCELED: pdpb.OperatorStatus_CANCEL,
	operator.REPLACED: pdpb.OperatorStatus_REPLACE,
	operator.TIMEOUT:  pdpb.OperatorStatus_TIMEOUT,
	operator.EXPIRED:  pdpb.OperatorStatus_TIMEOUT,
}

func validChange(from, to operator.OpStatus, started bool) bool {
	switch from {
	case operator.CREATED:
		switch to {
		case operator.STARTED, operator.CANCELED:
			return true
		case operator.EXPIRED:
			return !started
		case operator.SUCCESS, operator.REPLACED, operator.TIMEOUT:
			return started // passed through STARTED inside one call
		}
	case operator.STARTED:
		return to == operator.SUCCESS || to == operator.CANCELED || to == operator.REPLACED || to == operator.TIMEOUT
	}
	return false
}

func (w *world) sweep(ev *evCtx) error {
	type change struct {
		o        *opRec
		from, to operator.OpStatus
	}
	var changes []change
	endedNow := map[*regState][]*opRec{}
	startedNow := map[*regState][]*opRec{}
	for _, o := range w.ops {
		cur := o.op.Status()
		running := w.runningRec(o.rs) == o
		if cur != o.last {
			if !validChange(o.last, cur, o.op.HasStarted()) {
				return w.errf("%s: observed status change %s -> %s", o, operator.OpStatusToString(o.last), operator.OpStatusToString(cur))
			}
			if !o.submitted {
				return w.errf("%s changed status without having been handed to the controller", o)
			}
			now := w.now()
			if o.last == operator.CREATED && o.op.HasStarted() {
				o.started = now
				if !o.op.GetStartTime().Equal(now) {
					return w.errf("%s: start time %v, the clock says %v", o, o.op.GetStartTime(), now)
				}
				if age := now.Sub(o.created); age >= operator.OperatorExpireTime {
					return w.errf("%s was started %v after it was created (expire time %v)", o, age, operator.OperatorExpireTime)
				}
			}
			switch cur {
			case operator.EXPIRED:
				if age := now.Sub(o.created); age < operator.OperatorExpireTime {
					return w.errf("%s EXPIRED %v after it was created (expire time %v)", o, age, operator.OperatorExpireTime)
				}
				w.class("operator:expired")
			case operator.TIMEOUT:
				if !w.overdue(o) {
					return w.errf("%s TIMEOUT %v after it was started (wait time %v)", o, now.Sub(o.started), waitTime(o))
				}
				w.class("operator:timeout")
			}
			changes = append(changes, change{o, o.last, cur})
			if o.last == operator.CREATED && o.op.HasStarted() {
				startedNow[o.rs] = append(startedNow[o.rs], o)
			}
			if operator.IsEndStatus(cur) && !running {
				if ev.looked == o && ev.kind == "observer" {
					// a waiting operator that expires while an observer looks at it is buried when its turn in the
					// waiting queue comes: a later event, in which its status does not change any more
					o.burialPending = true
				} else {
					endedNow[o.rs] = append(endedNow[o.rs], o)
				}
			}
		}
		if o.running && !running {
			if !operator.IsEndStatus(cur) {
				return w.errf("%s left the running set in status %s", o, operator.OpStatusToString(cur))
			}
			if cur == o.last && operator.IsEndStatus(cur) {
				endedNow[o.rs] = append(endedNow[o.rs], o) // ended earlier (SUCCESS / TIMEOUT reached inside a Check), leaves and is buried now
				if cur == operator.TIMEOUT {
					w.class("operator:timeout-left-running-set")
				}
			}
		}
		if cur == operator.STARTED && !running {
			return w.errf("%s is STARTED but is not the operator GetOperator returns for region %d", o, o.rs.sim.ID)
		}
		if running && cur != operator.STARTED && cur != operator.SUCCESS && cur != operator.TIMEOUT {
			return w.errf("%s is in the running set with status %s", o, operator.OpStatusToString(cur))
		}
	}
	for _, ch := range changes {
		o := ch.o
		if ch.from == operator.CREATED && o.op.HasStarted() {
			// admission: only with the epoch pd knows for the region
			if pv := o.rs.prevView; w.mismatch(o) && !(pv != nil && pv != o.rs.view && epochOf(pv) == o.ep && w.mc.GetRegion(o.rs.sim.ID) != nil) {
				return w.errf("%s was started although pd's view of the region is %s", o, viewStr(o.rs))
			}
			w.class("operator:started")
		}
		switch ch.to {
		case operator.REPLACED:
			ok := false
			for _, n := range startedNow[o.rs] {
				ok = ok || (n != o && n.prio > o.prio)
			}
			if !ok {
				return w.errf("%s was REPLACED but no operator of higher priority was started on region %d in this event", o, o.rs.sim.ID)
			}
			w.class("operator:replaced")
		case operator.CANCELED:
			if ch.from == operator.STARTED || o.op.HasStarted() {
				if err := w.cancelJustified(ev, o); err != nil {
					return err
				}
				w.class("operator:cancelled-while-running")
			} else {
				w.class("operator:refused")
			}
		}
	}
	for _, o := range w.ops {
		o.last = o.op.Status()
		o.running = w.runningRec(o.rs) == o
	}
	// the running set
	seen := map[uint64]bool{}
	for _, op := range w.oc.GetOperators() {
		o := w.byOp[op]
		if o == nil {
			return w.errf("running set holds an operator that was never handed to the controller: %s", op)
		}
		if seen[op.RegionID()] {
			return w.errf("two running operators for region %d", op.RegionID())
		}
		seen[op.RegionID()] = true
		if w.oc.GetOperator(op.RegionID()) != op || op.RegionID() != o.rs.sim.ID {
			return w.errf("%s is listed as running but GetOperator(%d) returns another one", o, op.RegionID())
		}
	}
	// remembered end status
	for _, rs := range w.regs {
		ended := endedNow[rs]
		if len(ended) == 0 {
			continue
		}
		got := w.oc.GetOperatorStatus(rs.sim.ID)
		if cur := w.runningRec(rs); cur != nil {
			if got == nil || got.Op != cur.op {
				return w.errf("GetOperatorStatus(%d) does not report the running %s", rs.sim.ID, cur)
			}
			continue
		}
		if got == nil {
			return w.errf("%s ended, GetOperatorStatus(%d) remembers nothing", ended[0], rs.sim.ID)
		}
		ok := false
		for _, o := range ended {
			ok = ok || got.Op == o.op
		}
		if r := w.byOp[got.Op]; !ok && r != nil && r.rs == rs && r.burialPending && operator.IsEndStatus(got.Op.Status()) && w.runningRec(rs) != r {
			// records are per region: the waiting operator of this region that had ended earlier under an observer's
			// eyes was taken out of the waiting queue and buried in this event, after the operator that ended now
			ok = true
			r.burialPending = false
			w.class("record:of-waiting-operator-that-ended-earlier-buried-now")
		}
		if !ok {
			return w.errf("%s ended in this event, GetOperatorStatus(%d) reports another operator (%s)", ended[0], rs.sim.ID, got.Op)
		}
		if want := pbStatus[got.Op.Status()]; got.Status != want || !operator.IsEndStatus(got.Op.Status()) {
			return w.errf("GetOperatorStatus(%d) reports %s for %s, want %s", rs.sim.ID, got.Status, w.byOp[got.Op], want)
		}
	}
	return nil
}

// cancelJustified: a started operator may end CANCELED only when it was removed
// by the caller, when its region disappeared from pd, or at a heartbeat of its
// region after something else than its own commands changed the region.
func (w *world) cancelJustified(ev *evCtx, o *opRec) error {
	if ev.removed == o {
		return nil
	}
	if w.mc.GetRegion(o.rs.sim.ID) == nil || o.rs.sim.Merged {
		w.class("operator:cancelled-region-gone")
		return nil
	}
	var j *judge
	for _, k := range ev.judges {
		if k.x == o {
			j = k
		}
	}
	if j != nil {
		if o.unsound || j.excluded || j.foreign {
			return nil
		}
		return w.errf("%s was cancelled by the heartbeat although the region (%s) changed only through the operator's own executed commands (conf_ver +%d since its snapshot)",
			o, o.rs.sim, o.rs.sim.ConfVer-o.ep.conf)
	}
	return w.errf("%s was cancelled by an event that neither removes it nor reports its region", o)
}
