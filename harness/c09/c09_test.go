// C09 — operator life-cycle: one per region, epoch-checked, stale ones cancelled.
//
// A case is a generated cluster, 1-3 regions and a list of events. The events
// are executed against the REAL schedule.OperatorController (+ the real
// hbstream.HeartbeatStreams with a recording stream bound for every store) on a
// simkit mock cluster; the regions themselves live in simkit's region simulator
// ("the faithful store"): the commands the controller really sent are applied
// by the simulator, the resulting region is put back into the cluster and
// heartbeated (Dispatch(region, DispatchFromHeartBeat)).
//
//	build      an operator is built from pd's current view of a region (builder API,
//	           Create*Operator helpers, or a hand-made step list) and kept in a pool
//	add        AddOperator / AddWaitingOperator of the newest pooled operator(s)
//	           (priority is part of the build request: admin / high / normal / low)
//	remove     RemoveOperator of the running (or of an already ended) operator
//	exec       the store executes every command it received for the region, in order
//	           (stale headers are dropped as TiKV does), then usually heartbeats; in the
//	           concurrent variant that heartbeat's Dispatch runs concurrently with
//	           PushOperators and/or a second Dispatch, all of them meeting inside
//	           Operator.Check on the step that was just finished (rendezvous wrapper)
//	hb         heartbeat only
//	hbs        every region heartbeats while a store stream is stuck in Send: the
//	           commands of all these dispatches are queued together in msgCh
//	lose       the commands in flight for the region are lost
//	push       PushOperators
//	clock      the virtual clock (installed in server/schedule and server/schedule/operator
//	           through the build overlay) advances by 1 s ... 31 min
//	influence  GetOpInfluence, as the schedulers call it (it runs CheckTimeout on running operators)
//	observer   an outside reader looks at a running or waiting operator the way the hot-region
//	           scheduler (CheckExpired() || CheckTimeout()), the HTTP listings and the log lines do
//	           (CheckTimeout, CheckSuccess, String, Status)
//	foreign    somebody else changes the region on the store (conf change, joint
//	           enter/leave, leader transfer, split), tagged foreign in the simulator
//
// Oracle (see run_test.go): at most one STARTED operator per region and it is the
// one GetOperator returns; an operator is started only with build epoch == epoch
// pd knows for the region (a refused operator ends CANCELED); observed status
// changes follow created->started->{success,canceled,replaced,timeout},
// created->{canceled,expired}; whoever left the running set is in an end status
// and GetOperatorStatus remembers it; every command received by a store carries
// region id / epoch / leader of pd's current view; while a region changed only
// through the operator's own executed commands the operator is never cancelled,
// each heartbeat sends exactly the command of its first unexecuted step and it
// ends SUCCESS when all steps were executed; after a foreign conf change that the
// operator's own executed commands (simulator's own/foreign tags) do not account
// for, or a foreign event that falsifies the precondition of its current step,
// the next heartbeat cancels it.
package c09

import (
	"os"
	"testing"
	"time"

	"pdverif/livesrv"
	"pdverif/simkit"
	"pdverif/vkit"
	"pgregory.net/rapid"
)

func TestMain(m *testing.M)   { vkit.Quiet(); vkit.MainWith(m, "C09", livesrv.Shutdown) }
func TestProp(t *testing.T)   { vkit.RunAll(t) }
func TestReplay(t *testing.T) { vkit.RunReplay(t) }

const keyLeave = "C09/leave-confver-uses-peerid-as-storeid"

// leaveKnown: the known finding is listed as known and strict mode is not forced.
// VERIF_C09_STRICT=1 switches the exclusion off (used to validate the candidate fix).
func leaveKnown() bool { return vkit.Known(keyLeave) && os.Getenv("VERIF_C09_STRICT") == "" }

func init() {
	vkit.Register("lifecycle", vkit.N{Quick: 40000, Thorough: 1000000}, genCase, runCase)
}

// ---------------------------------------------------------------- case data

// BuildReq asks for an operator, relative to the region as pd knows it when the
// event runs (selectors are reduced modulo the number of candidates).
type BuildReq struct {
	// Kind: transferLeader movePeer addPeer removePeer moveLeader promoteLearner
	// leaveJoint builder split merge handmade demoteLeader (CreateMoveRegionOperator with roles)
	Kind string `json:"kind"`
	// Prio: "" normal, "admin" (kind OpAdmin => high), "high", "low" (SetPriorityLevel)
	Prio  string `json:"prio,omitempty"`
	A     int    `json:"a,omitempty"`
	B     int    `json:"b,omitempty"`
	C     int    `json:"c,omitempty"`
	Light bool   `json:"light,omitempty"`
	// Mask (builder): per origin peer (by store order) 0 keep, 1 flip voter/learner, 2 drop.
	Mask []int `json:"mask,omitempty"`
	// Tmpl (handmade): template number.
	Tmpl int `json:"tmpl,omitempty"`
}

// Foreign is a change of the region by somebody else.
type Foreign struct {
	// Kind: addLearner addVoter remove promote demote transfer split enterJoint leaveJoint
	Kind string `json:"kind"`
	A    int    `json:"a,omitempty"`
	B    int    `json:"b,omitempty"`
}

// Op is one event.
type Op struct {
	Kind  string    `json:"k"`
	R     int       `json:"r"`
	Req   *BuildReq `json:"req,omitempty"`
	Mode  string    `json:"mode,omitempty"` // add: "" AddOperator, "waiting" AddWaitingOperator
	N     int       `json:"n,omitempty"`    // add waiting: number of pooled bundles (1..3)
	Which int       `json:"which,omitempty"`
	NoHB  bool      `json:"nohb,omitempty"` // exec without the heartbeat that normally follows
	D     int       `json:"d,omitempty"`    // clock: index into clockSteps
	// Race (exec): the heartbeat that follows is dispatched concurrently: 1 Dispatch || PushOperators,
	// 2 Dispatch || Dispatch, 3 Dispatch || Dispatch || PushOperators (rendezvous inside Operator.Check)
	Race int      `json:"race,omitempty"`
	F    *Foreign `json:"f,omitempty"`
}

// Case is one generated input.
type Case struct {
	Cluster simkit.ClusterSpec  `json:"cluster"`
	Regions []simkit.RegionSpec `json:"regions"`
	// Collide: peer ids were renumbered 1,2,3,... so that they collide with store
	// ids (the style of pd's own mock clusters); secondary input class.
	Collide bool  `json:"collide,omitempty"`
	Seed    int64 `json:"seed"`
	Ops     []Op  `json:"ops"`
}

// ---------------------------------------------------------------- generator

var buildKinds = []string{
	"movePeer", "movePeer", "movePeer", "builder", "builder", "builder", "builder", "handmade", "handmade", "handmade", "handmade",
	"transferLeader", "transferLeader", "addPeer", "removePeer", "removePeer", "moveLeader", "moveLeader", "promoteLearner",
	"leaveJoint", "split", "merge", "merge", "demoteLeader", "demoteLeader", "demoteLeader",
}

var foreignKinds = []string{
	"addLearner", "addLearner", "addVoter", "remove", "remove", "promote", "demote", "transfer", "transfer", "transfer", "transfer",
	"split", "enterJoint", "leaveJoint",
}

const nTemplates = 9

// clockSteps: by how much a "clock" event advances the virtual clock. Around
// OperatorExpireTime (3 s), the push intervals (2 s / 5 s), FastOperatorWaitTime
// (10 s; 1+3+6 s hits it exactly) and SlowOperatorWaitTime (10 min).
var clockSteps = []time.Duration{time.Second, 3 * time.Second, 6 * time.Second, 11 * time.Second, time.Minute,
	10*time.Minute + time.Second, 31 * time.Minute}

func genReq(t *rapid.T) *BuildReq {
	q := &BuildReq{Kind: simkit.Pick(t, buildKinds, "buildKind")}
	q.Prio = simkit.Pick(t, []string{"", "", "", "", "", "admin", "admin", "high", "low"}, "prio")
	q.A = simkit.IntU(t, 0, 5, "a")
	q.B = simkit.IntU(t, 0, 5, "b")
	q.C = simkit.IntU(t, 0, 5, "c")
	switch q.Kind {
	case "builder":
		n := simkit.IntU(t, 1, 5, "nMask")
		for i := 0; i < n; i++ {
			q.Mask = append(q.Mask, simkit.Pick(t, []int{0, 0, 0, 1, 2, 2}, "mask"))
		}
		q.Light = simkit.Pct(t, 15, "light")
	case "handmade":
		q.Tmpl = simkit.IntU(t, 0, nTemplates-1, "tmpl")
	}
	return q
}

func genForeign(t *rapid.T) *Foreign {
	return &Foreign{Kind: simkit.Pick(t, foreignKinds, "foreignKind"), A: simkit.IntU(t, 0, 5, "fa"), B: simkit.IntU(t, 0, 5, "fb")}
}

func genCase(t *rapid.T) Case {
	var c Case
	c.Cluster = simkit.GenCluster(t, simkit.ClusterGen{MinStores: 3, MaxStores: 6, HealthyBias: 92})
	c.Seed = int64(simkit.IntU(t, 1, 1<<30, "seed"))
	n := simkit.Pick(t, []int{1, 1, 2, 2, 3}, "nRegions")
	c.Regions = simkit.GenRegions(t, c.Cluster.StoreIDs(), n, simkit.RegionGen{MaxPeers: 5, Joint: 5, Unhealthy: 4, NoLeader: 2})
	if n > 1 && simkit.Pct(t, 45, "samePeers") {
		// regions on the same stores with the same roles: merges become short
		for i := 1; i < n; i++ {
			r := &c.Regions[i]
			r.Peers = nil
			for j, p := range c.Regions[0].Peers {
				role := p.Role
				if role.Joint() {
					role = simkit.Voter
				}
				r.Peers = append(r.Peers, simkit.PeerSpec{ID: r.ID + 1 + uint64(j), Store: p.Store, Role: role})
			}
			r.Leader = 0
		}
	}
	c.Collide = simkit.Pct(t, 20, "collide")
	if c.Collide {
		id := uint64(0)
		for i := range c.Regions {
			for j := range c.Regions[i].Peers {
				id++
				c.Regions[i].Peers[j].ID = id
			}
		}
	}
	c.Cluster.ReserveIDs(c.Regions...)
	c.Cluster.AllocBase += 1000

	nOps := simkit.IntU(t, 4, 36, "nOps")
	focused := simkit.Pct(t, 30, "focused")
	kinds := []string{"build", "build", "build", "exec", "exec", "exec", "exec", "exec", "exec", "exec", "exec",
		"hb", "hb", "push", "push", "remove", "foreign", "foreign", "foreign", "lose", "add", "clock", "clock", "influence", "hbs", "observer", "observer"}
	if focused {
		kinds = []string{"exec", "exec", "exec", "exec", "exec", "exec", "exec", "exec", "exec", "exec", "exec", "exec",
			"hb", "push", "build", "foreign", "clock", "influence", "hbs", "observer"}
	}
	region := func() int { return simkit.IntU(t, 0, 3, "r") }
	add := func(r int) Op {
		op := Op{Kind: "add", R: r}
		if simkit.Pct(t, 25, "waiting") {
			op.Mode = "waiting"
			op.N = simkit.Pick(t, []int{1, 1, 2, 3}, "nWaiting")
		}
		return op
	}
	r0 := region()
	if n > 1 && simkit.Pct(t, 12, "slowMerge") {
		// a slow merge: the pair is admitted, time passes, a scheduler asks for the operator influence,
		// the store commits the merge, the push loop finds the source region gone
		q := genReq(t)
		q.Kind = "merge"
		c.Ops = append(c.Ops, Op{Kind: "build", R: r0, Req: q}, Op{Kind: "add", R: r0})
		for _, k := range []string{"clock", "influence", "exec", "push"} {
			if simkit.Pct(t, 12, "skip") {
				continue
			}
			op := Op{Kind: k, R: r0}
			if k == "clock" {
				op.D = simkit.Pick(t, []int{3, 3, 5, 5, 2, 6}, "dMerge")
			}
			c.Ops = append(c.Ops, op)
		}
	} else if n > 1 && simkit.Pct(t, 25, "twins") {
		// the same request on two regions, executed in lock-step: both operators are at the same step kind at
		// the same time and their heartbeats are dispatched back to back behind a stalled store stream
		q := genReq(t)
		q.Kind = simkit.Pick(t, []string{"handmade", "handmade", "movePeer", "builder", "moveLeader"}, "twinKind")
		if q.Kind == "handmade" {
			q.Tmpl = simkit.Pick(t, []int{2, 5, 7, 1}, "twinTmpl")
		}
		if q.Kind == "builder" && len(q.Mask) == 0 {
			q.Mask = []int{2, 0, 0}
		}
		q2 := *q
		c.Ops = append(c.Ops, Op{Kind: "build", R: 0, Req: q}, Op{Kind: "add", R: 0}, Op{Kind: "build", R: 1, Req: &q2}, Op{Kind: "add", R: 1})
		for k := simkit.IntU(t, 2, 6, "twinRounds"); k > 0; k-- {
			c.Ops = append(c.Ops, Op{Kind: "exec", R: 0, NoHB: true}, Op{Kind: "exec", R: 1, NoHB: true}, Op{Kind: "hbs"})
		}
	} else {
		c.Ops = append(c.Ops, Op{Kind: "build", R: r0, Req: genReq(t)}, add(r0))
	}
	for len(c.Ops) < nOps {
		op := Op{Kind: simkit.Pick(t, kinds, "kind"), R: region()}
		if focused && simkit.Pct(t, 85, "sameRegion") {
			op.R = r0
		}
		switch op.Kind {
		case "build":
			op.Req = genReq(t)
			c.Ops = append(c.Ops, op)
			switch k := simkit.IntU(t, 0, 99, "afterBuild"); {
			case k < 68:
				c.Ops = append(c.Ops, add(op.R))
			case k < 88:
				// the region changes between build and add (stale snapshot)
				if simkit.Pct(t, 60, "staleByForeign") {
					c.Ops = append(c.Ops, Op{Kind: "foreign", R: op.R, F: genForeign(t)})
					if simkit.Pct(t, 85, "hbAfterForeign") {
						c.Ops = append(c.Ops, Op{Kind: "hb", R: op.R})
					}
				} else {
					c.Ops = append(c.Ops, Op{Kind: "exec", R: op.R})
				}
				c.Ops = append(c.Ops, add(op.R))
			}
			continue
		case "add":
			op = add(op.R)
			op.Which = simkit.IntU(t, 0, 2, "which")
		case "exec":
			op.NoHB = simkit.Pct(t, 10, "nohb")
			if !op.NoHB && simkit.Pct(t, 30, "race") {
				op.Race = simkit.Pick(t, []int{1, 2, 2, 3}, "raceMode")
			}
		case "observer":
			op.Which = simkit.IntU(t, 0, 3, "whichObserved")
			op.N = simkit.Pick(t, []int{0, 0, 0, 1, 2, 3, 4, 5}, "observerCall")
		case "clock":
			op.D = simkit.Pick(t, []int{0, 0, 1, 1, 2, 2, 3, 3, 4, 5, 6}, "d")
		case "remove":
			op.Which = simkit.Pick(t, []int{0, 0, 0, 1}, "whichRemove")
		case "foreign":
			op.F = genForeign(t)
			c.Ops = append(c.Ops, op)
			if simkit.Pct(t, 65, "hbAfterForeign") {
				c.Ops = append(c.Ops, Op{Kind: "hb", R: op.R})
			}
			continue
		}
		c.Ops = append(c.Ops, op)
	}
	return c
}
