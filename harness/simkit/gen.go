package simkit

import (
	"fmt"

	"pgregory.net/rapid"
)

// ---------------------------------------------------------------- rapid generators
//
// All generators return plain data and draw everything from the *rapid.T, so a
// case shrinks and replays. They construct valid data instead of filtering.

// ClusterGen tunes GenCluster. Zero values select the defaults in brackets.
type ClusterGen struct {
	MinStores, MaxStores int // [3, 8]
	// HealthyBias: probability (percent) that a store is plain healthy (up,
	// fresh heartbeat, plenty of space, no flags) [65].
	HealthyBias int
	// Joint: "both" (default) draws the feature level and the option; "on" /
	// "off" pin JointSupported=UseJoint=true / JointSupported=false.
	Joint string
	// Rules: "both" (default), "on", "off" for placement rules.
	Rules string
	// NoLabels: do not generate store labels / location labels.
	NoLabels bool
}

func (g ClusterGen) withDefaults() ClusterGen {
	if g.MinStores == 0 {
		g.MinStores = 3
	}
	if g.MaxStores == 0 {
		g.MaxStores = 8
	}
	if g.HealthyBias == 0 {
		g.HealthyBias = 65
	}
	return g
}

var (
	zones = []string{"z1", "z2", "z3"}
	racks = []string{"r1", "r2"}
	hosts = []string{"h1", "h2", "h3", "h4"}
	// availability ratios around the low-space (available < 0.2) and
	// high-space (available > 0.3) thresholds
	availRatios = []float64{0.95, 0.6, 0.31, 0.29, 0.21, 0.19, 0.05, 0}
)

// Pct is true with probability p percent. rapid's integer generators are
// deliberately biased towards small values (IntRange(0,99) < 3 holds in ~25 % of
// the draws), so the coin is built from uniform bits; all-false bits (what
// rapid shrinks to) give false.
func Pct(t *rapid.T, p int, label string) bool {
	if p <= 0 {
		return false
	}
	if p >= 100 {
		return true
	}
	v := 0
	for i := 0; i < 7; i++ {
		v <<= 1
		if rapid.Bool().Draw(t, label) {
			v |= 1
		}
	}
	return v >= 128-(p*128+50)/100
}

// Uniform returns an (almost exactly) uniform index in [0,n), built from
// uniform bits for the same reason as Pct; shrinks towards 0.
func Uniform(t *rapid.T, n int, label string) int {
	if n <= 1 {
		return 0
	}
	v := 0
	for i := 0; i < 12; i++ {
		v <<= 1
		if rapid.Bool().Draw(t, label) {
			v |= 1
		}
	}
	return v % n
}

// IntU returns an (almost exactly) uniform integer in [lo,hi].
func IntU(t *rapid.T, lo, hi int, label string) int { return lo + Uniform(t, hi-lo+1, label) }

// Pick returns a uniformly chosen element.
func Pick[T any](t *rapid.T, xs []T, label string) T { return xs[Uniform(t, len(xs), label)] }

func pct(t *rapid.T, p int, label string) bool { return Pct(t, p, label) }

// GenStore draws one store.
func GenStore(t *rapid.T, id uint64, g ClusterGen) StoreSpec {
	g = g.withDefaults()
	s := StoreSpec{ID: id, State: StateUp, UsedRatio: 0.05, AvailableRatio: 0.95}
	if !g.NoLabels {
		// location labels: most stores fully labelled, some partially, some not at all
		switch IntU(t, 0, 9, "labelKind") {
		case 0:
		case 1:
			s.Labels = append(s.Labels, Label{"zone", Pick(t, zones, "zone")})
		default:
			s.Labels = append(s.Labels,
				Label{"zone", Pick(t, zones, "zone")},
				Label{"rack", Pick(t, racks, "rack")},
				Label{"host", Pick(t, hosts, "host")})
		}
		switch IntU(t, 0, 19, "special") {
		case 0:
			s.Labels = append(s.Labels, Label{"engine", "tiflash"})
		case 1:
			s.Labels = append(s.Labels, Label{"$dedicated", Pick(t, []string{"a", "b"}, "excl")})
		case 2:
			s.Labels = append(s.Labels, Label{"specialUse", Pick(t, []string{"hotRegion", "reserved"}, "use")})
		case 3, 4:
			s.Labels = append(s.Labels, Label{"noleader", "true"})
		}
	}
	s.RegionCount = Pick(t, []int{0, 1, 10, 29, 30, 31, 100, 1000}, "regionCount")
	s.LeaderCount = IntU(t, 0, s.RegionCount, "leaderCount")
	rs := Pick(t, []int64{1, 10, 96, 200}, "avgRegionSize")
	s.RegionSize = int64(s.RegionCount) * rs
	s.LeaderSize = int64(s.LeaderCount) * rs
	if pct(t, g.HealthyBias, "healthy") {
		return s
	}
	s.State = Pick(t, []string{StateUp, StateUp, StateUp, StateOffline, StateOffline, StateTombstone}, "state")
	s.HeartbeatAgeSec = Pick(t, []int{AgeFresh, AgeFresh, AgeFresh, AgeDisconnected, AgeDown, AgeLongDown}, "hbAge")
	s.AvailableRatio = Pick(t, availRatios, "avail")
	s.UsedRatio = 1 - s.AvailableRatio
	if pct(t, 30, "slack") { // used+available need not add up to the capacity
		s.UsedRatio = s.UsedRatio * 0.8
	}
	s.PauseLeader = pct(t, 15, "pauseLeader")
	s.Busy = pct(t, 15, "busy")
	snap := []int{0, 0, 0, 1, 3, 4, 10}
	s.SendingSnap = Pick(t, snap, "sendSnap")
	s.ReceivingSnap = Pick(t, snap, "recvSnap")
	s.ApplyingSnap = Pick(t, snap, "applySnap")
	s.PendingPeers = Pick(t, []int{0, 0, 1, 16, 17, 100}, "pendingPeers")
	return s
}

// GenCluster draws a cluster: stores 1..n and the options.
func GenCluster(t *rapid.T, g ClusterGen) ClusterSpec {
	g = g.withDefaults()
	n := IntU(t, g.MinStores, g.MaxStores, "nStores")
	c := ClusterSpec{MaxReplicas: 3}
	for i := 1; i <= n; i++ {
		c.Stores = append(c.Stores, GenStore(t, uint64(i), g))
	}
	switch g.Joint {
	case "on":
		c.JointSupported, c.UseJoint = true, true
	case "off":
		c.JointSupported, c.UseJoint = false, rapid.Bool().Draw(t, "useJoint")
	default:
		switch IntU(t, 0, 9, "jointLevel") {
		case 0, 1, 2:
			c.JointSupported, c.UseJoint = false, rapid.Bool().Draw(t, "useJoint")
		case 3, 4:
			c.JointSupported, c.UseJoint = true, false
		default:
			c.JointSupported, c.UseJoint = true, true
		}
	}
	switch g.Rules {
	case "on":
		c.PlacementRules = true
	case "off":
	default:
		c.PlacementRules = pct(t, 30, "rules")
	}
	c.MaxReplicas = Pick(t, []int{3, 3, 3, 1, 2, 4, 5}, "maxReplicas")
	if !g.NoLabels {
		switch IntU(t, 0, 5, "locLabels") {
		case 0:
		case 1:
			c.LocationLabels = []string{"zone"}
		case 2:
			c.LocationLabels = []string{"zone", "host"}
		default:
			c.LocationLabels = []string{"zone", "rack", "host"}
		}
		if len(c.LocationLabels) > 0 && pct(t, 25, "isolation") {
			c.IsolationLevel = Pick(t, c.LocationLabels, "isolationLevel")
		}
		c.StrictlyMatch = pct(t, 10, "strict")
		if pct(t, 50, "rejectLeader") {
			c.RejectLeader = []Label{{"noleader", "true"}}
		}
	}
	c.AllocBase = 1000
	return c
}

// RegionGen tunes GenRegion. Zero values select the defaults in brackets.
type RegionGen struct {
	ID                 uint64 // region id [100]; peer ids are ID+1, ID+2, ...
	MinPeers, MaxPeers int    // [1, 6] (capped by the number of stores)
	// Joint: percent of regions drawn in a joint state (IncomingVoter /
	// DemotingVoter roles, both configurations non-empty) [0].
	Joint int
	// NoLeader: percent of regions without leader [3].
	NoLeader int
	// Unhealthy: percent chance per peer of pending, and of down [12].
	Unhealthy int
	// LearnerPct: percent chance per non-first peer of being a learner [25].
	LearnerPct int
	Start, End string // key range ["", ""]
}

func (g RegionGen) withDefaults() RegionGen {
	if g.ID == 0 {
		g.ID = 100
	}
	if g.MinPeers == 0 {
		g.MinPeers = 1
	}
	if g.MaxPeers == 0 {
		g.MaxPeers = 6
	}
	if g.NoLeader == 0 {
		g.NoLeader = 3
	}
	if g.NoLeader < 0 {
		g.NoLeader = 0
	}
	if g.Unhealthy == 0 {
		g.Unhealthy = 12
	}
	if g.Unhealthy < 0 {
		g.Unhealthy = 0
	}
	if g.LearnerPct == 0 {
		g.LearnerPct = 25
	}
	return g
}

// GenRegion draws a region whose peers live on distinct stores of the
// cluster: at least one voter in each configuration, the leader among the
// peers that can be leader in raft (Voter, IncomingVoter, and — only in a joint
// state — DemotingVoter, which an election can produce), pending and down
// subsets, epochs and sizes.
func GenRegion(t *rapid.T, stores []uint64, g RegionGen) RegionSpec {
	g = g.withDefaults()
	max := g.MaxPeers
	if max > len(stores) {
		max = len(stores)
	}
	min := g.MinPeers
	if min > max {
		min = max
	}
	n := IntU(t, min, max, "nPeers")
	perm := rapid.Permutation(stores).Draw(t, "peerStores")[:n]
	r := RegionSpec{ID: g.ID, Start: g.Start, End: g.End, Leader: -1}
	joint := g.Joint > 0 && pct(t, g.Joint, "joint")
	for i, st := range perm {
		p := PeerSpec{ID: g.ID + 1 + uint64(i), Store: st, Role: Voter}
		if i > 0 && pct(t, g.LearnerPct, "learner") {
			p.Role = Learner
		}
		p.Pending = pct(t, g.Unhealthy, "pending")
		p.Down = pct(t, g.Unhealthy, "down")
		r.Peers = append(r.Peers, p)
	}
	if joint {
		// peer 0 stays a plain Voter (both configurations non-empty); the others
		// may be in transition; at least one is
		k := 0
		for i := 1; i < len(r.Peers); i++ {
			switch IntU(t, 0, 3, "jointRole") {
			case 0:
				r.Peers[i].Role = IncomingVoter
				k++
			case 1:
				r.Peers[i].Role = DemotingVoter
				k++
			}
		}
		if k == 0 && len(r.Peers) > 1 {
			r.Peers[len(r.Peers)-1].Role = Pick(t, []Role{IncomingVoter, DemotingVoter}, "jointRole1")
		}
	}
	if !pct(t, g.NoLeader, "noLeader") {
		var cand []int
		for i, p := range r.Peers {
			if p.Role != Learner {
				cand = append(cand, i)
			}
		}
		r.Leader = Pick(t, cand, "leader")
		// the leader itself is neither pending nor down
		r.Peers[r.Leader].Pending, r.Peers[r.Leader].Down = false, false
	}
	r.Version = uint64(IntU(t, 1, 50, "version"))
	r.ConfVer = uint64(IntU(t, 1, 50, "confVer"))
	r.Size = Pick(t, []int64{0, 1, 10, 96, 144, 1000}, "size")
	r.Keys = r.Size * 1000
	return r
}

// GenRegions draws n regions with contiguous key ranges covering the whole
// key space; region ids are base, base+100, ...; peer ids follow each region id.
func GenRegions(t *rapid.T, stores []uint64, n int, g RegionGen) []RegionSpec {
	g = g.withDefaults()
	var out []RegionSpec
	for i := 0; i < n; i++ {
		gi := g
		gi.ID = g.ID + uint64(i)*100
		gi.Start, gi.End = "", ""
		if i > 0 {
			gi.Start = fmt.Sprintf("k%04d", i)
		}
		if i < n-1 {
			gi.End = fmt.Sprintf("k%04d", i+1)
		}
		out = append(out, GenRegion(t, stores, gi))
	}
	return out
}
