package simkit

import (
	"context"
	"testing"

	"github.com/pingcap/kvproto/pkg/eraftpb"
	"github.com/pingcap/kvproto/pkg/metapb"
	"github.com/pingcap/kvproto/pkg/pdpb"
	"github.com/tikv/pd/server/schedule/filter"
	"github.com/tikv/pd/server/schedule/operator"
	"pgregory.net/rapid"
)

func region3() *Region {
	return NewRegion(RegionSpec{ID: 100, Leader: 0, Version: 5, ConfVer: 7, Peers: []PeerSpec{
		{ID: 101, Store: 1, Role: Voter}, {ID: 102, Store: 2, Role: Voter}, {ID: 103, Store: 3, Role: Learner}}}, nil)
}

func wantCode(t *testing.T, err error, c Code) {
	t.Helper()
	if CodeOf(err) != c {
		t.Fatalf("got %v, want refusal %q", err, c)
	}
}

func TestSimpleChanges(t *testing.T) {
	r := region3()
	wantCode(t, r.Remove(1, 101), LeaderRemoved)
	wantCode(t, r.Demote(1, 101), LeaderDemoted)
	wantCode(t, r.AddLearner(200, 2), StoreOccupied)
	wantCode(t, r.AddLearner(102, 4), DuplicatePeerID)
	wantCode(t, r.Promote(2, 102), WrongRole)
	wantCode(t, r.Promote(3, 999), NoSuchPeer)
	wantCode(t, r.TransferLeader(3), BadTransferTarget)
	wantCode(t, r.TransferLeader(9), BadTransferTarget)
	if r.ConfVer != 7 || len(r.Log) != 0 {
		t.Fatalf("refused commands changed the epoch: %s", r)
	}
	must(t, r.AddLearner(104, 4))
	must(t, r.Promote(4, 104))
	must(t, r.TransferLeader(4))
	must(t, r.Demote(1, 101))
	must(t, r.Remove(1, 0))
	if r.ConfVer != 11 || r.OwnConfVer() != 4 || r.ForeignConfVer() != 0 || r.LeaderStore() != 4 || r.VoterCount() != 2 {
		t.Fatalf("unexpected state %s own=%d", r, r.OwnConfVer())
	}
	must(t, r.Inject(func(r *Region) error { return r.AddLearner(r.IDs.Next(), 5) }))
	if r.OwnConfVer() != 4 || r.ForeignConfVer() != 1 || r.ConfVer != 12 {
		t.Fatalf("foreign tagging wrong: %s own=%d foreign=%d", r, r.OwnConfVer(), r.ForeignConfVer())
	}
	must(t, r.CheckInvariants())
}

func must(t *testing.T, err error) {
	t.Helper()
	if err != nil {
		t.Fatal(err)
	}
}

func TestJoint(t *testing.T) {
	r := region3()
	enter := operator.ChangePeerV2Enter{
		PromoteLearners: []operator.PromoteLearner{{ToStore: 3, PeerID: 103}},
		DemoteVoters:    []operator.DemoteVoter{{ToStore: 1, PeerID: 101}},
	}
	must(t, r.ApplyStep(enter))
	if r.ConfVer != 9 || r.PeerOnStore(3).Role != IncomingVoter || r.PeerOnStore(1).Role != DemotingVoter || r.VoterCount() != 2 {
		t.Fatalf("after enter: %s", r)
	}
	wantCode(t, r.ApplyStep(operator.ChangePeerV2Leave(enter)), LeaveLeaderDemoting)
	wantCode(t, r.Remove(2, 0), JointState)
	wantCode(t, r.ApplyStep(enter), JointState)
	wantCode(t, r.TransferLeader(1), BadTransferTarget) // a DemotingVoter (here: the leader itself) is no transfer target
	must(t, r.TransferLeader(3))
	must(t, r.ApplyStep(operator.ChangePeerV2Leave(enter)))
	if r.ConfVer != 11 || r.PeerOnStore(3).Role != Voter || r.PeerOnStore(1).Role != Learner || r.InJoint() {
		t.Fatalf("after leave: %s", r)
	}
	wantCode(t, r.ChangePeerV2(nil), JointState)
	// vacuous steps are no-ops
	must(t, r.ApplyStep(operator.ChangePeerV2Enter{}))
	must(t, r.ApplyStep(operator.ChangePeerV2Leave{}))
	if r.ConfVer != 11 {
		t.Fatalf("vacuous steps changed the epoch: %s", r)
	}
}

func TestSingleChangeV2(t *testing.T) {
	one := []Change{{Type: eraftpb.ConfChangeType_AddLearnerNode, ID: 102, Store: 2}}
	r := region3()
	must(t, r.ChangePeerV2(one))
	if r.PeerOnStore(2).Role != DemotingVoter || r.ConfVer != 8 {
		t.Fatalf("default: single change should enter joint: %s", r)
	}
	r = region3()
	r.SingleChangeV2Simple = true
	must(t, r.ChangePeerV2(one))
	if r.PeerOnStore(2).Role != Learner || r.ConfVer != 8 || r.InJoint() {
		t.Fatalf("simple mode: %s", r)
	}
}

func TestMessagesMatchSteps(t *testing.T) {
	a, b := region3(), region3()
	must(t, a.ApplyStep(operator.AddLearner{ToStore: 4, PeerID: 104}))
	_, err := b.ApplyResponse(&pdpb.RegionHeartbeatResponse{ChangePeer: &pdpb.ChangePeer{
		ChangeType: eraftpb.ConfChangeType_AddLearnerNode, Peer: &metapb.Peer{Id: 104, StoreId: 4, Role: metapb.PeerRole_Learner}}})
	must(t, err)
	must(t, a.ApplyStep(operator.PromoteLearner{ToStore: 4, PeerID: 104}))
	_, err = b.ApplyResponse(&pdpb.RegionHeartbeatResponse{ChangePeer: &pdpb.ChangePeer{
		ChangeType: eraftpb.ConfChangeType_AddNode, Peer: &metapb.Peer{Id: 104, StoreId: 4}}})
	must(t, err)
	must(t, a.ApplyStep(operator.TransferLeader{FromStore: 1, ToStore: 2}))
	_, err = b.ApplyResponse(&pdpb.RegionHeartbeatResponse{TransferLeader: &pdpb.TransferLeader{Peer: &metapb.Peer{Id: 102, StoreId: 2}}})
	must(t, err)
	must(t, a.ApplyStep(operator.RemovePeer{FromStore: 1}))
	_, err = b.ApplyResponse(&pdpb.RegionHeartbeatResponse{ChangePeer: &pdpb.ChangePeer{
		ChangeType: eraftpb.ConfChangeType_RemoveNode, Peer: &metapb.Peer{Id: 101, StoreId: 1}}})
	must(t, err)
	if a.String() != b.String() {
		t.Fatalf("steps gave %s, messages gave %s", a, b)
	}
	hdr := &pdpb.RegionHeartbeatResponse{RegionId: 100, RegionEpoch: &metapb.RegionEpoch{Version: a.Version, ConfVer: a.ConfVer},
		TargetPeer: &metapb.Peer{Id: 102, StoreId: 2}}
	must(t, a.CheckHeader(hdr))
	hdr.RegionEpoch.ConfVer--
	wantCode(t, a.CheckHeader(hdr), Stale)
	ri := a.ToRegionInfo()
	if ri.GetLeader().GetStoreId() != 2 || len(ri.GetPeers()) != 3 || ri.GetRegionEpoch().GetConfVer() != a.ConfVer {
		t.Fatalf("ToRegionInfo mismatch: %v", ri.GetMeta())
	}
	if back := FromRegionInfo(ri, nil); back.String() != a.String() {
		t.Fatalf("round trip %s != %s", back, a)
	}
}

func TestSplitMerge(t *testing.T) {
	r := NewRegion(RegionSpec{ID: 100, Start: "a", End: "z", Leader: 0, Version: 3, ConfVer: 2, Size: 90, Peers: []PeerSpec{
		{ID: 101, Store: 1, Role: Voter}, {ID: 102, Store: 2, Role: Learner}}}, nil)
	wantCode(t, second(r.Split([]string{"a"})), BadKey)
	nrs, err := r.Split([]string{"f", "m"})
	must(t, err)
	if len(nrs) != 2 || r.Version != 5 || r.StartKey != "m" || r.EndKey != "z" || nrs[0].StartKey != "a" || nrs[1].EndKey != "m" || nrs[0].Version != 5 {
		t.Fatalf("split: %s %v", r, nrs)
	}
	ids := map[uint64]bool{100: true, 101: true, 102: true}
	for _, n := range nrs {
		must(t, n.CheckInvariants())
		for _, id := range append([]uint64{n.ID}, n.Peers[0].ID, n.Peers[1].ID) {
			if ids[id] {
				t.Fatalf("id %d reused", id)
			}
			ids[id] = true
		}
		if n.LeaderStore() != 1 || n.PeerOnStore(2).Role != Learner {
			t.Fatalf("new region %s", n)
		}
	}
	nrs[1].Version = 9
	must(t, nrs[1].MergeInto(r)) // [f,m) into [m,z)
	if !nrs[1].Merged || r.StartKey != "f" || r.Version != 10 {
		t.Fatalf("merge: %s", r)
	}
	wantCode(t, nrs[0].MergeInto(nrs[1]), Gone)
}

func second(_ []*Region, err error) error { return err }

// The spec-side predicates must agree with what pd computes on the built cluster.
func TestSpecPredicatesAgreeWithPD(t *testing.T) {
	rapid.Check(t, func(rt *rapid.T) {
		spec := GenCluster(rt, ClusterGen{})
		mc, cancel := Build(context.Background(), spec)
		defer cancel()
		for i := range spec.Stores {
			s := &spec.Stores[i]
			st := mc.GetStore(s.ID)
			if st == nil {
				rt.Fatalf("store %d missing", s.ID)
			}
			f := &filter.StoreStateFilter{ActionScope: "t", TransferLeader: true}
			if got, want := f.Target(mc.GetOpts(), st), spec.AcceptsLeader(s.ID); got != want {
				rt.Fatalf("store %+v: leader target filter says %v, spec predicate %v (%s)", *s, got, want, f.Reason)
			}
			if got, want := st.IsLowSpace(mc.GetOpts().GetLowSpaceRatio()), spec.IsLowSpace(s); got != want {
				rt.Fatalf("store %+v: IsLowSpace %v, spec predicate %v", *s, got, want)
			}
			if st.IsDisconnected() == s.IsConnected() || st.IsUp() != s.IsUp() || st.IsOffline() != s.IsOffline() || st.IsTombstone() != s.IsTombstone() {
				rt.Fatalf("store %+v: state predicates disagree", *s)
			}
			if (st.DownTime() > mc.GetOpts().GetMaxStoreDownTime()) != spec.IsDown(s) {
				rt.Fatalf("store %+v: down predicate disagrees", *s)
			}
		}
		id, _ := mc.AllocID()
		if id <= spec.AllocBase {
			rt.Fatalf("allocated id %d not above AllocBase %d", id, spec.AllocBase)
		}
		if mc.GetOpts().IsUseJointConsensus() != spec.UseJoint || mc.GetOpts().IsPlacementRulesEnabled() != spec.PlacementRules {
			rt.Fatalf("options not applied")
		}
		reg := GenRegion(rt, spec.StoreIDs(), RegionGen{Joint: 30})
		sim := NewRegion(reg, nil)
		if err := sim.CheckInvariants(); err != nil {
			rt.Fatalf("generated region invalid: %v", err)
		}
		ri := PutRegion(mc, reg)
		if ri.GetLeader().GetStoreId() != reg.LeaderStore() || len(ri.GetPeers()) != len(reg.Peers) {
			rt.Fatalf("region conversion mismatch")
		}
	})
}
