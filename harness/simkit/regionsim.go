// Package simkit holds what the operator/checker/scheduler properties (C08-C11)
// share: an independent reference simulator of raft membership changes with
// TiKV semantics ("regionsim", this file), plain-data cluster and region specs
// with rapid generators (gen.go) and a Build function that turns a spec into a
// mockcluster (build.go).
//
// The simulator is written from the TiKV / raft-rs conf-change rules, NOT by
// calling pd's step code: the pd step types are consumed as data only (their
// fields), never through their methods.
//
// Semantics assumed (TiKV raftstore, apply of AdminCmd ChangePeer / ChangePeerV2 /
// TransferLeader / Split / CommitMerge):
//
//   - simple change (ChangePeer, or ChangePeerV2 with exactly one change when
//     SingleChangeV2Simple is set): AddLearnerNode on an empty store adds a
//     learner, AddNode on an empty store adds a voter, AddNode on a learner with
//     the same peer id promotes it, AddLearnerNode on a voter with the same id
//     demotes it, RemoveNode removes the peer; each bumps conf_ver by 1. It is
//     refused when it would remove or demote the current leader, when the
//     store already holds a peer with another id, when the peer id is already
//     used, when the peer already has the requested role, when the region is in
//     a joint state, or when it would leave the region without voters.
//   - ChangePeerV2 with n changes enters the joint state: learner -> IncomingVoter,
//     voter -> DemotingVoter (the leader MAY become DemotingVoter, TiKV allows
//     that in a joint change), new peers are added as IncomingVoter (AddNode)
//     or Learner (AddLearnerNode), learners may be removed, voters may not be
//     removed directly; conf_ver += n. Refused when already joint, when two
//     changes name one peer, when no change produces a joint role, when either
//     configuration would be left without voters.
//   - empty ChangePeerV2 leaves the joint state: IncomingVoter -> Voter,
//     DemotingVoter -> Learner, conf_ver += number of joint peers. This is what
//     TiKV's apply_leave_joint does (change_num counts the peers whose role was
//     rewritten) and it equals what pd's ChangePeerV2Leave.ConfVerChanged claims
//     (len(PromoteLearners)+len(DemoteVoters)) whenever the Leave step lists
//     exactly the joint peers. Refused when not joint or when the leader is a
//     DemotingVoter (TiKV rejects demoting its own leader).
//   - TransferLeader only to a present Voter or IncomingVoter.
//   - Split: version += number of new regions, new region and peer ids are
//     fresh, peers keep stores and roles, the original region keeps the right
//     (RightDerive, TiKV's default) or left part. Merge: the target's version
//     becomes max(source, target)+1 and its range is extended; the source is gone.
//
// Every epoch bump is logged and tagged own (caused by a consumed command) or
// foreign (performed inside Inject).
package simkit

import (
	"fmt"
	"sort"
	"strings"

	"github.com/pingcap/kvproto/pkg/eraftpb"
	"github.com/pingcap/kvproto/pkg/metapb"
	"github.com/pingcap/kvproto/pkg/pdpb"
	"github.com/tikv/pd/server/core"
	"github.com/tikv/pd/server/schedule/operator"
)

// Role is the raft role of a peer, as a readable JSON string.
type Role string

// Roles.
const (
	Voter         Role = "voter"
	Learner       Role = "learner"
	IncomingVoter Role = "incoming"
	DemotingVoter Role = "demoting"
)

// Meta converts to the protobuf role.
func (r Role) Meta() metapb.PeerRole {
	switch r {
	case Learner:
		return metapb.PeerRole_Learner
	case IncomingVoter:
		return metapb.PeerRole_IncomingVoter
	case DemotingVoter:
		return metapb.PeerRole_DemotingVoter
	}
	return metapb.PeerRole_Voter
}

// RoleOf converts from the protobuf role.
func RoleOf(r metapb.PeerRole) Role {
	switch r {
	case metapb.PeerRole_Learner:
		return Learner
	case metapb.PeerRole_IncomingVoter:
		return IncomingVoter
	case metapb.PeerRole_DemotingVoter:
		return DemotingVoter
	}
	return Voter
}

// InIncoming: member of the incoming (new) voter configuration.
func (r Role) InIncoming() bool { return r == Voter || r == IncomingVoter }

// InOutgoing: member of the outgoing (old) voter configuration.
func (r Role) InOutgoing() bool { return r == Voter || r == DemotingVoter }

// Joint: one of the two transitional roles.
func (r Role) Joint() bool { return r == IncomingVoter || r == DemotingVoter }

// CanLead: may receive leadership by TransferLeader.
func (r Role) CanLead() bool { return r == Voter || r == IncomingVoter }

// Peer is one replica.
type Peer struct {
	ID      uint64 `json:"id"`
	Store   uint64 `json:"store"`
	Role    Role   `json:"role"`
	Pending bool   `json:"pending,omitempty"`
	Down    bool   `json:"down,omitempty"`
}

// Code classifies why the simulated store refused a command.
type Code string

// Refusal codes.
const (
	LeaderRemoved       Code = "leader-removed"        // RemoveNode on the current leader
	LeaderDemoted       Code = "leader-demoted"        // simple AddLearnerNode on the current leader
	LeaveLeaderDemoting Code = "leave-leader-demoting" // leave joint while the leader is a DemotingVoter
	BadTransferTarget   Code = "bad-transfer-target"   // absent / learner / demoting transfer target
	StoreOccupied       Code = "store-occupied"        // add on a store that already holds another peer
	DuplicatePeerID     Code = "duplicate-peer-id"     // add with a peer id that is already in the region
	NoSuchPeer          Code = "no-such-peer"          // promote/demote/remove of an absent peer (or id mismatch)
	WrongRole           Code = "wrong-role"            // peer already has the requested role / role cannot change that way
	JointState          Code = "joint-state"           // command not allowed in (or out of) the joint state
	NoVoter             Code = "no-voter"              // a voter configuration would become empty
	Stale               Code = "stale"                 // message header does not match region id / epoch / leader
	BadKey              Code = "bad-key"               // split key outside the range, merge of non-adjacent regions
	Gone                Code = "gone"                  // region was merged away
	Unsupported         Code = "unsupported"           // unknown step / message
)

// Refusal is the error returned when the simulated store refuses a command.
type Refusal struct {
	Code Code
	Msg  string
}

func (e *Refusal) Error() string { return string(e.Code) + ": " + e.Msg }

func refuse(c Code, format string, a ...interface{}) error {
	return &Refusal{Code: c, Msg: fmt.Sprintf(format, a...)}
}

// CodeOf returns the refusal code of err ("" for nil or foreign errors).
func CodeOf(err error) Code {
	if r, ok := err.(*Refusal); ok {
		return r.Code
	}
	return ""
}

// Bump is one logged epoch change.
type Bump struct {
	Cmd     string `json:"cmd"`
	ConfVer uint64 `json:"conf_ver,omitempty"` // delta
	Version uint64 `json:"version,omitempty"`  // delta
	Foreign bool   `json:"foreign,omitempty"`
}

// IDAlloc hands out fresh ids (regions, peers). Ids never repeat and never
// collide with a reserved id.
type IDAlloc struct{ next uint64 }

// NewIDAlloc returns an allocator whose first id is base+1.
func NewIDAlloc(base uint64) *IDAlloc { return &IDAlloc{next: base} }

// Next returns a fresh id.
func (a *IDAlloc) Next() uint64 { a.next++; return a.next }

// Reserve makes sure none of ids is ever returned.
func (a *IDAlloc) Reserve(ids ...uint64) {
	for _, id := range ids {
		if id > a.next {
			a.next = id
		}
	}
}

// Region is the simulated state of one region on its (faithful) stores.
type Region struct {
	ID       uint64
	StartKey string
	EndKey   string // "" = +inf
	Peers    []Peer // insertion order
	Leader   uint64 // peer id of the leader, 0 = none/unknown
	Version  uint64
	ConfVer  uint64
	Size     int64
	Keys     int64

	IDs *IDAlloc // source of ids for splits and injected peers
	Log []Bump   // every epoch bump, tagged own / foreign

	Merged bool // region was merged into another one (no longer exists)

	// SingleChangeV2Simple selects how a ChangePeerV2 carrying exactly one
	// change is applied: false (default, DESIGN 3.6) = enters the joint state
	// like any n>=1; true = applied as a simple change, which is what TiKV's
	// ConfChangeKind::confchange_kind(1) == Simple does.
	SingleChangeV2Simple bool
	// LeftDerive: on split the original region keeps the left part
	// (default false = TiKV's right-derive-when-split).
	LeftDerive bool

	// LeaderCopy selects what ToRegionInfo passes as the leader object, i.e. the
	// heartbeat's separate `leader` message (core.RegionFromHeartbeat hands it to
	// NewRegionInfo as is): "" = the very entry of the peer list (what pd's own
	// tests do); "bare" = a separate message carrying only Id and StoreId (role
	// zero = Voter); "stale" = a separate copy whose role is the one before the
	// joint state was entered (DemotingVoter -> Voter, IncomingVoter -> Learner).
	// The peer list stays the source of truth for roles in every mode.
	LeaderCopy string

	foreign bool
}

// Leader-copy modes (Region.LeaderCopy).
const (
	LeaderFromPeerList = ""
	LeaderBare         = "bare"
	LeaderStaleRole    = "stale"
)

// NewRegion creates the simulator state from a spec. ids may be nil (a private
// allocator above every id of the spec is created).
func NewRegion(s RegionSpec, ids *IDAlloc) *Region {
	if ids == nil {
		ids = NewIDAlloc(1 << 20)
	}
	r := &Region{ID: s.ID, StartKey: s.Start, EndKey: s.End, Version: s.Version, ConfVer: s.ConfVer,
		Size: s.Size, Keys: s.Keys, IDs: ids}
	ids.Reserve(s.ID)
	for i, p := range s.Peers {
		r.Peers = append(r.Peers, Peer{ID: p.ID, Store: p.Store, Role: p.Role, Pending: p.Pending, Down: p.Down})
		ids.Reserve(p.ID)
		if i == s.Leader {
			r.Leader = p.ID
		}
	}
	return r
}

// FromRegionInfo creates the simulator state from a pd region.
func FromRegionInfo(ri *core.RegionInfo, ids *IDAlloc) *Region {
	if ids == nil {
		ids = NewIDAlloc(1 << 20)
	}
	r := &Region{ID: ri.GetID(), StartKey: string(ri.GetStartKey()), EndKey: string(ri.GetEndKey()),
		Version: ri.GetRegionEpoch().GetVersion(), ConfVer: ri.GetRegionEpoch().GetConfVer(),
		Size: ri.GetApproximateSize(), Keys: ri.GetApproximateKeys(), IDs: ids}
	ids.Reserve(r.ID)
	for _, p := range ri.GetPeers() {
		r.Peers = append(r.Peers, Peer{ID: p.GetId(), Store: p.GetStoreId(), Role: RoleOf(p.GetRole()),
			Pending: ri.GetPendingPeer(p.GetId()) != nil, Down: ri.GetDownPeer(p.GetId()) != nil})
		ids.Reserve(p.GetId())
	}
	r.Leader = ri.GetLeader().GetId()
	return r
}

// Clone copies the state (the id allocator is shared, the log is copied).
func (r *Region) Clone() *Region {
	c := *r
	c.Peers = append([]Peer(nil), r.Peers...)
	c.Log = append([]Bump(nil), r.Log...)
	return &c
}

// ---------------------------------------------------------------- queries

// PeerOnStore returns the peer on a store (nil if none).
func (r *Region) PeerOnStore(store uint64) *Peer {
	for i := range r.Peers {
		if r.Peers[i].Store == store {
			return &r.Peers[i]
		}
	}
	return nil
}

// PeerByID returns the peer with that id (nil if none).
func (r *Region) PeerByID(id uint64) *Peer {
	if id == 0 {
		return nil
	}
	for i := range r.Peers {
		if r.Peers[i].ID == id {
			return &r.Peers[i]
		}
	}
	return nil
}

// LeaderPeer returns the leader (nil if none).
func (r *Region) LeaderPeer() *Peer { return r.PeerByID(r.Leader) }

// LeaderStore returns the store of the leader (0 if none).
func (r *Region) LeaderStore() uint64 {
	if p := r.LeaderPeer(); p != nil {
		return p.Store
	}
	return 0
}

// InJoint reports whether any peer has a joint role.
func (r *Region) InJoint() bool { return r.JointCount() > 0 }

// JointCount counts peers with a joint role.
func (r *Region) JointCount() int {
	n := 0
	for _, p := range r.Peers {
		if p.Role.Joint() {
			n++
		}
	}
	return n
}

// OutgoingVoters counts Voter+DemotingVoter, IncomingVoters counts Voter+IncomingVoter.
func (r *Region) OutgoingVoters() int {
	n := 0
	for _, p := range r.Peers {
		if p.Role.InOutgoing() {
			n++
		}
	}
	return n
}

// IncomingVoters counts Voter+IncomingVoter.
func (r *Region) IncomingVoters() int {
	n := 0
	for _, p := range r.Peers {
		if p.Role.InIncoming() {
			n++
		}
	}
	return n
}

// VoterCount is the number of voters that protect the data: outside a joint
// state the voters, inside the smaller of the outgoing and incoming configuration.
func (r *Region) VoterCount() int {
	o, i := r.OutgoingVoters(), r.IncomingVoters()
	if i < o {
		return i
	}
	return o
}

// RoleByStore returns store -> role.
func (r *Region) RoleByStore() map[uint64]Role {
	m := make(map[uint64]Role, len(r.Peers))
	for _, p := range r.Peers {
		m[p.Store] = p.Role
	}
	return m
}

// OwnConfVer / ForeignConfVer sum the logged conf_ver bumps by tag.
func (r *Region) OwnConfVer() uint64     { return r.sumConf(false) }
func (r *Region) ForeignConfVer() uint64 { return r.sumConf(true) }

func (r *Region) sumConf(foreign bool) uint64 {
	var n uint64
	for _, b := range r.Log {
		if b.Foreign == foreign {
			n += b.ConfVer
		}
	}
	return n
}

// String renders the state compactly: "r7 v1c5 [1:voter* 2:learner 3:incoming]".
func (r *Region) String() string {
	var sb strings.Builder
	fmt.Fprintf(&sb, "r%d v%dc%d [", r.ID, r.Version, r.ConfVer)
	for i, p := range r.Peers {
		if i > 0 {
			sb.WriteByte(' ')
		}
		fmt.Fprintf(&sb, "%d:%s", p.Store, p.Role)
		if p.ID == r.Leader {
			sb.WriteByte('*')
		}
	}
	sb.WriteByte(']')
	return sb.String()
}

// ---------------------------------------------------------------- safety predicates

// CheckOnePeerPerStore: never two peers on one store, never two peers with one id.
func (r *Region) CheckOnePeerPerStore() error {
	stores, ids := map[uint64]bool{}, map[uint64]bool{}
	for _, p := range r.Peers {
		if stores[p.Store] {
			return fmt.Errorf("two peers on store %d in %s", p.Store, r)
		}
		if ids[p.ID] {
			return fmt.Errorf("two peers with id %d in %s", p.ID, r)
		}
		stores[p.Store], ids[p.ID] = true, true
	}
	return nil
}

// CheckLeader: the leader, when known, is a present peer that is a member of
// a voter configuration (Voter, IncomingVoter or DemotingVoter).
func (r *Region) CheckLeader() error {
	if r.Leader == 0 {
		return nil
	}
	p := r.LeaderPeer()
	if p == nil {
		return fmt.Errorf("leader peer %d is not in %s", r.Leader, r)
	}
	if p.Role == Learner {
		return fmt.Errorf("leader on store %d is a learner in %s", p.Store, r)
	}
	return nil
}

// CheckVoterCount: VoterCount() >= min.
func (r *Region) CheckVoterCount(min int) error {
	if n := r.VoterCount(); n < min {
		return fmt.Errorf("voter count %d (outgoing %d, incoming %d) below %d in %s", n, r.OutgoingVoters(), r.IncomingVoters(), min, r)
	}
	return nil
}

// CheckInvariants = one peer per store, leader sane, both configurations non-empty.
func (r *Region) CheckInvariants() error {
	if err := r.CheckOnePeerPerStore(); err != nil {
		return err
	}
	if err := r.CheckLeader(); err != nil {
		return err
	}
	if len(r.Peers) > 0 && r.VoterCount() == 0 {
		return fmt.Errorf("a voter configuration is empty in %s", r)
	}
	return nil
}

// CanRemove: the leader is never removed.
func (r *Region) CanRemove(store uint64) error {
	p := r.PeerOnStore(store)
	if p == nil {
		return refuse(NoSuchPeer, "no peer on store %d in %s", store, r)
	}
	if p.ID == r.Leader {
		return refuse(LeaderRemoved, "remove of the current leader on store %d in %s", store, r)
	}
	return nil
}

// CanDemote: the leader is never demoted by a simple change.
func (r *Region) CanDemote(store uint64) error {
	p := r.PeerOnStore(store)
	if p == nil {
		return refuse(NoSuchPeer, "no peer on store %d in %s", store, r)
	}
	if p.ID == r.Leader {
		return refuse(LeaderDemoted, "demote of the current leader on store %d in %s", store, r)
	}
	return nil
}

// CanTransferTo: the transfer target must be a present Voter or IncomingVoter.
func (r *Region) CanTransferTo(store uint64) error {
	p := r.PeerOnStore(store)
	if p == nil {
		return refuse(BadTransferTarget, "transfer leader to store %d which holds no peer in %s", store, r)
	}
	if !p.Role.CanLead() {
		return refuse(BadTransferTarget, "transfer leader to the %s on store %d in %s", p.Role, store, r)
	}
	return nil
}

// CanAdd: an add needs an empty store and an unused peer id.
func (r *Region) CanAdd(id, store uint64) error {
	if p := r.PeerOnStore(store); p != nil {
		return refuse(StoreOccupied, "add peer %d on store %d which still holds peer %d (%s) in %s", id, store, p.ID, p.Role, r)
	}
	if r.PeerByID(id) != nil {
		return refuse(DuplicatePeerID, "add peer %d on store %d: id already used in %s", id, store, r)
	}
	return nil
}

// CanLeave: leaving the joint state never finds the leader demoting.
func (r *Region) CanLeave() error {
	if !r.InJoint() {
		return refuse(JointState, "leave joint state but %s is not joint", r)
	}
	if p := r.LeaderPeer(); p != nil && p.Role == DemotingVoter {
		return refuse(LeaveLeaderDemoting, "leave joint state while the leader on store %d is still demoting in %s", p.Store, r)
	}
	return nil
}

// ---------------------------------------------------------------- commands

// Inject runs fn with every epoch bump tagged foreign (a change made by
// "someone else" than the commands under observation).
func (r *Region) Inject(fn func(r *Region) error) error {
	old := r.foreign
	r.foreign = true
	defer func() { r.foreign = old }()
	return fn(r)
}

func (r *Region) bump(cmd string, conf, ver uint64) {
	r.ConfVer += conf
	r.Version += ver
	r.Log = append(r.Log, Bump{Cmd: cmd, ConfVer: conf, Version: ver, Foreign: r.foreign})
}

func (r *Region) alive() error {
	if r.Merged {
		return refuse(Gone, "region %d was merged away", r.ID)
	}
	return nil
}

func (r *Region) simpleAllowed(cmd string) error {
	if err := r.alive(); err != nil {
		return err
	}
	if r.InJoint() {
		return refuse(JointState, "%s: simple conf change while %s is in joint state", cmd, r)
	}
	return nil
}

// AddLearner adds a new learner (simple change).
func (r *Region) AddLearner(id, store uint64) error {
	if err := r.simpleAllowed("add learner"); err != nil {
		return err
	}
	if err := r.CanAdd(id, store); err != nil {
		return err
	}
	r.Peers = append(r.Peers, Peer{ID: id, Store: store, Role: Learner})
	r.IDs.Reserve(id)
	r.bump(fmt.Sprintf("add learner %d@%d", id, store), 1, 0)
	return nil
}

// AddVoter adds a new voter directly (simple change, AddNode on an empty store).
func (r *Region) AddVoter(id, store uint64) error {
	if err := r.simpleAllowed("add voter"); err != nil {
		return err
	}
	if err := r.CanAdd(id, store); err != nil {
		return err
	}
	r.Peers = append(r.Peers, Peer{ID: id, Store: store, Role: Voter})
	r.IDs.Reserve(id)
	r.bump(fmt.Sprintf("add voter %d@%d", id, store), 1, 0)
	return nil
}

// find resolves (store, id): id 0 means "whatever is on the store".
func (r *Region) find(store, id uint64) (*Peer, error) {
	p := r.PeerOnStore(store)
	if p == nil {
		return nil, refuse(NoSuchPeer, "no peer on store %d in %s", store, r)
	}
	if id != 0 && p.ID != id {
		return nil, refuse(NoSuchPeer, "store %d holds peer %d, not %d, in %s", store, p.ID, id, r)
	}
	return p, nil
}

// Promote turns a learner into a voter (simple change, AddNode on a learner).
func (r *Region) Promote(store, id uint64) error {
	if err := r.simpleAllowed("promote"); err != nil {
		return err
	}
	p, err := r.find(store, id)
	if err != nil {
		return err
	}
	if p.Role != Learner {
		return refuse(WrongRole, "promote of the %s on store %d in %s", p.Role, store, r)
	}
	p.Role = Voter
	r.bump(fmt.Sprintf("promote %d@%d", p.ID, store), 1, 0)
	return nil
}

// Demote turns a voter into a learner (simple change, AddLearnerNode on a voter).
func (r *Region) Demote(store, id uint64) error {
	if err := r.simpleAllowed("demote"); err != nil {
		return err
	}
	p, err := r.find(store, id)
	if err != nil {
		return err
	}
	if p.Role != Voter {
		return refuse(WrongRole, "demote of the %s on store %d in %s", p.Role, store, r)
	}
	if err := r.CanDemote(store); err != nil {
		return err
	}
	if r.VoterCount() <= 1 {
		return refuse(NoVoter, "demote of the last voter on store %d in %s", store, r)
	}
	p.Role = Learner
	r.bump(fmt.Sprintf("demote %d@%d", p.ID, store), 1, 0)
	return nil
}

// Remove removes a peer (simple change).
func (r *Region) Remove(store, id uint64) error {
	if err := r.simpleAllowed("remove"); err != nil {
		return err
	}
	p, err := r.find(store, id)
	if err != nil {
		return err
	}
	if err := r.CanRemove(store); err != nil {
		return err
	}
	if p.Role == Voter && r.VoterCount() <= 1 {
		return refuse(NoVoter, "remove of the last voter on store %d in %s", store, r)
	}
	pid := p.ID
	r.drop(store)
	r.bump(fmt.Sprintf("remove %d@%d", pid, store), 1, 0)
	return nil
}

func (r *Region) drop(store uint64) {
	out := r.Peers[:0]
	for _, p := range r.Peers {
		if p.Store != store {
			out = append(out, p)
		}
	}
	r.Peers = out
}

// Change is one element of a (V1 or V2) conf change request.
type Change struct {
	Type  eraftpb.ConfChangeType
	ID    uint64
	Store uint64
}

func (c Change) String() string { return fmt.Sprintf("%s %d@%d", c.Type, c.ID, c.Store) }

// ChangePeer applies a simple conf change the way TiKV dispatches it on the
// (change type, existing peer) pair.
func (r *Region) ChangePeer(c Change) error {
	switch c.Type {
	case eraftpb.ConfChangeType_AddNode:
		if p := r.PeerOnStore(c.Store); p != nil {
			if p.ID != c.ID {
				if err := r.simpleAllowed("add voter"); err != nil {
					return err
				}
				return r.CanAdd(c.ID, c.Store)
			}
			return r.Promote(c.Store, c.ID)
		}
		return r.AddVoter(c.ID, c.Store)
	case eraftpb.ConfChangeType_AddLearnerNode:
		if p := r.PeerOnStore(c.Store); p != nil {
			if p.ID != c.ID {
				if err := r.simpleAllowed("add learner"); err != nil {
					return err
				}
				return r.CanAdd(c.ID, c.Store)
			}
			return r.Demote(c.Store, c.ID)
		}
		return r.AddLearner(c.ID, c.Store)
	case eraftpb.ConfChangeType_RemoveNode:
		return r.Remove(c.Store, c.ID)
	}
	return refuse(Unsupported, "conf change type %v", c.Type)
}

// ChangePeerV2 applies a joint conf change request: no change = leave the
// joint state, otherwise enter it (see the package comment).
func (r *Region) ChangePeerV2(changes []Change) error {
	if err := r.alive(); err != nil {
		return err
	}
	switch {
	case len(changes) == 0:
		return r.leaveJoint()
	case len(changes) == 1 && r.SingleChangeV2Simple:
		return r.ChangePeer(changes[0])
	}
	if r.InJoint() {
		return refuse(JointState, "enter joint state but %s is already joint", r)
	}
	// validate on a copy, then commit
	c := r.Clone()
	seenStore := map[uint64]bool{}
	jointRoles := 0
	for _, ch := range changes {
		if seenStore[ch.Store] {
			return refuse(WrongRole, "two changes for the peer on store %d in one request", ch.Store)
		}
		seenStore[ch.Store] = true
		p := c.PeerOnStore(ch.Store)
		switch ch.Type {
		case eraftpb.ConfChangeType_AddNode:
			if p == nil {
				if err := c.CanAdd(ch.ID, ch.Store); err != nil {
					return err
				}
				c.Peers = append(c.Peers, Peer{ID: ch.ID, Store: ch.Store, Role: IncomingVoter})
				jointRoles++
				continue
			}
			if p.ID != ch.ID {
				return c.CanAdd(ch.ID, ch.Store)
			}
			if p.Role != Learner {
				return refuse(WrongRole, "joint promote of the %s on store %d in %s", p.Role, ch.Store, r)
			}
			p.Role = IncomingVoter
			jointRoles++
		case eraftpb.ConfChangeType_AddLearnerNode:
			if p == nil {
				if err := c.CanAdd(ch.ID, ch.Store); err != nil {
					return err
				}
				c.Peers = append(c.Peers, Peer{ID: ch.ID, Store: ch.Store, Role: Learner})
				continue
			}
			if p.ID != ch.ID {
				return c.CanAdd(ch.ID, ch.Store)
			}
			if p.Role != Voter {
				return refuse(WrongRole, "joint demote of the %s on store %d in %s", p.Role, ch.Store, r)
			}
			p.Role = DemotingVoter // the leader may become DemotingVoter; it has to move before Leave
			jointRoles++
		case eraftpb.ConfChangeType_RemoveNode:
			if p == nil || (ch.ID != 0 && p.ID != ch.ID) {
				return refuse(NoSuchPeer, "joint remove of absent peer %d@%d in %s", ch.ID, ch.Store, r)
			}
			if p.Role != Learner {
				return refuse(WrongRole, "joint change cannot remove the %s on store %d directly in %s", p.Role, ch.Store, r)
			}
			c.drop(ch.Store)
		default:
			return refuse(Unsupported, "conf change type %v", ch.Type)
		}
	}
	if jointRoles == 0 {
		return refuse(Unsupported, "joint request with %d changes that only touch learners", len(changes))
	}
	if c.IncomingVoters() == 0 || c.OutgoingVoters() == 0 {
		return refuse(NoVoter, "joint change would leave a configuration without voters: %s", c)
	}
	r.Peers = c.Peers
	for _, ch := range changes {
		r.IDs.Reserve(ch.ID)
	}
	r.bump(fmt.Sprintf("enter joint %v", changes), uint64(len(changes)), 0)
	return nil
}

func (r *Region) leaveJoint() error {
	if err := r.CanLeave(); err != nil {
		return err
	}
	n := 0
	for i := range r.Peers {
		switch r.Peers[i].Role {
		case IncomingVoter:
			r.Peers[i].Role = Voter
			n++
		case DemotingVoter:
			r.Peers[i].Role = Learner
			n++
		}
	}
	r.bump("leave joint", uint64(n), 0)
	return nil
}

// TransferLeader moves leadership to the peer on store.
func (r *Region) TransferLeader(store uint64) error {
	if err := r.alive(); err != nil {
		return err
	}
	if err := r.CanTransferTo(store); err != nil {
		return err
	}
	r.Leader = r.PeerOnStore(store).ID
	return nil
}

// SetLeader forces the leader (an election outcome), peer id 0 = none. No check.
func (r *Region) SetLeader(peerID uint64) { r.Leader = peerID }

// SetPending / SetDown change the health flags of the peer on store.
func (r *Region) SetPending(store uint64, v bool) {
	if p := r.PeerOnStore(store); p != nil {
		p.Pending = v
	}
}

// SetDown marks the peer on store as down (or not).
func (r *Region) SetDown(store uint64, v bool) {
	if p := r.PeerOnStore(store); p != nil {
		p.Down = v
	}
}

func inRange(k, start, end string) bool { return k > start && (end == "" || k < end) }

// Split splits at keys (sorted, strictly inside the range). With n keys the
// region becomes n+1 regions; version += n for all of them; the original keeps
// the last part (or the first with LeftDerive). Returns the new regions in key order.
func (r *Region) Split(keys []string) ([]*Region, error) {
	if err := r.alive(); err != nil {
		return nil, err
	}
	if len(keys) == 0 {
		return nil, refuse(BadKey, "split without keys")
	}
	for i, k := range keys {
		if !inRange(k, r.StartKey, r.EndKey) || (i > 0 && keys[i-1] >= k) {
			return nil, refuse(BadKey, "split keys %q not sorted strictly inside [%q,%q)", keys, r.StartKey, r.EndKey)
		}
	}
	bounds := append(append([]string{r.StartKey}, keys...), r.EndKey)
	n := len(keys)
	keep := n // index of the part the original keeps
	if r.LeftDerive {
		keep = 0
	}
	r.bump(fmt.Sprintf("split %q", keys), 0, uint64(n))
	leaderStore := r.LeaderStore()
	size, ks := r.Size/int64(n+1), r.Keys/int64(n+1)
	var out []*Region
	for i := 0; i <= n; i++ {
		if i == keep {
			continue
		}
		nr := &Region{ID: r.IDs.Next(), StartKey: bounds[i], EndKey: bounds[i+1], Version: r.Version, ConfVer: r.ConfVer,
			Size: size, Keys: ks, IDs: r.IDs, SingleChangeV2Simple: r.SingleChangeV2Simple, LeftDerive: r.LeftDerive}
		for _, p := range r.Peers {
			np := Peer{ID: r.IDs.Next(), Store: p.Store, Role: p.Role}
			nr.Peers = append(nr.Peers, np)
			if p.Store == leaderStore {
				nr.Leader = np.ID
			}
		}
		out = append(out, nr)
	}
	r.StartKey, r.EndKey = bounds[keep], bounds[keep+1]
	r.Size, r.Keys = size, ks
	return out, nil
}

// MergeInto merges r (source) into target: both out of joint state, adjacent,
// same stores with the same learner-ness. target.Version = max+1, the range is
// extended, r is gone.
func (r *Region) MergeInto(target *Region) error {
	if err := r.alive(); err != nil {
		return err
	}
	if err := target.alive(); err != nil {
		return err
	}
	if r.InJoint() || target.InJoint() {
		return refuse(JointState, "merge of %s into %s in joint state", r, target)
	}
	if len(r.Peers) != len(target.Peers) {
		return refuse(WrongRole, "merge: peers of %s and %s do not match", r, target)
	}
	for _, p := range r.Peers {
		q := target.PeerOnStore(p.Store)
		if q == nil || (q.Role == Learner) != (p.Role == Learner) {
			return refuse(WrongRole, "merge: peers of %s and %s do not match", r, target)
		}
	}
	if err := target.absorb(r.StartKey, r.EndKey, r.Version, r.Size, r.Keys); err != nil {
		return err
	}
	r.Merged = true
	return nil
}

func (r *Region) absorb(start, end string, version uint64, size, keys int64) error {
	switch {
	case end != "" && end == r.StartKey:
		r.StartKey = start
	case r.EndKey != "" && r.EndKey == start:
		r.EndKey = end
	default:
		return refuse(BadKey, "merge of non-adjacent ranges [%q,%q) and [%q,%q)", start, end, r.StartKey, r.EndKey)
	}
	nv := r.Version
	if version > nv {
		nv = version
	}
	r.bump("merge", 0, nv+1-r.Version)
	r.Size += size
	r.Keys += keys
	return nil
}

// ---------------------------------------------------------------- consuming pd steps and messages

// ApplyStep executes one pd operator step the way a faithful store would
// execute the command pd sends for it. The step is read as data only.
// A ChangePeerV2Enter that lists no change, and a ChangePeerV2Leave that lists
// no peer while the region is not joint, are vacuous: nothing is sent for them
// and the state does not change.
func (r *Region) ApplyStep(step operator.OpStep) error {
	switch st := step.(type) {
	case operator.AddPeer:
		return r.AddVoter(st.PeerID, st.ToStore)
	case operator.AddLightPeer:
		return r.AddVoter(st.PeerID, st.ToStore)
	case operator.AddLearner:
		return r.AddLearner(st.PeerID, st.ToStore)
	case operator.AddLightLearner:
		return r.AddLearner(st.PeerID, st.ToStore)
	case operator.PromoteLearner:
		return r.Promote(st.ToStore, st.PeerID)
	case operator.DemoteFollower:
		return r.Demote(st.ToStore, st.PeerID)
	case operator.RemovePeer:
		return r.Remove(st.FromStore, st.PeerID)
	case operator.TransferLeader:
		return r.TransferLeader(st.ToStore)
	case operator.ChangePeerV2Enter:
		var cs []Change
		for _, pl := range st.PromoteLearners {
			cs = append(cs, Change{Type: eraftpb.ConfChangeType_AddNode, ID: pl.PeerID, Store: pl.ToStore})
		}
		for _, dv := range st.DemoteVoters {
			cs = append(cs, Change{Type: eraftpb.ConfChangeType_AddLearnerNode, ID: dv.PeerID, Store: dv.ToStore})
		}
		if len(cs) == 0 {
			// vacuous step (the builder emits it when a joint plan only adds or
			// removes learners): it asks for nothing, pd never sends a command for it
			return r.alive()
		}
		return r.ChangePeerV2(cs)
	case operator.ChangePeerV2Leave:
		if len(st.PromoteLearners)+len(st.DemoteVoters) == 0 && !r.InJoint() {
			return r.alive() // vacuous counterpart of the vacuous Enter
		}
		return r.ChangePeerV2(nil)
	case operator.SplitRegion:
		keys := make([]string, 0, len(st.SplitKeys))
		for _, k := range st.SplitKeys {
			keys = append(keys, string(k))
		}
		if len(keys) == 0 {
			keys = []string{r.midKey()}
		}
		sort.Strings(keys)
		_, err := r.Split(keys)
		return err
	case operator.MergeRegion:
		if err := r.alive(); err != nil {
			return err
		}
		if st.IsPassive {
			src := st.FromRegion
			return r.absorb(string(src.GetStartKey()), string(src.GetEndKey()), src.GetRegionEpoch().GetVersion(), 0, 0)
		}
		if r.InJoint() {
			return refuse(JointState, "merge of %s in joint state", r)
		}
		r.Merged = true
		return nil
	}
	return refuse(Unsupported, "unknown step %T", step)
}

// CheckStep reports whether ApplyStep would be refused, without changing r.
func (r *Region) CheckStep(step operator.OpStep) error { return r.Clone().ApplyStep(step) }

// midKey is the key used when a split request names no key: the shortest
// string strictly inside the range that the simulator can name cheaply.
func (r *Region) midKey() string { return r.StartKey + "\x01" }

// CheckHeader verifies what hbstream stamps on every message: region id,
// current epoch, and the current leader as target peer.
func (r *Region) CheckHeader(m *pdpb.RegionHeartbeatResponse) error {
	if m.GetRegionId() != r.ID {
		return refuse(Stale, "message for region %d delivered to region %d", m.GetRegionId(), r.ID)
	}
	if e := m.GetRegionEpoch(); e.GetVersion() != r.Version || e.GetConfVer() != r.ConfVer {
		return refuse(Stale, "message epoch v%dc%d, region is %s", e.GetVersion(), e.GetConfVer(), r)
	}
	if m.GetTargetPeer().GetId() != r.Leader {
		return refuse(Stale, "message addressed to peer %d, leader is %d in %s", m.GetTargetPeer().GetId(), r.Leader, r)
	}
	return nil
}

func changeOf(c *pdpb.ChangePeer) Change {
	return Change{Type: c.GetChangeType(), ID: c.GetPeer().GetId(), Store: c.GetPeer().GetStoreId()}
}

// ApplyResponse executes the command carried by a heartbeat response (what
// hbstream sent): ChangePeer, ChangePeerV2, TransferLeader, Merge (r is the
// source and disappears; apply MergeInto/absorb on the target yourself when you
// simulate both) or SplitRegion. The header is not checked here (CheckHeader).
// New regions created by a split are returned.
func (r *Region) ApplyResponse(m *pdpb.RegionHeartbeatResponse) ([]*Region, error) {
	switch {
	case m.GetChangePeer() != nil:
		cp := m.GetChangePeer()
		if cp.GetPeer() == nil {
			return nil, refuse(NoSuchPeer, "%s without a peer", cp.GetChangeType())
		}
		return nil, r.ChangePeer(changeOf(cp))
	case m.GetChangePeerV2() != nil:
		var cs []Change
		for _, c := range m.GetChangePeerV2().GetChanges() {
			if c.GetPeer() == nil {
				return nil, refuse(NoSuchPeer, "%s without a peer", c.GetChangeType())
			}
			cs = append(cs, changeOf(c))
		}
		return nil, r.ChangePeerV2(cs)
	case m.GetTransferLeader() != nil:
		p := m.GetTransferLeader().GetPeer()
		if p == nil {
			return nil, refuse(BadTransferTarget, "transfer leader without a peer")
		}
		if q := r.PeerOnStore(p.GetStoreId()); q != nil && q.ID != p.GetId() {
			return nil, refuse(BadTransferTarget, "transfer leader to peer %d@%d, store holds peer %d", p.GetId(), p.GetStoreId(), q.ID)
		}
		return nil, r.TransferLeader(p.GetStoreId())
	case m.GetMerge() != nil:
		if err := r.alive(); err != nil {
			return nil, err
		}
		if r.InJoint() {
			return nil, refuse(JointState, "merge of %s in joint state", r)
		}
		r.Merged = true
		return nil, nil
	case m.GetSplitRegion() != nil:
		keys := make([]string, 0, len(m.GetSplitRegion().GetKeys()))
		for _, k := range m.GetSplitRegion().GetKeys() {
			keys = append(keys, string(k))
		}
		if len(keys) == 0 {
			keys = []string{r.midKey()}
		}
		sort.Strings(keys)
		return r.Split(keys)
	}
	return nil, refuse(Unsupported, "heartbeat response carries no command")
}

// ---------------------------------------------------------------- conversion

// Meta returns the region as protobuf (fresh objects).
func (r *Region) Meta() *metapb.Region {
	m := &metapb.Region{Id: r.ID, StartKey: []byte(r.StartKey), EndKey: []byte(r.EndKey),
		RegionEpoch: &metapb.RegionEpoch{Version: r.Version, ConfVer: r.ConfVer}}
	for _, p := range r.Peers {
		m.Peers = append(m.Peers, &metapb.Peer{Id: p.ID, StoreId: p.Store, Role: p.Role.Meta()})
	}
	return m
}

// ToRegionInfo converts the state to what pd would cache after the next
// heartbeat of this region (fresh objects, nothing shared with r).
func (r *Region) ToRegionInfo() *core.RegionInfo {
	m := r.Meta()
	var leader *metapb.Peer
	var pending []*metapb.Peer
	var down []*pdpb.PeerStats
	for i, p := range r.Peers {
		mp := m.Peers[i]
		if p.ID == r.Leader && r.Leader != 0 {
			switch r.LeaderCopy {
			case LeaderBare:
				leader = &metapb.Peer{Id: p.ID, StoreId: p.Store}
			case LeaderStaleRole:
				role := p.Role
				switch role {
				case DemotingVoter:
					role = Voter
				case IncomingVoter:
					role = Learner
				}
				leader = &metapb.Peer{Id: p.ID, StoreId: p.Store, Role: role.Meta()}
			default:
				leader = mp
			}
		}
		if p.Pending {
			pending = append(pending, mp)
		}
		if p.Down {
			down = append(down, &pdpb.PeerStats{Peer: mp, DownSeconds: 3600})
		}
	}
	return core.NewRegionInfo(m, leader, core.SetApproximateSize(r.Size), core.SetApproximateKeys(r.Keys),
		core.WithPendingPeers(pending), core.WithDownPeers(down))
}
