package simkit

import (
	"context"
	"time"

	"github.com/pingcap/kvproto/pkg/metapb"
	"github.com/pingcap/kvproto/pkg/pdpb"
	"github.com/tikv/pd/pkg/mock/mockcluster"
	"github.com/tikv/pd/pkg/typeutil"
	"github.com/tikv/pd/server/config"
	"github.com/tikv/pd/server/core"
	"github.com/tikv/pd/server/core/storelimit"
	"github.com/tikv/pd/server/schedule/opt"
	"github.com/tikv/pd/server/versioninfo"
)

// StoreCapacity is the capacity given to every mock store (as mockcluster does).
const StoreCapacity = uint64(100) << 30

// Build creates a mockcluster from the spec. The returned cancel function stops
// the cluster's background goroutines (hot cache); call it when the case is done.
//
// Feature level: JointSupported=false disables versioninfo.JointConsensus on the
// mock cluster (that is how mockcluster models an old cluster version) and also
// stores cluster version 4.0.0 in the options; true stores 5.0.0.
func Build(parent context.Context, spec ClusterSpec) (*mockcluster.Cluster, context.CancelFunc) {
	ctx, cancel := context.WithCancel(parent)
	opts := config.NewTestOptions()

	sc := opts.GetScheduleConfig().Clone()
	sc.EnableJointConsensus = spec.UseJoint
	if spec.LowSpaceRatio > 0 {
		sc.LowSpaceRatio = spec.LowSpaceRatio
	}
	if spec.HighSpaceRatio > 0 {
		sc.HighSpaceRatio = spec.HighSpaceRatio
	}
	if spec.MaxStoreDownTimeSec > 0 {
		sc.MaxStoreDownTime = typeutil.NewDuration(time.Duration(spec.MaxStoreDownTimeSec) * time.Second)
	}
	if spec.MaxSnapshotCount > 0 {
		sc.MaxSnapshotCount = uint64(spec.MaxSnapshotCount)
	}
	if spec.MaxPendingPeerCount > 0 {
		sc.MaxPendingPeerCount = uint64(spec.MaxPendingPeerCount)
	}
	opts.SetScheduleConfig(sc)

	rc := opts.GetReplicationConfig().Clone()
	if spec.MaxReplicas > 0 {
		rc.MaxReplicas = uint64(spec.MaxReplicas)
	}
	rc.LocationLabels = append(typeutil.StringSlice(nil), spec.LocationLabels...)
	rc.IsolationLevel = spec.IsolationLevel
	rc.StrictlyMatchLabel = spec.StrictlyMatch
	rc.EnablePlacementRules = spec.PlacementRules
	opts.SetReplicationConfig(rc)

	if len(spec.RejectLeader) > 0 {
		var ls []config.StoreLabel
		for _, l := range spec.RejectLeader {
			ls = append(ls, config.StoreLabel{Key: l.Key, Value: l.Value})
		}
		opts.SetLabelPropertyConfig(config.LabelPropertyConfig{opt.RejectLeader: ls})
	}
	if spec.JointSupported {
		opts.SetClusterVersion(versioninfo.MinSupportedVersion(versioninfo.JointConsensus))
	} else {
		opts.SetClusterVersion(versioninfo.MinSupportedVersion(versioninfo.Version4_0))
	}

	mc := mockcluster.NewCluster(ctx, opts)
	if !spec.JointSupported {
		mc.DisableFeature(versioninfo.JointConsensus)
	}
	now := time.Now()
	for i := range spec.Stores {
		mc.PutStore(NewStoreInfo(&spec.Stores[i], now))
		mc.SetStoreLimit(spec.Stores[i].ID, storelimit.AddPeer, 60)
		mc.SetStoreLimit(spec.Stores[i].ID, storelimit.RemovePeer, 60)
	}
	// advance the mock id allocator: every id handed out from now on is > AllocBase
	for id := uint64(0); id < spec.AllocBase; {
		id, _ = mc.AllocID()
	}
	return mc, cancel
}

// NewStoreInfo converts a store spec into pd's store object; the last
// heartbeat is now - HeartbeatAgeSec.
func NewStoreInfo(s *StoreSpec, now time.Time) *core.StoreInfo {
	meta := &metapb.Store{Id: s.ID}
	switch s.State {
	case StateOffline:
		meta.State = metapb.StoreState_Offline
	case StateTombstone:
		meta.State = metapb.StoreState_Tombstone
	default:
		meta.State = metapb.StoreState_Up
	}
	for _, l := range s.Labels {
		meta.Labels = append(meta.Labels, &metapb.StoreLabel{Key: l.Key, Value: l.Value})
	}
	stats := &pdpb.StoreStats{
		StoreId:            s.ID,
		Capacity:           StoreCapacity,
		UsedSize:           uint64(float64(StoreCapacity) * s.UsedRatio),
		Available:          uint64(float64(StoreCapacity) * s.AvailableRatio),
		IsBusy:             s.Busy,
		SendingSnapCount:   uint32(s.SendingSnap),
		ReceivingSnapCount: uint32(s.ReceivingSnap),
		ApplyingSnapCount:  uint32(s.ApplyingSnap),
	}
	opts := []core.StoreCreateOption{
		core.SetStoreStats(stats),
		core.SetRegionCount(s.RegionCount),
		core.SetLeaderCount(s.LeaderCount),
		core.SetRegionSize(s.RegionSize),
		core.SetLeaderSize(s.LeaderSize),
		core.SetPendingPeerCount(s.PendingPeers),
		core.SetLastHeartbeatTS(now.Add(-time.Duration(s.HeartbeatAgeSec) * time.Second)),
	}
	if s.PauseLeader {
		opts = append(opts, core.PauseLeaderTransfer())
	}
	return core.NewStoreInfo(meta, opts...)
}

// PutRegion converts a region spec to *core.RegionInfo and puts it into the
// cluster's region cache. It returns the region object.
func PutRegion(mc *mockcluster.Cluster, s RegionSpec) *core.RegionInfo {
	ri := s.RegionInfo()
	mc.PutRegion(ri)
	return ri
}

// RegionInfo converts the spec into pd's region object.
func (r RegionSpec) RegionInfo() *core.RegionInfo { return NewRegion(r, nil).ToRegionInfo() }
