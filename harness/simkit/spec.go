package simkit

import (
	"strings"
)

// ---------------------------------------------------------------- plain-data specs
//
// Everything below is JSON-serialisable plain data: a case of a property holds
// specs, the runner calls Build / NewRegion to obtain live objects.

// Label is one store label.
type Label struct {
	Key   string `json:"k"`
	Value string `json:"v"`
}

// Store states.
const (
	StateUp        = "up"
	StateOffline   = "offline"
	StateTombstone = "tombstone"
)

// Heartbeat ages (seconds) used by the generators. Build subtracts the age from
// the wall clock once; the ages keep a wide margin to the thresholds
// (disconnected > 20 s, unhealthy > 10 min, down > max-store-down-time = 30 min)
// so that the classification cannot flip while a case runs.
const (
	AgeFresh        = 0
	AgeDisconnected = 25
	AgeDown         = 31 * 60
	AgeLongDown     = 2 * 3600
)

// StoreSpec describes one store of the mock cluster.
type StoreSpec struct {
	ID              uint64  `json:"id"`
	State           string  `json:"state"`              // up | offline | tombstone
	HeartbeatAgeSec int     `json:"hb_age_s,omitempty"` // seconds since the last store heartbeat
	Labels          []Label `json:"labels,omitempty"`
	UsedRatio       float64 `json:"used"`  // used size / capacity
	AvailableRatio  float64 `json:"avail"` // available / capacity
	PauseLeader     bool    `json:"pause_leader,omitempty"`
	Busy            bool    `json:"busy,omitempty"`
	SendingSnap     int     `json:"snap_send,omitempty"`
	ReceivingSnap   int     `json:"snap_recv,omitempty"`
	ApplyingSnap    int     `json:"snap_apply,omitempty"`
	PendingPeers    int     `json:"pending_peers,omitempty"`
	RegionCount     int     `json:"regions"`
	LeaderCount     int     `json:"leaders"`
	RegionSize      int64   `json:"region_size"` // MiB
	LeaderSize      int64   `json:"leader_size"` // MiB
}

// ClusterSpec describes a mock cluster and its options.
type ClusterSpec struct {
	Stores []StoreSpec `json:"stores"`

	// JointSupported: the cluster version supports joint consensus (>= 5.0.0).
	JointSupported bool `json:"joint_supported"`
	// UseJoint: schedule.enable-joint-consensus.
	UseJoint bool `json:"use_joint"`
	// PlacementRules: replication.enable-placement-rules (the rule manager then
	// holds the default rule: voter x MaxReplicas, no label constraint).
	PlacementRules bool `json:"placement_rules,omitempty"`

	MaxReplicas    int      `json:"max_replicas"`
	LocationLabels []string `json:"location_labels,omitempty"`
	IsolationLevel string   `json:"isolation_level,omitempty"`
	StrictlyMatch  bool     `json:"strictly_match_label,omitempty"`

	// RejectLeader: label property "reject-leader".
	RejectLeader []Label `json:"reject_leader,omitempty"`

	// 0 = pd default for each of these.
	LowSpaceRatio       float64 `json:"low_space_ratio,omitempty"`
	HighSpaceRatio      float64 `json:"high_space_ratio,omitempty"`
	MaxStoreDownTimeSec int     `json:"max_store_down_time_s,omitempty"`
	MaxSnapshotCount    int     `json:"max_snapshot_count,omitempty"`
	MaxPendingPeerCount int     `json:"max_pending_peer_count,omitempty"`

	// AllocBase: the cluster's id allocator is advanced so that every id it
	// hands out is > AllocBase. The generators set it above every store, region
	// and peer id of the case (ids globally unique, as in a real cluster). 0
	// leaves the mock allocator at 1,2,3,... (ids collide with store ids, as in
	// pd's own mock-based tests; they still never collide with peer ids >= 100).
	AllocBase uint64 `json:"alloc_base,omitempty"`
}

// PeerSpec describes one peer of a region.
type PeerSpec struct {
	ID      uint64 `json:"id"`
	Store   uint64 `json:"store"`
	Role    Role   `json:"role"`
	Pending bool   `json:"pending,omitempty"`
	Down    bool   `json:"down,omitempty"`
}

// RegionSpec describes one region.
type RegionSpec struct {
	ID      uint64     `json:"id"`
	Start   string     `json:"start"`
	End     string     `json:"end"`
	Peers   []PeerSpec `json:"peers"`
	Leader  int        `json:"leader"` // index into Peers, -1 = no leader
	Version uint64     `json:"version"`
	ConfVer uint64     `json:"conf_ver"`
	Size    int64      `json:"size"` // MiB
	Keys    int64      `json:"keys"`
}

// pd defaults the oracle side needs (config.go: defaultMaxStoreDownTime etc.).
const (
	DefaultMaxStoreDownTimeSec = 30 * 60
	DefaultLowSpaceRatio       = 0.8
	DefaultHighSpaceRatio      = 0.7
	DefaultMaxSnapshotCount    = 3
	DefaultMaxPendingPeerCount = 16
	DisconnectAfterSec         = 20
)

// ---------------------------------------------------------------- spec-side predicates (for oracles)
//
// These are definitions taken from the property texts / the documented filter
// table, evaluated on the spec, so that an oracle does not have to ask pd.

// Store returns the spec of a store (nil if the cluster has no such store).
func (c *ClusterSpec) Store(id uint64) *StoreSpec {
	for i := range c.Stores {
		if c.Stores[i].ID == id {
			return &c.Stores[i]
		}
	}
	return nil
}

// StoreIDs lists the store ids in spec order.
func (c *ClusterSpec) StoreIDs() []uint64 {
	out := make([]uint64, len(c.Stores))
	for i, s := range c.Stores {
		out[i] = s.ID
	}
	return out
}

func (c *ClusterSpec) maxDown() int {
	if c.MaxStoreDownTimeSec > 0 {
		return c.MaxStoreDownTimeSec
	}
	return DefaultMaxStoreDownTimeSec
}

// LowSpace returns the effective low-space ratio.
func (c *ClusterSpec) LowSpace() float64 {
	if c.LowSpaceRatio > 0 {
		return c.LowSpaceRatio
	}
	return DefaultLowSpaceRatio
}

// IsUp / IsOffline / IsTombstone: the store state.
func (s *StoreSpec) IsUp() bool        { return s.State == StateUp || s.State == "" }
func (s *StoreSpec) IsOffline() bool   { return s.State == StateOffline }
func (s *StoreSpec) IsTombstone() bool { return s.State == StateTombstone }

// IsConnected: last heartbeat at most 20 s ago.
func (s *StoreSpec) IsConnected() bool { return s.HeartbeatAgeSec <= DisconnectAfterSec }

// IsDown: no heartbeat for longer than max-store-down-time.
func (c *ClusterSpec) IsDown(s *StoreSpec) bool { return s.HeartbeatAgeSec > c.maxDown() }

// Label returns a label value ("" when unset; keys compare case-insensitively like pd).
func (s *StoreSpec) Label(key string) string {
	for _, l := range s.Labels {
		if strings.EqualFold(l.Key, key) {
			return l.Value
		}
	}
	return ""
}

// HasExclusiveLabel: the store carries a label that excludes it from every
// placement rule that does not name the label ("$..." keys, engine, exclusive).
func (s *StoreSpec) HasExclusiveLabel() bool {
	for _, l := range s.Labels {
		if strings.HasPrefix(l.Key, "$") || l.Key == "engine" || l.Key == "exclusive" {
			return true
		}
	}
	return false
}

// RejectsLeader: the reject-leader label property matches one of the store's labels.
func (c *ClusterSpec) RejectsLeader(s *StoreSpec) bool {
	for _, p := range c.RejectLeader {
		for _, l := range s.Labels {
			if l.Key == p.Key && l.Value == p.Value {
				return true
			}
		}
	}
	return false
}

// IsLowSpace mirrors the documented rule: available ratio below 1-lowSpaceRatio,
// except for a nearly empty store (< 30 regions) that still has > 8 GiB free.
func (c *ClusterSpec) IsLowSpace(s *StoreSpec) bool {
	if s.RegionCount < 30 && s.AvailableRatio*float64(StoreCapacity) > float64(uint64(1)<<33) {
		return false
	}
	return s.AvailableRatio < 1-c.LowSpace()
}

// AcceptsLeader is the "leader target" row of the store-state condition table
// (filter.StoreStateFilter): not tombstone, not offline, not down, leader
// transfer not paused, connected, not busy, no reject-leader label property.
func (c *ClusterSpec) AcceptsLeader(id uint64) bool {
	s := c.Store(id)
	if s == nil {
		return false
	}
	return s.IsUp() && !c.IsDown(s) && s.IsConnected() && !s.PauseLeader && !s.Busy && !c.RejectsLeader(s)
}

// AcceptsPeer is the "region target" row restricted to the long-lived and
// health conditions: up, connected, not down, not busy.
func (c *ClusterSpec) AcceptsPeer(id uint64) bool {
	s := c.Store(id)
	if s == nil {
		return false
	}
	return s.IsUp() && !c.IsDown(s) && s.IsConnected() && !s.Busy
}

// ---------------------------------------------------------------- region spec helpers

// Stores lists the stores of the region's peers.
func (r *RegionSpec) Stores() []uint64 {
	out := make([]uint64, len(r.Peers))
	for i, p := range r.Peers {
		out[i] = p.Store
	}
	return out
}

// PeerOnStore returns the peer spec on a store (nil if none).
func (r *RegionSpec) PeerOnStore(store uint64) *PeerSpec {
	for i := range r.Peers {
		if r.Peers[i].Store == store {
			return &r.Peers[i]
		}
	}
	return nil
}

// LeaderStore returns the store of the leader (0 = none).
func (r *RegionSpec) LeaderStore() uint64 {
	if r.Leader >= 0 && r.Leader < len(r.Peers) {
		return r.Peers[r.Leader].Store
	}
	return 0
}

// InJoint reports whether a peer has a joint role.
func (r *RegionSpec) InJoint() bool {
	for _, p := range r.Peers {
		if p.Role.Joint() {
			return true
		}
	}
	return false
}

// MaxID is the largest id used by the region (region id and peer ids).
func (r *RegionSpec) MaxID() uint64 {
	m := r.ID
	for _, p := range r.Peers {
		if p.ID > m {
			m = p.ID
		}
	}
	return m
}

// ReserveIDs raises AllocBase above every id used by the regions and stores, so
// that ids allocated by the cluster are globally fresh.
func (c *ClusterSpec) ReserveIDs(regions ...RegionSpec) {
	for _, s := range c.Stores {
		if s.ID > c.AllocBase {
			c.AllocBase = s.ID
		}
	}
	for i := range regions {
		if m := regions[i].MaxID(); m > c.AllocBase {
			c.AllocBase = m
		}
	}
}
