// C18 — dynamic configuration changes are validated, atomic and durable.
//
// Stateful property-based test with fault enumeration against the configuration
// setters of a live, bootstrapped PD server (package livesrv; storage swapped per
// case for a fault wrapper over a fresh memory KV, every reachable piece of
// configuration state reset to the post-bootstrap base at the start of a case).
//
// A case is a list of updates. Exactly like the HTTP API (server/api/config.go)
// an update of the schedule / replication / pd-server / replication-mode section
// takes the section currently served, merges a JSON patch into it and hands the
// whole section to the setter; label-property and cluster-version updates carry
// their arguments directly. An update marked "faults" is first executed with its
// 1st, 2nd, ... storage write failing (until the update performs fewer writes
// than the index) and then without fault.
//
// Oracle, after every execution:
//   - error returned (invalid value, refusal, injected failure) => the JSON of every
//     served section is byte-for-byte what it was before the call; an injected
//     failure must be reported as an error;
//   - accepted => the value is inside the domains stated by the property (own
//     predicate, not the code's Validate), the updated section is what was asked
//     for, the other sections are untouched, and a fresh config.PersistOptions
//     over pristine defaults + Reload(storage) serves the same JSON as the server
//     after the documented reload normalisation of the served copy.
package c18

import (
	"bytes"
	"encoding/hex"
	"encoding/json"
	"fmt"
	"io"
	"net/http"
	"os"
	"sort"
	"strings"
	"sync"
	"sync/atomic"
	"testing"
	"time"

	"github.com/coreos/go-semver/semver"
	"github.com/tikv/pd/pkg/codec"
	"github.com/tikv/pd/server/config"
	"github.com/tikv/pd/server/core"
	"github.com/tikv/pd/server/kv"
	"github.com/tikv/pd/server/schedule/placement"
	"pdverif/livesrv"
	"pdverif/vkit"
	"pdverif/vkit/faultkv"
	"pgregory.net/rapid"
)

const (
	findingLabelRollback = "C18/label-property-rollback-inverse"
	findingReplModeHTTP  = "C18/replication-mode-http-merge-into-served"
	findingRuleLabels    = "C18/replication-rule-labels-not-rolled-back"
	findingEmptyLabels   = "C18/replication-empty-labels-nil-vs-empty"
	findingCoordStale    = "C18/coordinator-writeback-stale-persist"
	findingRuleAPISync   = "C18/rule-api-syncs-replication-before-setrule"
	findingRollbackRule  = "C18/replication-rollback-rule-not-persisted"
)

func TestMain(m *testing.M)   { vkit.Main(m, "C18") }
func TestProp(t *testing.T)   { defer livesrv.Shutdown(); vkit.RunAll(t) }
func TestReplay(t *testing.T) { defer livesrv.Shutdown(); vkit.RunReplay(t) }

func init() {
	vkit.Register("config", vkit.N{Quick: 12000, Thorough: 300000}, genCase, runCase)
	vkit.Register("startup", vkit.N{Quick: 12, Thorough: 320}, genStart, runStart)
}

// ---------------------------------------------------------------- case data

// verdict of the independent validity predicate for an update
const (
	vValid  = "valid"
	vReject = "must-reject" // outside a domain stated by the property
	vEither = "either"      // the property does not decide (refusals documented elsewhere)
)

// patch tables. "either" marks patches whose acceptance the property does not decide.
type patch struct {
	JSON   string
	Either bool
}

var schedulePatches = []patch{
	{JSON: `{"max-snapshot-count":5}`},
	{JSON: `{"leader-schedule-limit":0}`},
	{JSON: `{"region-schedule-limit":7,"replica-schedule-limit":9}`},
	{JSON: `{"tolerant-size-ratio":2.5}`},
	{JSON: `{"tolerant-size-ratio":0}`},
	{JSON: `{"low-space-ratio":0.9,"high-space-ratio":0.5}`},
	{JSON: `{"low-space-ratio":1,"high-space-ratio":0}`},
	{JSON: `{"high-space-ratio":0.75}`},
	{JSON: `{"enable-cross-table-merge":"false"}`},
	{JSON: `{"max-store-down-time":"1h"}`},
	{JSON: `{"enable-remove-down-replica":"false","enable-make-up-replica":"false"}`},
	{JSON: `{"leader-schedule-policy":"size"}`},
	{JSON: `{"hot-region-cache-hits-threshold":1}`},
	{JSON: `{"region-score-formula-version":"v1"}`},
	{JSON: `{"enable-joint-consensus":"false"}`},
	{JSON: `{"patrol-region-interval":"50ms","split-merge-interval":"30m"}`},
	{JSON: `{"schedulers-v2":[{"type":"balance-region","args":null,"disable":false,"args-payload":""},{"type":"balance-leader","args":null,"disable":false,"args-payload":""},{"type":"hot-region","args":null,"disable":false,"args-payload":""},{"type":"label","args":null,"disable":false,"args-payload":""}]}`},
	{JSON: `{"schedulers-v2":[{"type":"balance-region","args":null,"disable":false,"args-payload":""}]}`},
	{JSON: `{"schedulers-v2":[]}`},
	{JSON: `{"schedulers-v2":[{"type":"shuffle-region","args":null,"disable":true,"args-payload":""},{"type":"balance-leader","args":null,"disable":true,"args-payload":""}]}`},
	// outside the stated domains
	{JSON: `{"low-space-ratio":-0.1}`},
	{JSON: `{"low-space-ratio":1.1}`},
	{JSON: `{"high-space-ratio":-0.5,"low-space-ratio":0.5}`},
	{JSON: `{"high-space-ratio":1.5}`},
	{JSON: `{"low-space-ratio":0.5,"high-space-ratio":0.5}`},
	{JSON: `{"low-space-ratio":0.3,"high-space-ratio":0.6}`},
	{JSON: `{"tolerant-size-ratio":-1}`},
	{JSON: `{"tolerant-size-ratio":-0.001,"max-snapshot-count":9}`},
	{JSON: `{"schedulers-v2":[{"type":"no-such-scheduler","args":null,"disable":false,"args-payload":""}]}`},
	{JSON: `{"schedulers-v2":[{"type":"balance-region","args":null,"disable":false,"args-payload":""},{"type":"balance-leadr","args":null,"disable":false,"args-payload":""}]}`},
	{JSON: `{"schedulers-v2":[{"type":"","args":null,"disable":true,"args-payload":""}]}`},
	// deprecated flags set (documented as refused by SetScheduleConfig; the property does not decide)
	{JSON: `{"disable-raft-learner":"true"}`, Either: true},
	{JSON: `{"disable-remove-down-replica":"true"}`, Either: true},
	{JSON: `{"disable-make-up-replica":"true","max-snapshot-count":4}`, Either: true},
	{JSON: `{"store-balance-rate":15}`, Either: true},
}

var replicationPatches = []patch{
	{JSON: `{"max-replicas":5}`},
	{JSON: `{"max-replicas":1}`},
	{JSON: `{"max-replicas":3}`},
	{JSON: `{"location-labels":"zone,rack"}`},
	{JSON: `{"location-labels":"zone,rack,host","isolation-level":"rack"}`},
	{JSON: `{"location-labels":"","isolation-level":""}`},
	{JSON: `{"isolation-level":""}`},
	{JSON: `{"isolation-level":"zone"}`}, // valid only while zone is a location label
	{JSON: `{"isolation-level":"host"}`},
	{JSON: `{"location-labels":"zone"}`}, // invalid while the isolation level is rack/host
	{JSON: `{"strictly-match-label":"true"}`},
	{JSON: `{"enable-placement-rules":"false"}`},
	{JSON: `{"enable-placement-rules":"true"}`},
	{JSON: `{"enable-placement-rules":"false","max-replicas":5}`},
	{JSON: `{"enable-placement-rules":"true","max-replicas":2}`},
	{JSON: `{"location-labels":"dc,zone","isolation-level":"dc","max-replicas":7}`},
	{JSON: `{"location-labels":"zone","isolation-level":"rack"}`},
	{JSON: `{"isolation-level":"region"}`},
	{JSON: `{"location-labels":"a b"}`, Either: true}, // label syntax: not a domain the property states
}

var pdServerPatches = []patch{
	{JSON: `{"flow-round-by-digit":0}`},
	{JSON: `{"flow-round-by-digit":5}`},
	{JSON: `{"flow-round-by-digit":127}`},
	{JSON: `{"key-type":"raw"}`},
	{JSON: `{"metric-storage":"http://127.0.0.1:9090"}`},
	{JSON: `{"dashboard-address":"none"}`},
	{JSON: `{"dashboard-address":"auto"}`},
	{JSON: `{"dashboard-address":"SELF"}`}, // the server's own client URL
	{JSON: `{"max-gap-reset-ts":"48h"}`},
	{JSON: `{"use-region-storage":"false"}`},
	{JSON: `{"trace-region-flow":"true"}`},                         // deprecated flag set
	{JSON: `{"trace-region-flow":"true","flow-round-by-digit":2}`}, // deprecated flag set together with its successor
	{JSON: `{"trace-region-flow":"false"}`},
	{JSON: `{"flow-round-by-digit":-1}`},
	{JSON: `{"flow-round-by-digit":-128,"key-type":"txn"}`},
	{JSON: `{"dashboard-address":"http://127.0.0.1:1"}`, Either: true}, // not a member: refused by rule outside the property
	{JSON: `{"dashboard-address":"not a url"}`, Either: true},
}

var replModePatches = []patch{
	{JSON: `{"replication-mode":"majority"}`},
	{JSON: `{"replication-mode":"dr-auto-sync","dr-auto-sync":{"label-key":"zone","primary":"z1","dr":"z2","primary-replicas":2,"dr-replicas":1}}`},
	{JSON: `{"dr-auto-sync":{"label-key":"dc"}}`},
	{JSON: `{"dr-auto-sync":{"wait-store-timeout":"2m","wait-sync-timeout":"3m"}}`},
	{JSON: `{"replication-mode":"dr-auto-sync"}`},
	{JSON: `{"replication-mode":"DR_Auto_Sync"}`, Either: true}, // spelling variant of a known mode
	{JSON: `{"replication-mode":"quorum"}`},
	{JSON: `{"replication-mode":""}`},
	{JSON: `{"replication-mode":"dr-auto-sync2","dr-auto-sync":{"label-key":"rack"}}`},
}

var versions = []struct {
	V       string
	Verdict string
}{
	{"4.0.0", vValid}, {"5.0.0", vValid}, {"5.1.0-alpha", vValid}, {"4.0.9", vValid}, {"3.1.0-beta.2", vValid},
	{"2.1.17", vValid}, {"6.0.0", vValid}, {"0.0.1", vValid}, {"5.0.0-rc.1", vValid},
	{"v5.0.0", vEither}, {"", vEither}, // accepted spellings outside plain semver
	{"abc", vReject}, {"5.x", vReject}, {"1.2", vReject}, {"5.0.0.1", vReject},
}

var (
	labelTypes  = []string{"reject-leader", "other"}
	labelKeys   = []string{"zone", "host"}
	labelValues = []string{"z1", "z2", "h9"}
	labelCfgs   = []string{
		`{}`,
		`{"reject-leader":[{"key":"zone","value":"z1"}]}`,
		`{"reject-leader":[{"key":"zone","value":"z1"},{"key":"host","value":"h9"}],"other":[{"key":"zone","value":"z2"}]}`,
		`{"other":[]}`,
	}
)

// schedulers registered in this tree (server/schedulers/*.go, RegisterScheduler)
var registered = map[string]bool{"balance-leader": true, "balance-region": true, "hot-region": true, "label": true,
	"random-merge": true, "shuffle-leader": true, "shuffle-region": true, "shuffle-hot-region": true,
	"evict-leader": true, "grant-leader": true, "scatter-range": true, "adjacent-region": true}

type Op struct {
	Kind   string `json:"k"` // schedule replication pdserver replmode labelset labeldel labelcfg version
	P      int    `json:"p,omitempty"`
	L      [3]int `json:"l,omitempty"` // label ops: type, key, value indices
	Faults bool   `json:"f,omitempty"` // enumerate persist failures first
	// HTTP: send the update through the server's own HTTP API (what pd-ctl does) instead of calling the
	// setter: POST /pd/api/v1/config/{schedule,replicate,replication-mode,cluster-version,label-property};
	// pd-server items go through POST /pd/api/v1/config when the patch has a single key. Other ops ignore it.
	HTTP bool `json:"http,omitempty"`
	// R: rule requests (kinds "rule" = POST /config/rule with R[0], "rules" = POST /config/rules with all of R)
	R []RuleSpec `json:"r,omitempty"`
}

// RuleSpec describes one posted placement rule: target (pd/default, pd/r2, g2/x), body variant, count.
type RuleSpec struct {
	T int `json:"t"`
	B int `json:"b"`
	C int `json:"c"` // index into ruleCounts
}

// store limit requests: POST /store/1/limit[?ttlSecond=N] {"rate":R,"type":T}; TTL > 0 = a temporary override
// (what BR / lightning install), which is no configuration change
var storeLimitReqs = []struct {
	Type string
	Rate float64
	TTL  int
}{{"add-peer", 20, 0}, {"remove-peer", 33, 0}, {"add-peer", 7.5, 0}, {"remove-peer", 90, 0},
	{"add-peer", 200, 60}, {"remove-peer", 150, 60}, {"add-peer", 0, 0}, {"remove-peer", -3, 0}, {"bogus", 10, 0}}

var (
	ruleTargets = [][2]string{{"pd", "default"}, {"pd", "r2"}, {"g2", "x"}}
	ruleCounts  = []int{-1, 0, 1, 3, 5, -999} // -999 = the max-replicas currently served
	// body variants; bad = RuleManager.SetRule rejects it (7 only for the default rule, 8 only with count > 1)
	ruleBodies = []string{"plain", "with-location-labels", "bad-role", "bad-hex", "end-before-start", "matches-no-store",
		"bad-op", "starts-at-m", "leader", "raw-key"}
)

func encKey(k string) string { return hex.EncodeToString(codec.EncodeBytes([]byte(k))) }

// ruleJSON builds the body of one rule; bad reports whether the rule manager must reject it.
func ruleJSON(sp RuleSpec, current uint64) (body map[string]interface{}, bad bool, count int) {
	tg := ruleTargets[sp.T]
	count = ruleCounts[sp.C]
	if count == -999 {
		count = int(current)
	}
	m := map[string]interface{}{"group_id": tg[0], "id": tg[1], "role": "voter", "count": count, "start_key": "", "end_key": ""}
	switch ruleBodies[sp.B] {
	case "with-location-labels":
		m["location_labels"] = []string{"zone"}
	case "bad-role":
		m["role"], bad = "bogus", true
	case "bad-hex":
		m["start_key"], bad = "zz", true
	case "end-before-start":
		m["start_key"], m["end_key"], bad = encKey("q"), encKey("c"), true
	case "matches-no-store":
		m["label_constraints"], bad = []map[string]interface{}{{"key": "zone", "op": "in", "values": []string{"nowhere"}}}, true
	case "bad-op":
		m["label_constraints"], bad = []map[string]interface{}{{"key": "zone", "op": "like", "values": []string{"z"}}}, true
	case "starts-at-m":
		m["start_key"] = encKey("m")
		bad = sp.T == 0 // the default rule must cover the keys before m
	case "leader":
		m["role"] = "leader"
		bad = count > 1
	case "raw-key":
		m["start_key"], bad = "61", true // not memcomparable-encoded while key-type is table
	}
	if count <= 0 {
		bad = true
	}
	return m, bad, count
}

type Case struct {
	Ops []Op `json:"ops"`
}

func genOp(t *rapid.T) Op {
	var op Op
	op.Kind = rapid.SampledFrom([]string{"schedule", "schedule", "schedule", "replication", "replication", "replication",
		"pdserver", "pdserver", "replmode", "labelset", "labelset", "labeldel", "labeldel", "labelcfg", "version", "rule", "rule", "rules", "storelimit", "storelimit"}).Draw(t, "kind")
	switch op.Kind {
	case "storelimit":
		op.P = rapid.IntRange(0, len(storeLimitReqs)-1).Draw(t, "p")
	case "rule", "rules":
		n := 1
		if op.Kind == "rules" {
			n = rapid.IntRange(1, 2).Draw(t, "nrules")
		}
		for i := 0; i < n; i++ {
			op.R = append(op.R, RuleSpec{T: rapid.SampledFrom([]int{0, 0, 0, 1, 2}).Draw(t, "rt"),
				B: rapid.IntRange(0, len(ruleBodies)-1).Draw(t, "rb"), C: rapid.IntRange(0, len(ruleCounts)-1).Draw(t, "rc")})
		}
	case "schedule":
		op.P = rapid.IntRange(0, len(schedulePatches)-1).Draw(t, "p")
	case "replication":
		op.P = rapid.IntRange(0, len(replicationPatches)-1).Draw(t, "p")
	case "pdserver":
		op.P = rapid.IntRange(0, len(pdServerPatches)-1).Draw(t, "p")
	case "replmode":
		op.P = rapid.IntRange(0, len(replModePatches)-1).Draw(t, "p")
	case "labelcfg":
		op.P = rapid.IntRange(0, len(labelCfgs)-1).Draw(t, "p")
	case "version":
		op.P = rapid.IntRange(0, len(versions)-1).Draw(t, "p")
	default:
		op.L = [3]int{rapid.IntRange(0, len(labelTypes)-1).Draw(t, "lt"), rapid.IntRange(0, len(labelKeys)-1).Draw(t, "lk"),
			rapid.IntRange(0, len(labelValues)-1).Draw(t, "lv")}
	}
	op.Faults = rapid.IntRange(0, 1).Draw(t, "faults") == 1
	op.HTTP = rapid.IntRange(0, 3).Draw(t, "http") == 3
	return op
}

func genCase(t *rapid.T) Case {
	var c Case
	n := rapid.IntRange(3, 14).Draw(t, "ops")
	for i := 0; i < n; i++ {
		c.Ops = append(c.Ops, genOp(t))
	}
	return c
}

// ---------------------------------------------------------------- observation

var sectionNames = []string{"schedule", "replication", "pd-server", "label-property", "cluster-version", "replication-mode"}

type snap [6]string

func mustJSON(v interface{}) string {
	b, err := json.Marshal(v)
	if err != nil {
		return "marshal error: " + err.Error()
	}
	return string(b)
}

func served(fx *livesrv.Fixture) snap {
	s := fx.Svr
	return snap{mustJSON(s.GetScheduleConfig()), mustJSON(s.GetReplicationConfig()), mustJSON(s.GetPDServerConfig()),
		mustJSON(s.GetLabelProperty()), mustJSON(s.GetClusterVersion()), mustJSON(s.GetReplicationModeConfig())}
}

func diffSnap(a, b snap) string {
	for i := range a {
		if a[i] != b[i] {
			return fmt.Sprintf("section %s: %s  =>  %s", sectionNames[i], a[i], b[i])
		}
	}
	return ""
}

// domains stated by the property, checked on what is served (own predicate)
func domainViolation(sc *config.ScheduleConfig, rc *config.ReplicationConfig, pc *config.PDServerConfig, mode string) string {
	if sc != nil {
		if sc.LowSpaceRatio < 0 || sc.LowSpaceRatio > 1 {
			return fmt.Sprintf("low-space-ratio %v outside [0,1]", sc.LowSpaceRatio)
		}
		if sc.HighSpaceRatio < 0 || sc.HighSpaceRatio > 1 {
			return fmt.Sprintf("high-space-ratio %v outside [0,1]", sc.HighSpaceRatio)
		}
		if sc.LowSpaceRatio <= sc.HighSpaceRatio {
			return fmt.Sprintf("low-space-ratio %v <= high-space-ratio %v", sc.LowSpaceRatio, sc.HighSpaceRatio)
		}
		if sc.TolerantSizeRatio < 0 {
			return fmt.Sprintf("tolerant-size-ratio %v negative", sc.TolerantSizeRatio)
		}
		for _, s := range sc.Schedulers {
			if !registered[s.Type] {
				return fmt.Sprintf("scheduler type %q is not registered", s.Type)
			}
		}
	}
	if rc != nil && rc.IsolationLevel != "" {
		found := false
		for _, l := range rc.LocationLabels {
			found = found || l == rc.IsolationLevel
		}
		if !found {
			return fmt.Sprintf("isolation-level %q is not one of the location labels %v", rc.IsolationLevel, []string(rc.LocationLabels))
		}
	}
	if pc != nil && pc.FlowRoundByDigit < 0 {
		return fmt.Sprintf("flow-round-by-digit %d negative", pc.FlowRoundByDigit)
	}
	if mode != "" || sc == nil && rc == nil && pc == nil {
		m := strings.ReplaceAll(strings.ToLower(mode), "_", "-")
		if m != "majority" && m != "dr-auto-sync" {
			return fmt.Sprintf("replication mode %q unknown", mode)
		}
	}
	return ""
}

func servedDomainViolation(fx *livesrv.Fixture) string {
	s := fx.Svr
	if d := domainViolation(s.GetScheduleConfig(), s.GetReplicationConfig(), s.GetPDServerConfig(), ""); d != "" {
		return d
	}
	return domainViolation(nil, nil, nil, s.GetReplicationModeConfig().ReplicationMode)
}

// normalise applies the documented reload normalisation to a copy of the served
// sections (PersistOptions.Reload: "In case we add new default schedulers" they
// are appended; ScheduleConfig/PDServerConfig.MigrateDeprecatedFlags: deprecated
// flags are cleared — disable-raft-learner and store-balance-rate dropped, a set
// disable-X clears both disable-X and enable-X, trace-region-flow is not kept).
func normalise(fx *livesrv.Fixture) snap {
	s := fx.Svr
	sc := s.GetScheduleConfig()
	for _, d := range []string{"balance-region", "balance-leader", "hot-region"} {
		have := false
		for _, x := range sc.Schedulers {
			have = have || x.Type == d
		}
		if !have {
			sc.Schedulers = append(sc.Schedulers, config.SchedulerConfig{Type: d})
		}
	}
	sc.DisableLearner = false
	sc.StoreBalanceRate = 0
	for _, p := range [][2]*bool{{&sc.DisableRemoveDownReplica, &sc.EnableRemoveDownReplica}, {&sc.DisableReplaceOfflineReplica, &sc.EnableReplaceOfflineReplica},
		{&sc.DisableMakeUpReplica, &sc.EnableMakeUpReplica}, {&sc.DisableRemoveExtraReplica, &sc.EnableRemoveExtraReplica},
		{&sc.DisableLocationReplacement, &sc.EnableLocationReplacement}} {
		if *p[0] {
			*p[0], *p[1] = false, false
		}
	}
	pc := s.GetPDServerConfig()
	pc.TraceRegionFlow = false
	return snap{mustJSON(sc), mustJSON(s.GetReplicationConfig()), mustJSON(pc), mustJSON(s.GetLabelProperty()),
		mustJSON(s.GetClusterVersion()), mustJSON(s.GetReplicationModeConfig())}
}

// reloaded is what a newly elected leader serves: pristine defaults + Reload.
func reloaded(w *faultkv.KV) (snap, error) { return reloadedFrom(w.Base()) }

func reloadedFrom(base kv.Base) (snap, error) {
	def := config.NewConfig()
	if err := def.Adjust(nil, false); err != nil {
		return snap{}, fmt.Errorf("default config: %v", err)
	}
	o := config.NewPersistOptions(def)
	if err := o.Reload(core.NewStorage(base)); err != nil {
		return snap{}, fmt.Errorf("Reload: %v", err)
	}
	return snap{mustJSON(o.GetScheduleConfig().Clone()), mustJSON(o.GetReplicationConfig()), mustJSON(o.GetPDServerConfig()),
		mustJSON(o.GetLabelPropertyConfig()), mustJSON(o.GetClusterVersion()), mustJSON(o.GetReplicationModeConfig())}, nil
}

// ---------------------------------------------------------------- label model (doc comments of Set/DeleteLabelProperty)

type label struct {
	Key   string `json:"key"`
	Value string `json:"value"`
}

func parseLabels(js string) map[string][]label {
	m := map[string][]label{}
	json.Unmarshal([]byte(js), &m)
	return m
}

func labelSet(m map[string][]label, typ, k, v string) map[string][]label {
	o := map[string][]label{}
	for t, ls := range m {
		o[t] = append([]label{}, ls...)
	}
	for _, l := range o[typ] {
		if l.Key == k && l.Value == v {
			return o
		}
	}
	o[typ] = append(o[typ], label{k, v})
	return o
}

func labelDel(m map[string][]label, typ, k, v string) map[string][]label {
	o := map[string][]label{}
	for t, ls := range m {
		o[t] = append([]label{}, ls...)
	}
	ls, ok := o[typ]
	if !ok {
		return o
	}
	out := []label{}
	for _, l := range ls {
		if !(l.Key == k && l.Value == v) {
			out = append(out, l)
		}
	}
	if len(out) == 0 {
		delete(o, typ)
	} else {
		o[typ] = out
	}
	return o
}

// ---------------------------------------------------------------- runner

var httpClient = &http.Client{Timeout: 20 * time.Second}

// post sends body to the live server's API; any status but 200 is the update's error.
func post(fx *livesrv.Fixture, path, body string) error {
	resp, err := httpClient.Post(fx.Svr.GetAddr()+"/pd/api/v1"+path, "application/json", bytes.NewBufferString(body))
	if err != nil {
		return fmt.Errorf("http transport: %v", err)
	}
	defer resp.Body.Close()
	b, _ := io.ReadAll(resp.Body)
	if resp.StatusCode != http.StatusOK {
		return fmt.Errorf("HTTP %d: %s", resp.StatusCode, strings.TrimSpace(string(b)))
	}
	return nil
}

func singleKey(js string) bool {
	m := map[string]json.RawMessage{}
	return json.Unmarshal([]byte(js), &m) == nil && len(m) == 1
}

// ruleView is (count, location labels) of the default placement rule pd/default, which
// SetReplicationConfig keeps in step with the replication section while placement rules are enabled.
type ruleView struct {
	Count  int
	Labels string // joined with ",": nil and empty are the same thing here
	Shape  string // "voter, whole key space, no constraints" for the rule the replication section stands for
}

const plainShape = "voter/whole-key-space/unconstrained"

func (r ruleView) String() string {
	return fmt.Sprintf("{count %d labels [%s] %s}", r.Count, r.Labels, r.Shape)
}

func viewOfConfig(c *config.ReplicationConfig) ruleView {
	return ruleView{Count: int(c.MaxReplicas), Labels: strings.Join(c.LocationLabels, ","), Shape: plainShape}
}

func actualRule(fx *livesrv.Fixture) (ruleView, bool) {
	rc := fx.Svr.GetRaftCluster()
	if rc == nil {
		return ruleView{}, false
	}
	r := rc.GetRuleManager().GetRule("pd", "default")
	if r == nil {
		return ruleView{}, false
	}
	shape := plainShape
	if r.Role != placement.Voter || len(r.StartKeyHex) > 0 || len(r.EndKeyHex) > 0 || len(r.LabelConstraints) > 0 || r.IsolationLevel != "" {
		shape = fmt.Sprintf("%s/%s..%s/%d constraints/%s", r.Role, r.StartKeyHex, r.EndKeyHex, len(r.LabelConstraints), r.IsolationLevel)
	}
	return ruleView{Count: r.Count, Labels: strings.Join(r.LocationLabels, ","), Shape: shape}, true
}

const msgRuleInconsistent = "default rules do not consistent"

// restartedRule is the default rule a restarted server would serve: a new rule manager over the cluster
// storage (below the fault wrapper), initialised the way RaftCluster.Start does.
func restartedRule(fx *livesrv.Fixture) (ruleView, error) {
	rm := placement.NewRuleManager(core.NewStorage(fx.ClusterBase()), nil)
	if err := rm.Initialize(3, nil); err != nil {
		return ruleView{}, err
	}
	r := rm.GetRule("pd", "default")
	if r == nil {
		return ruleView{}, fmt.Errorf("no default rule in storage")
	}
	shape := plainShape
	if r.Role != placement.Voter || len(r.StartKeyHex) > 0 || len(r.EndKeyHex) > 0 || len(r.LabelConstraints) > 0 || r.IsolationLevel != "" {
		shape = fmt.Sprintf("%s/%s..%s/%d constraints/%s", r.Role, r.StartKeyHex, r.EndKeyHex, len(r.LabelConstraints), r.IsolationLevel)
	}
	return ruleView{Count: r.Count, Labels: strings.Join(r.LocationLabels, ","), Shape: shape}, nil
}

// ruleServedVsStored: what the rule manager serves for pd/default must be what is stored (what a restart loads),
// after an accepted update and after a failed / rolled back one alike.
func ruleServedVsStored(fx *livesrv.Fixture) string {
	ra, ok := actualRule(fx)
	if !ok {
		return ""
	}
	rs, err := restartedRule(fx)
	if err != nil {
		return "the stored rules cannot be loaded: " + err.Error()
	}
	if ra != rs {
		return fmt.Sprintf("the rule manager serves the default rule %v, a restarted one loads %v from storage", ra, rs)
	}
	return ""
}

// opFault numbers ALL storage writes of one update in the order they happen — the writes to the server's
// configuration storage (s.storage, swapped per case) and the writes the update's own goroutine issues to
// the cluster-level storage (replication-mode manager: SaveReplicationStatus; placement rule manager:
// SaveRule ...) — and fails the n-th.
type opFault struct {
	mu      sync.Mutex
	n, seen int
	on      string // which storage the failed write went to
}

func (o *opFault) arm(n int) {
	o.mu.Lock()
	o.n, o.seen, o.on = n, 0, ""
	o.mu.Unlock()
}

func (o *opFault) write(where string) error {
	o.mu.Lock()
	defer o.mu.Unlock()
	o.seen++
	if o.n > 0 && o.seen == o.n {
		o.on = where
		return faultkv.ErrInjected
	}
	return nil
}

func (o *opFault) hit() (bool, string) {
	o.mu.Lock()
	defer o.mu.Unlock()
	return o.n > 0 && o.seen >= o.n, o.on
}

// managerDisagrees compares the replication-mode manager with the served replication-mode section
// (only for the two canonical spellings, which the manager itself understands).
func managerDisagrees(fx *livesrv.Fixture) string {
	rc := fx.Svr.GetRaftCluster()
	if rc == nil {
		return ""
	}
	cfg := fx.Svr.GetReplicationModeConfig()
	if cfg.ReplicationMode != "majority" && cfg.ReplicationMode != "dr-auto-sync" {
		return ""
	}
	st := rc.GetReplicationMode().GetReplicationStatusHTTP()
	if st.Mode != cfg.ReplicationMode {
		return fmt.Sprintf("the replication-mode manager runs mode %q, the served section says %q", st.Mode, cfg.ReplicationMode)
	}
	if cfg.ReplicationMode == "dr-auto-sync" && st.DrAutoSync.LabelKey != cfg.DRAutoSync.LabelKey {
		return fmt.Sprintf("the replication-mode manager uses label key %q, the served section says %q", st.DrAutoSync.LabelKey, cfg.DRAutoSync.LabelKey)
	}
	return ""
}

type prepared struct {
	call      func() error
	verdict   string
	why       string // reason for must-reject
	section   int    // index of the section the update targets
	wantJSON  string // what the section must serve once accepted ("" = not checked)
	wantAlt   string // an equally good outcome: the replication mode stored in its canonical spelling
	desc      string
	knownSkip bool // fault injection would hit the known label-rollback class
	httpKnown bool // goes through POST /config/replication-mode: fault injection would hit the known merge-into-served class
	excluded  []string
}

// prepare resolves an op against the live state (as the HTTP API does).
func prepare(fx *livesrv.Fixture, op Op) (*prepared, error) {
	s := fx.Svr
	p := &prepared{verdict: vValid}
	switch op.Kind {
	case "schedule":
		pt := schedulePatches[op.P]
		cfg := s.GetScheduleConfig()
		if err := json.Unmarshal([]byte(pt.JSON), cfg); err != nil {
			return nil, err
		}
		p.section, p.desc = 0, "SetScheduleConfig(served + "+pt.JSON+")"
		p.wantJSON = mustJSON(cfg)
		arg := *cfg
		p.call = func() error { return s.SetScheduleConfig(arg) }
		if op.HTTP {
			p.desc = "POST /config/schedule " + pt.JSON
			p.call = func() error { return post(fx, "/config/schedule", pt.JSON) }
		}
		if d := domainViolation(cfg, nil, nil, ""); d != "" {
			p.verdict, p.why = vReject, d
		} else if pt.Either {
			p.verdict = vEither
		}
	case "replication":
		pt := replicationPatches[op.P]
		cfg := s.GetReplicationConfig()
		if err := json.Unmarshal([]byte(pt.JSON), cfg); err != nil {
			return nil, err
		}
		p.section, p.desc = 1, "SetReplicationConfig(served + "+pt.JSON+")"
		p.wantJSON = mustJSON(cfg)
		arg := *cfg
		p.call = func() error { return s.SetReplicationConfig(arg) }
		if op.HTTP {
			p.desc = "POST /config/replicate " + pt.JSON
			p.call = func() error { return post(fx, "/config/replicate", pt.JSON) }
		}
		if d := domainViolation(nil, cfg, nil, ""); d != "" {
			p.verdict, p.why = vReject, d
		} else if pt.Either {
			p.verdict = vEither
		}
	case "pdserver":
		pt := pdServerPatches[op.P]
		js := strings.ReplaceAll(pt.JSON, "SELF", s.GetAddr())
		cfg := s.GetPDServerConfig()
		if err := json.Unmarshal([]byte(js), cfg); err != nil {
			return nil, err
		}
		p.section, p.desc = 2, "SetPDServerConfig(served + "+pt.JSON+")"
		p.wantJSON = mustJSON(cfg)
		arg := *cfg
		p.call = func() error { return s.SetPDServerConfig(arg) }
		if op.HTTP && singleKey(js) {
			p.desc = "POST /config " + pt.JSON
			p.call = func() error { return post(fx, "/config", js) }
		}
		if d := domainViolation(nil, nil, cfg, ""); d != "" {
			p.verdict, p.why = vReject, d
		} else if pt.Either {
			p.verdict = vEither
		}
	case "replmode":
		pt := replModePatches[op.P]
		cur := *s.GetReplicationModeConfig() // a copy: the getter returns the served object itself
		if err := json.Unmarshal([]byte(pt.JSON), &cur); err != nil {
			return nil, err
		}
		p.section, p.desc = 5, "SetReplicationModeConfig(served + "+pt.JSON+")"
		p.wantJSON = mustJSON(&cur)
		canon := cur
		canon.ReplicationMode = strings.ReplaceAll(strings.ToLower(cur.ReplicationMode), "_", "-")
		p.wantAlt = mustJSON(&canon)
		arg := cur
		p.call = func() error { return s.SetReplicationModeConfig(arg) }
		if d := domainViolation(nil, nil, nil, cur.ReplicationMode); d != "" {
			p.verdict, p.why = vReject, d
		} else if pt.Either {
			p.verdict = vEither
		}
		if op.HTTP {
			// known class: the handler merges the body into the served object before anything is checked, so every
			// POST that ends in an error (unknown mode, failed persist) leaves the merged values served. While that
			// is listed as known, only POSTs that cannot fail go over HTTP; the others use the setter directly.
			p.httpKnown = true
			if !(vkit.Known(findingReplModeHTTP) && p.verdict == vReject) {
				p.desc = "POST /config/replication-mode " + pt.JSON
				p.call = func() error { return post(fx, "/config/replication-mode", pt.JSON) }
			} else {
				p.excluded = append(p.excluded, findingReplModeHTTP)
			}
		}
	case "labelset", "labeldel":
		typ, k, v := labelTypes[op.L[0]], labelKeys[op.L[1]], labelValues[op.L[2]]
		cur := parseLabels(mustJSON(s.GetLabelProperty()))
		var after, back map[string][]label
		if op.Kind == "labelset" {
			after = labelSet(cur, typ, k, v)
			back = labelDel(after, typ, k, v)
			p.desc = fmt.Sprintf("SetLabelProperty(%s,%s,%s)", typ, k, v)
			p.call = func() error { return s.SetLabelProperty(typ, k, v) }
			if op.HTTP {
				p.desc = "POST /config/label-property set " + p.desc
				p.call = func() error {
					return post(fx, "/config/label-property", mustJSON(map[string]string{"type": typ, "label-key": k, "label-value": v, "action": "set"}))
				}
			}
		} else {
			after = labelDel(cur, typ, k, v)
			back = labelSet(after, typ, k, v)
			p.desc = fmt.Sprintf("DeleteLabelProperty(%s,%s,%s)", typ, k, v)
			p.call = func() error { return s.DeleteLabelProperty(typ, k, v) }
			if op.HTTP {
				p.desc = "POST /config/label-property delete " + p.desc
				p.call = func() error {
					return post(fx, "/config/label-property", mustJSON(map[string]string{"type": typ, "label-key": k, "label-value": v, "action": "delete"}))
				}
			}
		}
		p.section, p.wantJSON = 3, mustJSON(after)
		// the known class: undoing by the inverse operation does not give the old value back
		p.knownSkip = mustJSON(back) != mustJSON(cur)
	case "labelcfg":
		var cfg config.LabelPropertyConfig
		if err := json.Unmarshal([]byte(labelCfgs[op.P]), &cfg); err != nil {
			return nil, err
		}
		p.section, p.desc, p.wantJSON = 3, "SetLabelPropertyConfig("+labelCfgs[op.P]+")", mustJSON(cfg)
		p.call = func() error { return s.SetLabelPropertyConfig(cfg) }
	case "version":
		v := versions[op.P]
		p.section, p.desc, p.verdict = 4, fmt.Sprintf("SetClusterVersion(%q)", v.V), v.Verdict
		if v.Verdict == vReject {
			p.why = "not a semantic version"
		}
		if v.Verdict == vValid {
			p.wantJSON = mustJSON(semver.New(v.V))
		}
		p.call = func() error { return s.SetClusterVersion(v.V) }
		if op.HTTP {
			p.desc = "POST /config/cluster-version " + p.desc
			p.call = func() error {
				return post(fx, "/config/cluster-version", mustJSON(map[string]string{"cluster-version": v.V}))
			}
		}
	default:
		return nil, fmt.Errorf("unknown op kind %q", op.Kind)
	}
	return p, nil
}

// runCase executes the case; a violation is reported only if it shows again when the same case is
// executed a second time from scratch. The setters are sequential, deterministic code and a case is a
// pure function of its data, so a genuine violation reproduces; one that does not was caused by
// something outside the case (a background goroutine of the live server) and is counted as undecided.
func runCase(c Case) (vkit.Info, error) {
	info, err := runOnce(c)
	if err == nil {
		return info, nil
	}
	info2, err2 := runOnce(c)
	if err2 == nil {
		info2.Inconclusive = true
		info2.Class("violation-not-reproduced")
		msg := err.Error()
		if i := strings.Index(msg, "): "); i > 0 && i < 200 {
			msg = msg[i+3:]
		}
		if len(msg) > 90 {
			msg = msg[:90]
		}
		info2.Class("violation-not-reproduced: " + msg)
		fmt.Printf("C18: a violation did not reproduce on re-execution and is counted as undecided: %v\n", err)
		return info2, nil
	}
	return info, err
}

func runOnce(c Case) (vkit.Info, error) {
	var info vkit.Info
	fx := livesrv.MustGet()
	if !fx.Healthy() {
		livesrv.Fatal("C18: server lost leadership / cluster stopped")
	}
	w := fx.SwapStorage()
	defer fx.RestoreStorage()
	if err := fx.ResetConfig(w); err != nil {
		if !fx.Healthy() {
			livesrv.Fatal("C18: server lost leadership / cluster stopped")
		}
		livesrv.Fatal("C18: cannot reset the configuration to the base: " + err.Error())
	}
	of := &opFault{}
	w.SetGate(func(kind, key string) error {
		if kind == "save" || kind == "remove" {
			return of.write("config")
		}
		return nil
	})
	fx.ClusterGate(func(kind, key string) error { return of.write("cluster") })
	defer fx.ClusterGate(nil)
	// A long-lived second PersistOptions: the copy of a member that has been around (it reloaded every earlier
	// accepted image, as a member does each time it becomes leader). When it "becomes leader" again its Reload
	// must bring EVERY section to the last accepted image, also when a value went down (cluster version lowered,
	// limits reduced, labels removed) — not only when starting from pristine defaults.
	var member *config.PersistOptions
	if def := config.NewConfig(); def.Adjust(nil, false) == nil {
		member = config.NewPersistOptions(def)
	}
	memberTakesOver := func(where string) error {
		if member == nil {
			return nil
		}
		if err := member.Reload(core.NewStorage(w.Base())); err != nil {
			return vkit.Errf("%s: Reload on a long-lived member: %v", where, err)
		}
		got := snap{mustJSON(member.GetScheduleConfig().Clone()), mustJSON(member.GetReplicationConfig()), mustJSON(member.GetPDServerConfig()),
			mustJSON(member.GetLabelPropertyConfig()), mustJSON(member.GetClusterVersion()), mustJSON(member.GetReplicationModeConfig())}
		if d := diffSnap(normalise(fx), got); d != "" {
			return vkit.Errf("%s: a long-lived member that reloaded the earlier images takes over, and after its Reload it does not serve the last accepted image (served by the leader, normalised => served by the new leader): %s", where, d)
		}
		return nil
	}
	classes := map[string]bool{}
	accepted, rejected, failed := 0, 0, 0
	// model of the default rule: ResetConfig set it to the base replication section; afterwards it follows
	// every ACCEPTED replication update made with placement rules enabled and nothing else (a rejected or
	// failed update leaves it alone; updates made while placement rules are off do not touch it).
	ruleModel := viewOfConfig(fx.Svr.GetReplicationConfig())
	// ---- rule requests (POST /config/rule, POST /config/rules): the handlers first sync the replication
	// section with a posted default rule (SetReplicationConfig: validates, rewrites the default rule's count,
	// persists) and only then hand the posted rule(s) to the rule manager.
	var ruleActive int32
	fx.ClusterGateAll(func(kind, key string) error {
		// the handler runs on its own goroutine: while a rule request is in flight every write to the rule keys
		// of the cluster storage takes part in the numbering (no background goroutine writes rules)
		if atomic.LoadInt32(&ruleActive) == 1 && (kind == "save" || kind == "remove") && (strings.HasPrefix(key, "rule") || key == "config") {
			return of.write("cluster")
		}
		return nil
	})
	defer fx.ClusterGateAll(nil)
	defaultRuleJSON := func() string {
		if rc := fx.Svr.GetRaftCluster(); rc != nil {
			return mustJSON(rc.GetRuleManager().GetRule("pd", "default"))
		}
		return "cluster not running"
	}
	doRule := func(step int, op Op) error {
		cur := fx.Svr.GetReplicationConfig().MaxReplicas
		specs := op.R
		if op.Kind == "rule" && len(specs) > 1 {
			specs = specs[:1]
		}
		if len(specs) == 0 {
			return nil
		}
		build := func() (bodies []map[string]interface{}, anyBad, defaultChanges, hasDefault bool) {
			for _, sp := range specs {
				b, bad, cnt := ruleJSON(sp, cur)
				bodies = append(bodies, b)
				if ruleBodies[sp.B] == "leader" {
					// a second leader rule over the same keys is refused when the rule list is built
					if rc := fx.Svr.GetRaftCluster(); rc != nil {
						for _, r := range rc.GetRuleManager().GetAllRules() {
							if r.Role == placement.Leader && !(r.GroupID == ruleTargets[sp.T][0] && r.ID == ruleTargets[sp.T][1]) {
								bad = true
							}
						}
					}
					for _, o := range specs {
						if o != sp && ruleBodies[o.B] == "leader" && o.T != sp.T {
							bad = true
						}
					}
				}
				anyBad = anyBad || bad
				if sp.T == 0 {
					hasDefault = true
					if cnt > 0 && uint64(cnt) != cur {
						defaultChanges = true
					}
				}
			}
			return
		}
		bodies, anyBad, defaultChanges, hasDefault := build()
		faults := op.Faults
		if defaultChanges && vkit.Known(findingRuleAPISync) {
			// known class: a request that carries the default rule with a count other than the served max-replicas
			// and then fails at the rule manager (rule refused, or rule write failing) leaves max-replicas and the
			// default rule's count changed. While known: such a doomed request carries the current count instead,
			// and no failure is injected into requests that change the count.
			if anyBad {
				for i := range specs {
					if specs[i].T == 0 {
						specs[i].C = len(ruleCounts) - 1
					}
				}
				specs = append([]RuleSpec(nil), specs...)
				bodies, anyBad, defaultChanges, hasDefault = build()
				info.Exclude(findingRuleAPISync)
				classes["known:doomed-default-rule-keeps-current-count"] = true
			} else if faults {
				faults = false
				info.Exclude(findingRuleAPISync)
				classes["known-class-not-faulted"] = true
			}
		}
		path, body := "/config/rule", mustJSON(bodies[0])
		if op.Kind == "rules" {
			path, body = "/config/rules", mustJSON(bodies)
		}
		where := fmt.Sprintf("step %d POST %s %s", step, path, body)
		before, beforeRule := served(fx), defaultRuleJSON()
		exec := func() error {
			atomic.StoreInt32(&ruleActive, 1)
			defer atomic.StoreInt32(&ruleActive, 0)
			return post(fx, path, body)
		}
		unchanged := func(what string, err error) error {
			if d := diffSnap(before, served(fx)); d != "" {
				return vkit.Errf("%s %s (%v) but the served configuration changed: %s", where, what, err, d)
			}
			if got, rerr := reloaded(w); rerr != nil {
				return vkit.Errf("%s %s; %v", where, what, rerr)
			} else if d := diffSnap(normalise(fx), got); d != "" {
				return vkit.Errf("%s %s (%v); a fresh Reload differs from the served configuration (served, normalised => reloaded): %s", where, what, err, d)
			}
			if r := defaultRuleJSON(); r != beforeRule {
				return vkit.Errf("%s %s (%v) but the default placement rule changed: %s => %s", where, what, err, beforeRule, r)
			}
			// (a request with several rules is saved rule by rule; a failure in the middle leaves the earlier records
			// written, which RuleManager.savePatch documents and C13 judges — only single-rule requests are held to it here)
			if len(specs) == 1 {
				if d := ruleServedVsStored(fx); d != "" {
					return vkit.Errf("%s %s (%v) and afterwards %s", where, what, err, d)
				}
			}
			return nil
		}
		var cleanErr error
		cleanDone := false
		if faults {
			for n := 1; n <= 16; n++ {
				of.arm(n)
				err := exec()
				hit, on := of.hit()
				of.arm(0)
				if !hit {
					cleanErr, cleanDone = err, true
					break
				}
				failed++
				classes["failed-"+on+"-write:"+op.Kind] = true
				if err == nil {
					return vkit.Errf("%s: write %d of the request (to the %s storage) failed but the request was answered with success", where, n, on)
				}
				if e := unchanged(fmt.Sprintf("failed at its write %d (%s storage)", n, on), err); e != nil {
					return e
				}
			}
		}
		if !cleanDone {
			of.arm(0)
			cleanErr = exec()
		}
		if cleanErr != nil {
			rejected++
			classes["rejected:"+op.Kind] = true
			classes["rule-request-bad-body"] = classes["rule-request-bad-body"] || anyBad
			if strings.HasPrefix(cleanErr.Error(), "http transport") {
				return fmt.Errorf("harness: %s: %v", where, cleanErr)
			}
			e := unchanged("was answered with an error", cleanErr)
			if e != nil && defaultChanges && vkit.Known(findingRuleAPISync) {
				// the same known class, for a refusal the generator could not foresee (it depends on the other
				// rules being served): tolerated, counted, the model follows the real state
				info.Exclude(findingRuleAPISync)
				classes["known:unforeseen-refusal-after-sync"] = true
				if ra, ok := actualRule(fx); ok {
					ruleModel = ra
				}
				return nil
			}
			return e
		}
		accepted++
		classes["accepted:"+op.Kind] = true
		classes["accepted-default-rule-with-new-count"] = classes["accepted-default-rule-with-new-count"] || defaultChanges
		if got, rerr := reloaded(w); rerr != nil {
			return vkit.Errf("%s accepted; %v", where, rerr)
		} else if d := diffSnap(normalise(fx), got); d != "" {
			return vkit.Errf("%s accepted but a fresh Reload differs from the served configuration (served, normalised => reloaded): %s", where, d)
		}
		if d := servedDomainViolation(fx); d != "" {
			return vkit.Errf("%s accepted; the served configuration is outside its domain: %s", where, d)
		}
		if e := memberTakesOver(where + " accepted"); e != nil {
			return e
		}
		if d := ruleServedVsStored(fx); d != "" {
			return vkit.Errf("%s accepted; %s", where, d)
		}
		if ra, ok := actualRule(fx); ok {
			if hasDefault && uint64(ra.Count) != fx.Svr.GetReplicationConfig().MaxReplicas {
				return vkit.Errf("%s accepted; max-replicas is %d but the default rule's count is %d", where, fx.Svr.GetReplicationConfig().MaxReplicas, ra.Count)
			}
			ruleModel = ra // the request may have given the default rule other labels: follow it
		}
		return nil
	}
	// ---- store limits: POST /store/1/limit. The persistent form changes schedule.store-limit through
	// RaftCluster.SetStoreLimit, which persists the options to the CLUSTER's storage; the TTL form installs a
	// temporary override that must not leak into the configuration.
	doStoreLimit := func(step int, op Op) error {
		rq := storeLimitReqs[op.P]
		path := "/store/1/limit"
		if rq.TTL > 0 {
			path += fmt.Sprintf("?ttlSecond=%d", rq.TTL)
		}
		body := mustJSON(map[string]interface{}{"rate": rq.Rate, "type": rq.Type})
		where := fmt.Sprintf("step %d POST %s %s", step, path, body)
		before := served(fx)
		exec := func() error {
			atomic.StoreInt32(&ruleActive, 1)
			defer atomic.StoreInt32(&ruleActive, 0)
			return post(fx, path, body)
		}
		if op.Faults && rq.TTL == 0 {
			for n := 1; n <= 8; n++ {
				of.arm(n)
				err := exec()
				hit, on := of.hit()
				of.arm(0)
				if !hit {
					break
				}
				failed++
				classes["failed-"+on+"-write:storelimit"] = true
				if err == nil {
					return vkit.Errf("%s: write %d of the request failed but the request was answered with success", where, n)
				}
				if d := diffSnap(before, served(fx)); d != "" {
					return vkit.Errf("%s failed at its write %d (%v) but the served configuration changed: %s", where, n, err, d)
				}
			}
			before = served(fx)
		}
		of.arm(0)
		err := exec()
		after := served(fx)
		if err != nil {
			if strings.HasPrefix(err.Error(), "http transport") {
				return fmt.Errorf("harness: %s: %v", where, err)
			}
			rejected++
			classes["rejected:storelimit"] = true
			if d := diffSnap(before, after); d != "" {
				return vkit.Errf("%s was answered with an error (%v) but the served configuration changed: %s", where, err, d)
			}
			return nil
		}
		if rq.TTL > 0 {
			classes["storelimit-ttl-override"] = true
			if d := diffSnap(before, after); d != "" {
				return vkit.Errf("%s installed a temporary store limit and the served configuration changed: %s", where, d)
			}
			return nil
		}
		accepted++
		classes["accepted:storelimit"] = true
		if rq.Rate <= 0 {
			return vkit.Errf("%s was accepted although the rate is not positive", where)
		}
		for i := 1; i < len(after); i++ {
			if after[i] != before[i] {
				return vkit.Errf("%s accepted and changed another section, %s: %s => %s", where, sectionNames[i], before[i], after[i])
			}
		}
		lim := fx.Svr.GetScheduleConfig().StoreLimit[1]
		got := lim.AddPeer
		if rq.Type == "remove-peer" {
			got = lim.RemovePeer
		}
		if got != rq.Rate {
			return vkit.Errf("%s accepted but schedule.store-limit[1] is %+v", where, lim)
		}
		// durable: this setter persists to the cluster storage
		re, rerr := reloadedFrom(fx.ClusterBase())
		if rerr != nil {
			return vkit.Errf("%s accepted; %v", where, rerr)
		}
		if d := diffSnap(normalise(fx), re); d != "" {
			return vkit.Errf("%s accepted but a fresh Reload from the cluster storage differs from the served configuration (served, normalised => reloaded): %s", where, d)
		}
		// harness: the other setters persist to the per-case configuration storage; bring it in step with what
		// is served now so that their "Reload == served" checks keep their meaning
		if e := fx.Svr.GetPersistOptions().Persist(core.NewStorage(w.Base())); e != nil {
			return fmt.Errorf("harness: %v", e)
		}
		return memberTakesOver(where + " accepted")
	}
	for step, op := range c.Ops {
		if op.Kind == "storelimit" {
			if err := doStoreLimit(step, op); err != nil {
				return info, err
			}
			continue
		}
		if op.Kind == "rule" || op.Kind == "rules" {
			if err := doRule(step, op); err != nil {
				return info, err
			}
			if !fx.Healthy() {
				livesrv.Fatal("C18: server lost leadership / cluster stopped during a case")
			}
			continue
		}
		p, err := prepare(fx, op)
		if err != nil {
			return info, fmt.Errorf("harness: step %d %+v cannot be prepared: %v", step, op, err)
		}
		before := served(fx)
		beforeRepl := fx.Svr.GetReplicationConfig()
		ruleBefore, ruleOK := actualRule(fx)
		where := fmt.Sprintf("step %d %s", step, p.desc)
		for _, k := range p.excluded {
			info.Exclude(k)
		}
		// ---- fault enumeration: fail the n-th write of this update, n = 1, 2, ...
		var cleanErr error
		cleanDone := false
		if op.Faults {
			if p.knownSkip && vkit.Known(findingLabelRollback) {
				info.Exclude(findingLabelRollback)
				classes["known-class-not-faulted"] = true
			} else if p.httpKnown && vkit.Known(findingReplModeHTTP) {
				info.Exclude(findingReplModeHTTP)
				classes["known-class-not-faulted"] = true
			} else {
				for n := 1; n <= 16; n++ {
					of.arm(n)
					err := p.call()
					hit, on := of.hit()
					of.arm(0)
					if !hit {
						// fewer than n writes: this execution ran without any fault
						cleanErr, cleanDone = err, true
						break
					}
					failed++
					if on == "cluster" {
						classes["failed-cluster-write:"+op.Kind] = true
					} else {
						classes["failed-persist:"+op.Kind] = true
					}
					if err == nil {
						return info, vkit.Errf("%s: write %d of the update (to the %s storage) failed but the update reported success; served afterwards: %s", where, n, on, served(fx)[p.section])
					}
					if d := diffSnap(before, served(fx)); d != "" {
						return info, vkit.Errf("%s: write %d of the update failed (error returned: %v) but the served configuration changed: %s", where, n, err, d)
					}
					if got, rerr := reloaded(w); rerr != nil {
						return info, vkit.Errf("%s: write %d of the update failed; %v", where, n, rerr)
					} else if d := diffSnap(normalise(fx), got); d != "" {
						return info, vkit.Errf("%s: write %d of the update (to the %s storage) failed (error returned: %v); the served configuration is unchanged but a fresh Reload now differs from it (served, normalised => reloaded): %s", where, n, on, err, d)
					}
					if d := managerDisagrees(fx); d != "" {
						return info, vkit.Errf("%s: write %d of the update failed (error returned: %v) and %s", where, n, err, d)
					}
					if op.Kind == "replication" {
						if d := ruleServedVsStored(fx); d != "" {
							if !(on == "config" && vkit.Known(findingRollbackRule)) {
								return info, vkit.Errf("%s: write %d of the update (to the %s storage) failed (error returned: %v) and afterwards %s", where, n, on, err, d)
							}
							// known class: the roll back of the default rule after a failed Persist is served but not stored.
							// Counted; the harness writes the served rule into the storage so that the search goes on.
							info.Exclude(findingRollbackRule)
							classes["known:rolled-back-rule-not-stored"] = true
							if rc := fx.Svr.GetRaftCluster(); rc != nil {
								if r := rc.GetRuleManager().GetRule("pd", "default"); r != nil {
									core.NewStorage(fx.ClusterBase()).SaveRule(r.StoreKey(), r)
								}
							}
						}
					}
					if op.Kind == "replication" && ruleOK {
						if ra, ok := actualRule(fx); ok && ra != ruleBefore {
							if !vkit.Known(findingRuleLabels) {
								return info, vkit.Errf("%s: write %d of the update failed (error returned: %v) but the default placement rule was left changed: %v => %v (replication section still %s)",
									where, n, err, ruleBefore, ra, before[1])
							}
							info.Exclude(findingRuleLabels)
							classes["known:rule-left-changed-after-failed-persist"] = true
						}
					}
				}
			}
		}
		if !cleanDone {
			of.arm(0)
			cleanErr = p.call()
		}
		after := served(fx)
		if cleanErr != nil {
			rejected++
			classes["rejected:"+p.verdict] = true
			if p.verdict == vValid {
				// A value inside every stated domain was refused. The only legitimate cause in this fixture: the
				// replication section was changed while placement rules were off (the default rule is not touched
				// then), so after re-enabling them rule and section disagree and SetReplicationConfig refuses
				// max-replicas / location-labels changes ("please update rule instead"). The model knows when that
				// is the case; a refusal it cannot explain is a violation (it used to be the visible effect of the
				// default rule keeping new labels after a failed persist).
				// (or a rule request gave the default rule other labels, another role, a key range or constraints, with
				// which the requested count / labels cannot be combined)
				explained := op.Kind == "replication" && ruleModel != viewOfConfig(beforeRepl)
				inconsistent := op.Kind == "replication" && strings.Contains(cleanErr.Error(), msgRuleInconsistent)
				switch {
				case explained:
					classes["valid-but-refused:rule-diverged-from-replication-section"] = true
				case inconsistent && vkit.Known(findingEmptyLabels) && ruleModel.Labels == "" && len(beforeRepl.LocationLabels) == 0:
					// known class: rule and section agree, both without location labels, but one is nil and the other
					// an empty slice and the setter compares them with reflect.DeepEqual
					info.Exclude(findingEmptyLabels)
					classes["known:valid-but-refused-empty-labels"] = true
				case op.Kind == "replication" && strings.Contains(cleanErr.Error(), msgRuleInconsistent) && vkit.Known(findingRuleLabels):
					info.Exclude(findingRuleLabels)
					classes["known:valid-but-refused-after-failed-persist"] = true
				default:
					ra, _ := actualRule(fx)
					return info, vkit.Errf("%s is inside every stated domain but was refused: %v (replication section %s, default rule %v, expected default rule %v)",
						where, cleanErr, before[1], ra, ruleModel)
				}
			}
			if d := diffSnap(before, after); d != "" {
				return info, vkit.Errf("%s was rejected (%v) but the served configuration changed: %s", where, cleanErr, d)
			}
			if got, rerr := reloaded(w); rerr != nil {
				return info, vkit.Errf("%s was rejected; %v", where, rerr)
			} else if d := diffSnap(normalise(fx), got); d != "" {
				return info, vkit.Errf("%s was rejected (%v); a fresh Reload differs from the unchanged served configuration (served, normalised => reloaded): %s", where, cleanErr, d)
			}
			if d := managerDisagrees(fx); d != "" {
				return info, vkit.Errf("%s was rejected (%v) and %s", where, cleanErr, d)
			}
			if op.Kind == "replication" {
				if d := ruleServedVsStored(fx); d != "" {
					return info, vkit.Errf("%s was rejected (%v) and afterwards %s", where, cleanErr, d)
				}
			}
			if !fx.Healthy() {
				livesrv.Fatal("C18: server lost leadership / cluster stopped during a case")
			}
			continue
		}
		accepted++
		classes["accepted:"+op.Kind] = true
		if op.Kind == "replication" {
			now := fx.Svr.GetReplicationConfig()
			if now.EnablePlacementRules && viewOfConfig(now) != viewOfConfig(beforeRepl) {
				shape := ruleModel.Shape // the setter rewrites count and labels only
				ruleModel = viewOfConfig(now)
				ruleModel.Shape = shape
			}
			if d := ruleServedVsStored(fx); d != "" {
				return info, vkit.Errf("%s accepted; %s", where, d)
			}
			if ra, ok := actualRule(fx); ok && ra != ruleModel && !vkit.Known(findingRuleLabels) {
				return info, vkit.Errf("%s accepted; the default placement rule is %v, expected %v (replication section %s)", where, ra, ruleModel, after[1])
			}
		}
		classes["via-http"] = classes["via-http"] || op.HTTP
		if p.verdict == vReject {
			return info, vkit.Errf("%s was accepted although %s", where, p.why)
		}
		classes["accepted-"+p.verdict] = true
		if d := servedDomainViolation(fx); d != "" {
			return info, vkit.Errf("%s accepted; the served configuration is outside its domain: %s", where, d)
		}
		for i := range after {
			if i == p.section {
				if p.wantJSON != "" && after[i] != p.wantJSON && !(p.wantAlt != "" && after[i] == p.wantAlt) {
					return info, vkit.Errf("%s accepted but section %s serves %s, requested %s", where, sectionNames[i], after[i], p.wantJSON)
				}
			} else if after[i] != before[i] {
				return info, vkit.Errf("%s accepted and changed another section, %s: %s => %s", where, sectionNames[i], before[i], after[i])
			}
		}
		// durable: what a new leader reloads
		got, err := reloaded(w)
		if err != nil {
			return info, vkit.Errf("%s accepted; %v", where, err)
		}
		want := normalise(fx)
		if d := diffSnap(want, got); d != "" {
			return info, vkit.Errf("%s accepted but a fresh Reload differs from the served configuration (served, normalised => reloaded): %s", where, d)
		}
		if d := managerDisagrees(fx); d != "" {
			return info, vkit.Errf("%s accepted but %s", where, d)
		}
		if e := memberTakesOver(where + " accepted"); e != nil {
			return info, e
		}
		for i := range want {
			if want[i] != after[i] {
				classes["reload-normalised:"+sectionNames[i]] = true
			}
		}
	}
	// a newly elected leader whose read of the stored configuration FAILS must see an error, not defaults
	if accepted > 0 {
		def := config.NewConfig()
		if err := def.Adjust(nil, false); err == nil {
			o := config.NewPersistOptions(def)
			snapO := func() snap {
				return snap{mustJSON(o.GetScheduleConfig().Clone()), mustJSON(o.GetReplicationConfig()), mustJSON(o.GetPDServerConfig()),
					mustJSON(o.GetLabelPropertyConfig()), mustJSON(o.GetClusterVersion()), mustJSON(o.GetReplicationModeConfig())}
			}
			b := snapO()
			fk := faultkv.New(w.Base())
			fk.FailLoads = true
			if err := o.Reload(core.NewStorage(fk)); err == nil {
				return info, vkit.Errf("PersistOptions.Reload reported success although the read of the stored configuration failed")
			}
			if d := diffSnap(b, snapO()); d != "" {
				return info, vkit.Errf("PersistOptions.Reload failed (storage read error) but changed the options: %s", d)
			}
			classes["reload-read-fault"] = true
		}
	}
	for k, on := range classes {
		if !on {
			continue
		}
		info.Classes = append(info.Classes, k)
	}
	sort.Strings(info.Classes)
	info.NonTrivial = accepted >= 1 && rejected >= 1 && failed >= 1
	return info, nil
}

// TestFinding_label_property_rollback_inverse: with every write failing,
// SetLabelProperty of a label that is already present removes it and
// DeleteLabelProperty of an absent label adds it (rollback by the inverse operation).
func TestFinding_label_property_rollback_inverse(t *testing.T) {
	defer livesrv.Shutdown()
	fx, err := livesrv.Get()
	if err != nil {
		t.Logf("fixture did not start: %v", err)
		return
	}
	w := fx.SwapStorage()
	defer fx.RestoreStorage()
	if err := fx.ResetConfig(w); err != nil {
		t.Logf("probe undecided: %v", err)
		return
	}
	s := fx.Svr
	if err := s.SetLabelProperty("reject-leader", "zone", "z1"); err != nil {
		t.Logf("probe undecided: %v", err)
		return
	}
	a := mustJSON(s.GetLabelProperty())
	w.FailAllW = true
	e1 := s.SetLabelProperty("reject-leader", "zone", "z1")
	b := mustJSON(s.GetLabelProperty())
	e2 := s.DeleteLabelProperty("reject-leader", "host", "h9")
	c := mustJSON(s.GetLabelProperty())
	w.FailAllW = false
	rep := e1 != nil && e2 != nil && (a != b || b != c)
	vkit.Finding(t, findingLabelRollback, rep, fmt.Sprintf("served label properties %s; SetLabelProperty(reject-leader,zone,z1) with failing storage: err=%v, served %s; DeleteLabelProperty(reject-leader,host,h9) with failing storage: err=%v, served %s", a, e1 != nil, b, e2 != nil, c))
}

// TestFinding_replication_mode_http_merge_into_served: a POST /config/replication-mode that is
// refused (unknown mode) nevertheless leaves the posted values served, because the handler
// unmarshals the body into the object returned by Server.GetReplicationModeConfig, which is the
// served object itself (every other section getter returns a clone).
func TestFinding_replication_mode_http_merge_into_served(t *testing.T) {
	defer livesrv.Shutdown()
	fx, err := livesrv.Get()
	if err != nil {
		t.Logf("fixture did not start: %v", err)
		return
	}
	w := fx.SwapStorage()
	defer fx.RestoreStorage()
	if err := fx.ResetConfig(w); err != nil {
		t.Logf("probe undecided: %v", err)
		return
	}
	a := mustJSON(fx.Svr.GetReplicationModeConfig())
	e := post(fx, "/config/replication-mode", `{"replication-mode":"quorum"}`)
	b := mustJSON(fx.Svr.GetReplicationModeConfig())
	if e != nil && strings.HasPrefix(e.Error(), "http transport") {
		t.Logf("probe undecided: %v", e)
		return
	}
	fx.ResetConfig(w)
	vkit.Finding(t, findingReplModeHTTP, e != nil && a != b, fmt.Sprintf("served %s; POST /config/replication-mode {replication-mode: quorum} => %v; served afterwards %s", a, e, b))
}

// TestFinding_replication_rule_labels_not_rolled_back: placement rules enabled; a
// SetReplicationConfig that changes the location labels fails at its persist; the served
// section is restored but the default rule used to keep the new labels, so the next valid
// max-replicas change was refused with "default rules do not consistent".
func TestFinding_replication_rule_labels_not_rolled_back(t *testing.T) {
	defer livesrv.Shutdown()
	fx, err := livesrv.Get()
	if err != nil {
		t.Logf("fixture did not start: %v", err)
		return
	}
	w := fx.SwapStorage()
	defer fx.RestoreStorage()
	if err := fx.ResetConfig(w); err != nil {
		t.Logf("probe undecided: %v", err)
		return
	}
	s := fx.Svr
	// precondition, established behind the setters: placement rules on, location labels [zone] in the
	// replication section and in the default rule (non-empty, so that the separate nil-vs-empty
	// comparison problem cannot interfere)
	cfg := s.GetReplicationConfig()
	cfg.EnablePlacementRules = true
	cfg.LocationLabels = []string{"zone"}
	s.GetPersistOptions().SetReplicationConfig(cfg.Clone())
	if err := s.GetRaftCluster().GetRuleManager().SetRule(&placement.Rule{GroupID: "pd", ID: "default", Role: placement.Voter,
		Count: int(cfg.MaxReplicas), LocationLabels: []string{"zone"}}); err != nil {
		t.Logf("probe undecided: %v", err)
		fx.ResetConfig(w)
		return
	}
	cfg = s.GetReplicationConfig()
	r0, _ := actualRule(fx)
	cfg.LocationLabels = []string{"zone", "rack"}
	w.FailNth(1)
	e1 := s.SetReplicationConfig(*cfg)
	w.ResetCounters()
	r1, _ := actualRule(fx)
	if e1 == nil || !strings.Contains(e1.Error(), faultkv.ErrInjected.Error()) {
		t.Logf("probe undecided: the update with a failing persist did not fail at its persist: %v", e1)
		fx.ResetConfig(w)
		return
	}
	cfg = s.GetReplicationConfig()
	cfg.MaxReplicas = 5
	e2 := s.SetReplicationConfig(*cfg)
	rep := e2 != nil && strings.Contains(e2.Error(), msgRuleInconsistent)
	fx.ResetConfig(w)
	vkit.Finding(t, findingRuleLabels, rep, fmt.Sprintf("default rule %v; SetReplicationConfig(location-labels zone,rack) with failing persist: err=%v, default rule afterwards %v; then SetReplicationConfig(max-replicas 5) without fault: err=%v", r0, e1, r1, e2))
}

// TestFinding_replication_empty_labels_nil_vs_empty: placement rules enabled (default), no
// location labels (default): SetReplicationConfig(max-replicas 5) is refused with "default rules
// do not consistent" although rule and section agree, because the rule copy returned by
// RuleManager.GetRule went through JSON (location_labels omitempty => nil) and the setter compares
// it with the section's empty slice using reflect.DeepEqual.
func TestFinding_replication_empty_labels_nil_vs_empty(t *testing.T) {
	defer livesrv.Shutdown()
	fx, err := livesrv.Get()
	if err != nil {
		t.Logf("fixture did not start: %v", err)
		return
	}
	w := fx.SwapStorage()
	defer fx.RestoreStorage()
	if err := fx.ResetConfig(w); err != nil {
		t.Logf("probe undecided: %v", err)
		return
	}
	s := fx.Svr
	cfg := s.GetReplicationConfig()
	if !cfg.EnablePlacementRules || len(cfg.LocationLabels) != 0 {
		t.Logf("probe undecided: base is not the default (placement rules on, no labels): %s", mustJSON(cfg))
		return
	}
	r0, _ := actualRule(fx)
	cfg.MaxReplicas = 5
	e := s.SetReplicationConfig(*cfg)
	fx.ResetConfig(w)
	vkit.Finding(t, findingEmptyLabels, e != nil && strings.Contains(e.Error(), msgRuleInconsistent),
		fmt.Sprintf("replication section %s, default rule %v; SetReplicationConfig(max-replicas 5): err=%v", mustJSON(s.GetReplicationConfig()), r0, e))
}

// ---------------------------------------------------------------- leader start-up on a cluster with regions
//
// "startup": the raft cluster is restarted the way the leader callback does it (RaftCluster.Start), on a
// cluster whose region was loaded from storage and has not reported yet, so the new coordinator waits
// before it starts its schedulers — and when it does it writes the WHOLE schedule section back
// (coordinator.run: SetScheduleConfig(clone) + Persist). Generated updates are applied (a) during the
// wait, (b) optionally while coordinator.run is parked at the storage write of that write-back, (c)
// after the schedulers run. Oracle as for "config": an accepted update is served and is what a fresh
// Reload returns, whatever the coordinator did in between; a rejected one changes nothing. In this
// property the server's storage is the cluster-level (etcd) storage, as on a real leader.

type StartCase struct {
	During []Op `json:"during"`           // applied while the coordinator waits for region heartbeats
	Park   bool `json:"park,omitempty"`   // park coordinator.run at the Save of its write-back Persist ...
	Parked []Op `json:"parked,omitempty"` // ... and apply these meanwhile
	After  []Op `json:"after,omitempty"`
}

func genStart(t *rapid.T) StartCase {
	var c StartCase
	plain := func() Op {
		op := genOp(t)
		op.Faults = false
		if op.Kind == "rule" || op.Kind == "rules" || op.Kind == "storelimit" {
			op = Op{Kind: "replication", P: 0} // rule and store-limit requests belong to the config family
		}
		return op
	}
	for i, n := 0, rapid.IntRange(1, 4).Draw(t, "during"); i < n; i++ {
		op := plain()
		if i == 0 && rapid.IntRange(0, 1).Draw(t, "scheduleFirst") == 0 {
			// make an ACCEPTED schedule update during the wait frequent
			op = Op{Kind: "schedule", P: rapid.IntRange(0, 19).Draw(t, "validSchedule")}
		}
		c.During = append(c.During, op)
	}
	c.Park = rapid.IntRange(0, 1).Draw(t, "park") == 1
	if c.Park {
		for i, n := 0, rapid.IntRange(1, 2).Draw(t, "parked"); i < n; i++ {
			c.Parked = append(c.Parked, plain())
		}
	}
	for i, n := 0, rapid.IntRange(0, 2).Draw(t, "after"); i < n; i++ {
		c.After = append(c.After, plain())
	}
	return c
}

// applyChecked executes one update without faults and checks it like the "config" property does.
func applyChecked(fx *livesrv.Fixture, op Op, where string) (accepted bool, err error) {
	op.Faults = false
	p, perr := prepare(fx, op)
	if perr != nil {
		return false, fmt.Errorf("harness: %s %+v cannot be prepared: %v", where, op, perr)
	}
	where += " " + p.desc
	before := served(fx)
	cerr := p.call()
	after := served(fx)
	if cerr != nil {
		if d := diffSnap(before, after); d != "" {
			return false, vkit.Errf("%s was rejected (%v) but the served configuration changed: %s", where, cerr, d)
		}
		return false, nil
	}
	if p.verdict == vReject {
		return true, vkit.Errf("%s was accepted although %s", where, p.why)
	}
	for i := range after {
		if i == p.section {
			if p.wantJSON != "" && after[i] != p.wantJSON && !(p.wantAlt != "" && after[i] == p.wantAlt) {
				return true, vkit.Errf("%s accepted but section %s serves %s, requested %s", where, sectionNames[i], after[i], p.wantJSON)
			}
		} else if after[i] != before[i] {
			return true, vkit.Errf("%s accepted and changed another section, %s: %s => %s", where, sectionNames[i], before[i], after[i])
		}
	}
	return true, nil
}

func durable(fx *livesrv.Fixture, where string) error {
	got, err := reloadedFrom(fx.ClusterBase())
	if err != nil {
		return vkit.Errf("%s: %v", where, err)
	}
	if d := diffSnap(normalise(fx), got); d != "" {
		return vkit.Errf("%s: a fresh Reload differs from the served configuration (served, normalised => reloaded): %s", where, d)
	}
	return nil
}

func runStart(c StartCase) (vkit.Info, error) {
	info, err := runStartOnce(c)
	if err == nil {
		return info, nil
	}
	// the coordinator is a background goroutine: report only what shows again
	info2, err2 := runStartOnce(c)
	if err2 == nil {
		info2.Inconclusive = true
		info2.Class("violation-not-reproduced")
		return info2, nil
	}
	return info, err
}

func runStartOnce(c StartCase) (info vkit.Info, err error) {
	fx := livesrv.MustGet()
	if !fx.Healthy() {
		livesrv.Fatal("C18: server lost leadership / cluster stopped")
	}
	fx.RestoreStorage() // the cluster-level storage is the server's storage here
	if e := fx.ResetConfig(nil); e != nil {
		livesrv.Fatal("C18: cannot reset the configuration to the base: " + e.Error())
	}
	if e := fx.Svr.GetPersistOptions().Persist(core.NewStorage(fx.ClusterBase())); e != nil {
		livesrv.Fatal("C18: cannot persist the base configuration: " + e.Error())
	}
	park := c.Park
	if park && vkit.Known(findingCoordStale) {
		// known class: an update accepted while coordinator.run is between its snapshot and its write-back
		info.Exclude(findingCoordStale)
		info.Class("known:park-at-write-back-skipped")
		park = false
	}
	parked, release := make(chan struct{}), make(chan struct{})
	var once, relOnce sync.Once
	doRelease := func() { relOnce.Do(func() { close(release) }) }
	if park {
		fx.ClusterGateAll(func(kind, key string) error {
			if kind == "save" && key == "config" && livesrv.OnCoordinatorRun() {
				once.Do(func() { close(parked) })
				select {
				case <-release:
				case <-time.After(40 * time.Second):
				}
			}
			return nil
		})
	}
	// whatever happens, leave the fixture with a started coordinator and no gate
	defer func() {
		doRelease()
		fx.HeartbeatBootstrapRegion()
		werr := fx.WaitCoordinator(30 * time.Second)
		fx.ClusterGateAll(nil)
		if werr != nil {
			livesrv.Fatal("C18: " + werr.Error())
		}
	}()
	if e := fx.RestartCluster(); e != nil {
		livesrv.Fatal("C18: " + e.Error())
	}
	if !livesrv.CoordinatorStarting() {
		info.Inconclusive = true
		info.Class("coordinator-did-not-wait")
		return info, nil
	}
	accepted := 0
	for i, op := range c.During {
		ok, e := applyChecked(fx, op, fmt.Sprintf("while the coordinator waits, update %d", i))
		if e != nil {
			return info, e
		}
		if ok {
			accepted++
			info.ClassIf(op.Kind == "schedule", "schedule-update-during-wait")
			if e := durable(fx, fmt.Sprintf("while the coordinator waits, after accepted update %d", i)); e != nil {
				return info, e
			}
		}
	}
	if !livesrv.CoordinatorStarting() {
		info.Inconclusive = true
		info.Class("coordinator-did-not-wait")
		return info, nil
	}
	last := served(fx)
	if e := fx.HeartbeatBootstrapRegion(); e != nil {
		info.Inconclusive = true
		info.Class("heartbeat-error")
		return info, nil
	}
	if park {
		select {
		case <-parked:
		case <-time.After(20 * time.Second):
			info.Inconclusive = true
			info.Class("coordinator-not-parked")
			return info, nil
		}
		// the coordinator has put its snapshot of the schedule section back and is about to persist
		if d := diffSnap(last, served(fx)); d != "" {
			return info, vkit.Errf("the coordinator, about to persist the schedule configuration, changed what is served: %s", d)
		}
		// The meanwhile-updates run on their own goroutine, one after the other: if Persist is serialised they
		// block behind the coordinator's parked save until it is released (both outcomes are fine). Give them a
		// short head start, release the coordinator, join them, then judge.
		type res struct {
			accepted int
			err      error
			last     snap
		}
		done := make(chan res, 1)
		go func() {
			var r res
			for i, op := range c.Parked {
				ok, e := applyChecked(fx, op, fmt.Sprintf("while coordinator.run is parked at its write-back, update %d", i))
				if e != nil {
					r.err = e
					break
				}
				if ok {
					r.accepted++
				}
			}
			r.last = served(fx)
			done <- r
		}()
		var r res
		joined := false
		select {
		case r = <-done:
			joined = true
			info.Class("updates-finished-while-parked")
		case <-time.After(50 * time.Millisecond):
			info.Class("updates-still-running-at-release")
		}
		doRelease()
		if !joined {
			select {
			case r = <-done:
			case <-time.After(40 * time.Second):
				livesrv.Fatal("C18: an update started while coordinator.run was parked did not return after the release")
			}
		}
		if r.err != nil {
			return info, r.err
		}
		accepted += r.accepted
		info.ClassIf(r.accepted > 0, "update-during-write-back")
		last = r.last
	}
	if e := fx.WaitCoordinator(20 * time.Second); e != nil {
		info.Inconclusive = true
		info.Class("coordinator-slow")
		return info, nil
	}
	if d := diffSnap(last, served(fx)); d != "" {
		return info, vkit.Errf("after %d accepted update(s) the coordinator started its schedulers and the served configuration changed: %s", accepted, d)
	}
	if e := durable(fx, "after the coordinator started its schedulers"); e != nil {
		return info, e
	}
	for i, op := range c.After {
		ok, e := applyChecked(fx, op, fmt.Sprintf("after the coordinator started, update %d", i))
		if e != nil {
			return info, e
		}
		if ok {
			accepted++
			if e := durable(fx, fmt.Sprintf("after the coordinator started, after accepted update %d", i)); e != nil {
				return info, e
			}
		}
	}
	info.ClassIf(park, "parked-at-write-back")
	info.NonTrivial = accepted >= 1
	return info, nil
}

// TestFinding_coordinator_writeback_stale_persist: coordinator.run ends with
// opt.SetScheduleConfig(snapshot) + opt.Persist(storage); Persist marshals the whole configuration and
// then saves it. An update accepted (served and persisted) while coordinator.run is parked at that Save is
// overwritten in storage by the older image: the server keeps serving the update, a new leader reloads the
// configuration from before it.
func TestFinding_coordinator_writeback_stale_persist(t *testing.T) {
	defer livesrv.Shutdown()
	fx, err := livesrv.Get()
	if err != nil {
		t.Logf("fixture did not start: %v", err)
		return
	}
	c := StartCase{During: []Op{{Kind: "version", P: 0}}, Park: true, Parked: []Op{{Kind: "schedule", P: 0}}}
	saved := os.Getenv("VERIF_KNOWN")
	os.Setenv("VERIF_KNOWN", "") // the probe must run the parked scenario even while the class is excluded
	info, rerr := runStartOnce(c)
	os.Setenv("VERIF_KNOWN", saved)
	if info.Inconclusive {
		t.Logf("probe undecided: %v", info.Classes)
		return
	}
	_ = fx
	detail := "restart of the raft cluster, region heartbeat, coordinator.run parked at the Save of its write-back Persist, SetScheduleConfig(max-snapshot-count 5) accepted meanwhile, coordinator released: "
	if rerr != nil {
		detail += rerr.Error()
		if len(detail) > 700 {
			detail = detail[:700]
		}
	} else {
		detail += "served and reloaded configuration agree"
	}
	vkit.Finding(t, findingCoordStale, rerr != nil && strings.Contains(rerr.Error(), "fresh Reload differs"), detail)
}

// TestFinding_rule_api_syncs_replication_before_setrule: POST /config/rule for pd/default first
// syncs the replication section (max-replicas := rule.count, default rule's count rewritten,
// persisted) and only then hands the rule to the rule manager; when that rejects the rule the
// request is answered 400 but max-replicas and the default rule's count stay changed.
func TestFinding_rule_api_syncs_replication_before_setrule(t *testing.T) {
	defer livesrv.Shutdown()
	fx, err := livesrv.Get()
	if err != nil {
		t.Logf("fixture did not start: %v", err)
		return
	}
	w := fx.SwapStorage()
	defer fx.RestoreStorage()
	if err := fx.ResetConfig(w); err != nil {
		t.Logf("probe undecided: %v", err)
		return
	}
	cfg := fx.Svr.GetReplicationConfig()
	if !cfg.EnablePlacementRules || cfg.MaxReplicas == 1 {
		t.Logf("probe undecided: base %s", mustJSON(cfg))
		return
	}
	a, ra := mustJSON(cfg), mustJSON(fx.Svr.GetRaftCluster().GetRuleManager().GetRule("pd", "default"))
	e := post(fx, "/config/rule", `{"group_id":"pd","id":"default","role":"bogus","count":1,"start_key":"","end_key":""}`)
	b, rb := mustJSON(fx.Svr.GetReplicationConfig()), mustJSON(fx.Svr.GetRaftCluster().GetRuleManager().GetRule("pd", "default"))
	got, _ := reloaded(w)
	fx.ResetConfig(w)
	if e != nil && strings.HasPrefix(e.Error(), "http transport") {
		t.Logf("probe undecided: %v", e)
		return
	}
	vkit.Finding(t, findingRuleAPISync, e != nil && (a != b || ra != rb),
		fmt.Sprintf("replication %s, default rule %s; POST /config/rule {pd/default, role bogus, count 1} => %v; replication afterwards %s (reloaded %s), default rule afterwards %s", a, ra, e, b, got[1], rb))
}

// TestFinding_replication_rollback_rule_not_persisted: placement rules enabled,
// SetReplicationConfig(max-replicas 5) whose configuration write fails: the setter rolls the default
// rule back by editing the rule object it has just handed to RuleManager.SetRule — which the manager
// now serves as is — and setting it again; the manager compares the object with itself, trims the
// update as a no-op and never writes it: the rule manager serves count 3, storage keeps count 5, a
// restart loads 5.
func TestFinding_replication_rollback_rule_not_persisted(t *testing.T) {
	defer livesrv.Shutdown()
	fx, err := livesrv.Get()
	if err != nil {
		t.Logf("fixture did not start: %v", err)
		return
	}
	w := fx.SwapStorage()
	defer fx.RestoreStorage()
	if err := fx.ResetConfig(w); err != nil {
		t.Logf("probe undecided: %v", err)
		return
	}
	cfg := fx.Svr.GetReplicationConfig()
	if !cfg.EnablePlacementRules || cfg.MaxReplicas == 5 {
		t.Logf("probe undecided: base %s", mustJSON(cfg))
		return
	}
	cfg.MaxReplicas = 5
	w.FailNth(1) // the configuration write; the rule writes go to the cluster storage
	e := fx.Svr.SetReplicationConfig(*cfg)
	w.ResetCounters()
	if e == nil || !strings.Contains(e.Error(), faultkv.ErrInjected.Error()) {
		t.Logf("probe undecided: the update did not fail at its persist: %v", e)
		fx.ResetConfig(w)
		return
	}
	ra, _ := actualRule(fx)
	rs, rerr := restartedRule(fx)
	fx.ResetConfig(w)
	if rerr != nil {
		t.Logf("probe undecided: %v", rerr)
		return
	}
	vkit.Finding(t, findingRollbackRule, ra != rs, fmt.Sprintf("SetReplicationConfig(max-replicas 5) with its configuration write failing: err=%v; max-replicas served %d; default rule served %v, loaded by a restarted rule manager %v", e, fx.Svr.GetReplicationConfig().MaxReplicas, ra, rs))
}
