package c04

// Property "grpc" — the SERVER layer of id allocation on a live, bootstrapped 1-member PD
// (shared fixture harness/livesrv): concurrent gRPC AllocID and AskBatchSplit calls (real grpc
// connection to the member's client URL) and direct Server.GetAllocator().Alloc() calls, across
// 1-3 leader step-downs and re-elections of the member, with callers that keep sending while the
// member steps down and campaigns again.
//
// Oracle (independent of the code under test):
//   (1) every id handed out — AllocID ids, every new region id and every new peer id of
//       AskBatchSplit, direct Alloc results — is non-zero and pairwise distinct over the whole
//       case AND over all cases of the process (the server's etcd state persists, so does the set);
//   (2) every id is <= the alloc_id value stored in the server's etcd, read raw (out of band,
//       through the member's etcd client) right after the id was received (the stored value only grows);
//   (3) an AskBatchSplit answer carries exactly split_count entries with exactly one new peer id per
//       peer of the request region;
//   (4) a gRPC request that was handled entirely while the member provably was not leader (sent after
//       Member.ResetLeader() returned, answered before the start of the last raw read that still found
//       no leader record — see livesrv.NotLeader) fails with the not-leader error and nothing else;
//       alloc_id does not change while there is no leader record;
//   (5) the cluster is bootstrapped: a NOT_BOOTSTRAPPED answer (the member passed its own leader check
//       while its leader set-up — cluster, id window rebase — is not in place) is wrong for every request
//       that was sent after the last step-down finished.
// Real clock and real scheduler: a failure is reported with the full call history; timeouts,
// transport errors and leadership changes that the harness did not ask for are inconclusive.

import (
	"context"
	"fmt"
	"os"
	"sort"
	"strings"
	"sync"
	"testing"
	"time"

	"github.com/gogo/protobuf/proto"
	"github.com/pingcap/kvproto/pkg/metapb"
	"github.com/pingcap/kvproto/pkg/pdpb"
	"github.com/tikv/pd/server/versioninfo"
	"pdverif/livesrv"
	"pdverif/vkit"
	"pgregory.net/rapid"
)

func init() {
	vkit.Register("grpc", vkit.N{Quick: 120, Thorough: 3600}, genGrpc, runGrpc)
}

// TestPropZZLiveShutdown runs after TestProp (the driver selects ^TestProp): stops the live server.
func TestPropZZLiveShutdown(t *testing.T) { livesrv.ShutdownAll() }

type GCall struct {
	K     string `json:"k"`               // alloc (gRPC AllocID) | split (gRPC AskBatchSplit) | direct (Server.GetAllocator().Alloc())
	N     int    `json:"n,omitempty"`     // split_count 1..8
	Peers int    `json:"peers,omitempty"` // peers of the request region (1 or 3) = new peer ids per new region
}

type GPhase struct {
	Calls  [][]GCall `json:"calls"`  // per worker: calls made one after the other while the member leads
	During [][]GCall `json:"during"` // per worker: calls repeated in a loop while the member steps down and is re-elected (after this phase)
	Resign bool      `json:"resign"` // step down through TestServer.ResignLeader (ResetLeader + etcd leader hand-over, a no-op here) instead of ResetLeader
}

type GCase struct {
	Workers int      `json:"workers"`
	Phases  []GPhase `json:"phases"` // a step-down + re-election follows every phase but the last
}

func genGCall(t *rapid.T) GCall {
	switch vkit.Uni(t, 7, "kind") {
	case 0, 1, 2:
		return GCall{K: "alloc"}
	case 3, 4, 5:
		return GCall{K: "split", N: 1 + vkit.Uni(t, 8, "n"), Peers: vkit.PickU(t, []int{1, 3}, "peers")}
	}
	return GCall{K: "direct"}
}

func genGrpc(t *rapid.T) GCase {
	c := GCase{Workers: 1 + vkit.Uni(t, 4, "workers")}
	if c.Workers == 1 && rapid.Bool().Draw(t, "more") {
		c.Workers = 2
	}
	elections := 1 + vkit.Uni(t, 3, "elections")
	for p := 0; p <= elections; p++ {
		var ph GPhase
		for w := 0; w < c.Workers; w++ {
			var calls, during []GCall
			for i, n := 0, 1+vkit.Uni(t, 5, "ncalls"); i < n; i++ {
				calls = append(calls, genGCall(t))
			}
			for i, n := 0, 1+vkit.Uni(t, 3, "nduring"); i < n; i++ {
				during = append(during, genGCall(t))
			}
			ph.Calls = append(ph.Calls, calls)
			ph.During = append(ph.During, during)
		}
		ph.Resign = rapid.Bool().Draw(t, "resign")
		c.Phases = append(c.Phases, ph)
	}
	return c
}

// ---------------------------------------------------------------- process-wide state

var (
	gmu     sync.Mutex
	seenIDs = map[uint64]string{} // every id ever handed out in this process -> who got it
	gcaseNo int
)

type gev struct {
	No         int
	Case       int
	Phase      int
	Worker     int
	During     bool
	Call       GCall
	Send, Recv int64
	IDs        []uint64
	Err        string // transport / status error
	HdrErr     string // response header error type
	Stored     uint64 // alloc_id read raw after the answer
	NotLeader  bool   // proven to be handled while the member was not leader
}

func (e *gev) String() string {
	w := fmt.Sprintf("#%d phase %d worker %d", e.No, e.Phase, e.Worker)
	if e.During {
		w += " (during step-down/re-election)"
	}
	what := e.Call.K
	if e.Call.K == "split" {
		what = fmt.Sprintf("AskBatchSplit(split_count %d, %d peers)", e.Call.N, e.Call.Peers)
	} else if e.Call.K == "alloc" {
		what = "AllocID"
	} else {
		what = "GetAllocator().Alloc()"
	}
	res := fmt.Sprintf("ids %v, stored alloc_id afterwards %d", e.IDs, e.Stored)
	if e.Err != "" {
		res = "error: " + e.Err
	} else if e.HdrErr != "" {
		res = "header error " + e.HdrErr
	}
	nl := ""
	if e.NotLeader {
		nl = " [member provably not leader]"
	}
	return fmt.Sprintf("%s %s sent@%d received@%d -> %s%s", w, what, e.Send, e.Recv, res, nl)
}

type ghist struct {
	mu   sync.Mutex
	evs  []*gev
	next int
}

func (h *ghist) add(e *gev) {
	h.mu.Lock()
	h.next++
	e.No = h.next
	h.evs = append(h.evs, e)
	h.mu.Unlock()
}

func (h *ghist) dump(base int64) string {
	h.mu.Lock()
	defer h.mu.Unlock()
	evs := append([]*gev(nil), h.evs...)
	sort.Slice(evs, func(i, j int) bool { return evs[i].Send < evs[j].Send })
	var b strings.Builder
	refusals, from, to := 0, int64(0), int64(0)
	flush := func() {
		if refusals > 0 {
			fmt.Fprintf(&b, "\n    ... %d gRPC calls sent@%d..%d during the step-down/re-election were refused with the not-leader error", refusals, from, to)
		}
		refusals = 0
	}
	for _, e := range evs {
		c := *e
		c.Send -= base
		if c.Recv != 0 {
			c.Recv -= base
		}
		if c.During && isNotLeaderErr(c.Err) {
			if refusals == 0 {
				from = c.Send
			}
			refusals, to = refusals+1, c.Send
			continue
		}
		flush()
		b.WriteString("\n    " + c.String())
	}
	flush()
	return b.String()
}

// ensureBatchSplitSupported: the bootstrap store of the fixture reports no version, so the cluster version is 0.0.0 and
// AskBatchSplit is refused as INCOMPATIBLE_VERSION. The store registers again with a version, as a real TiKV does
// (PutStore over gRPC); the cluster version follows the stores and is persisted by the server.
func ensureBatchSplitSupported(node *livesrv.Node, cli pdpb.PDClient) error {
	rc := node.Svr.GetRaftCluster()
	if rc == nil {
		return fmt.Errorf("no running cluster")
	}
	if rc.IsFeatureSupported(versioninfo.BatchSplit) {
		return nil
	}
	ctx, cancel := context.WithTimeout(context.Background(), 10*time.Second)
	defer cancel()
	resp, err := cli.PutStore(ctx, &pdpb.PutStoreRequest{Header: node.Header(), Store: &metapb.Store{Id: 1, Address: "mock://1", Version: "4.0.0"}})
	if err != nil {
		return err
	}
	if he := resp.GetHeader().GetError(); he != nil {
		return fmt.Errorf("PutStore: %v", he)
	}
	if !rc.IsFeatureSupported(versioninfo.BatchSplit) {
		return fmt.Errorf("cluster version is still %v", node.Svr.GetClusterVersion())
	}
	return nil
}

func isNotLeaderErr(msg string) bool { return strings.Contains(msg, "not leader") }

var errGInconclusive = fmt.Errorf("inconclusive")

// ---------------------------------------------------------------- runner

func runGrpc(c GCase) (info vkit.Info, err error) {
	if os.Getenv("VERIF_REPLAY") != "" {
		defer livesrv.ShutdownAll()
	}
	inconclusive := func(why string) (vkit.Info, error) {
		info.Inconclusive = true
		info.Class("inconclusive:" + why)
		return info, nil
	}
	fx := livesrv.MustGet()
	node := fx.Node()
	if !node.WaitServing(40 * time.Second) {
		livesrv.Fatal("C04 grpc: the live member does not serve as leader")
	}
	cli, e := node.PD()
	if e != nil {
		return inconclusive("no-connection")
	}
	gmu.Lock()
	gcaseNo++
	caseNo := gcaseNo
	gmu.Unlock()
	if e := ensureBatchSplitSupported(node, cli); e != nil {
		fmt.Println("C04 grpc:", e)
		return inconclusive("cluster-version")
	}

	base := livesrv.Stamp()
	h := &ghist{}
	var vmu sync.Mutex
	var viol []string
	violate := func(format string, a ...interface{}) {
		vmu.Lock()
		viol = append(viol, fmt.Sprintf(format, a...))
		vmu.Unlock()
	}
	var incMu sync.Mutex
	incWhy := ""
	setInc := func(why string) {
		incMu.Lock()
		if incWhy == "" {
			incWhy = why
		}
		incMu.Unlock()
	}

	// the request region: what a TiKV would send (its own copy of the region it wants to split)
	var regionMeta *metapb.Region
	refreshRegion := func() {
		if rc := node.Svr.GetRaftCluster(); rc != nil {
			if r := rc.GetRegionByKey([]byte("")); r != nil {
				regionMeta = proto.Clone(r.GetMeta()).(*metapb.Region)
			}
		}
	}
	refreshRegion()
	if regionMeta == nil {
		return inconclusive("no-region")
	}
	var regMu sync.Mutex
	reqRegion := func(peers int) *metapb.Region {
		regMu.Lock()
		r := proto.Clone(regionMeta).(*metapb.Region)
		regMu.Unlock()
		for i := len(r.Peers); i < peers; i++ {
			// peers the store knows about and PD has not heard of yet (conf_ver ahead)
			r.Peers = append(r.Peers, &metapb.Peer{Id: 1<<50 + uint64(i), StoreId: 1<<50 + uint64(i)})
			if r.RegionEpoch == nil {
				r.RegionEpoch = &metapb.RegionEpoch{}
			}
			r.RegionEpoch.ConfVer++
		}
		return r
	}

	// the election epoch the harness expects (create revision of the leader record)
	rec0, e := node.ReadRecord()
	if e != nil || rec0.Holder != node.Svr.GetMember().ID() {
		return inconclusive("no-leader-record")
	}
	expectRev := rec0.CreateRev

	var lastDownFrom int64 // stamp after the last ResetLeader() returned (0 = none yet in this case)
	var downMu sync.Mutex
	downStart := int64(0) // != 0 while a step-down is being executed
	type downIv struct{ a, b int64 }
	var downs []downIv

	do := func(phase, worker int, during bool, call GCall) *gev {
		ev := &gev{Case: caseNo, Phase: phase, Worker: worker, During: during, Call: call}
		ctx, cancel := context.WithTimeout(context.Background(), 10*time.Second)
		defer cancel()
		switch call.K {
		case "alloc":
			ev.Send = livesrv.Stamp()
			resp, e := cli.AllocID(ctx, &pdpb.AllocIDRequest{Header: node.Header()})
			ev.Recv = livesrv.Stamp()
			if e != nil {
				ev.Err = e.Error()
			} else if he := resp.GetHeader().GetError(); he != nil {
				ev.HdrErr = he.GetType().String()
			} else {
				ev.IDs = []uint64{resp.GetId()}
			}
		case "split":
			req := &pdpb.AskBatchSplitRequest{Header: node.Header(), Region: reqRegion(call.Peers), SplitCount: uint32(call.N)}
			ev.Send = livesrv.Stamp()
			resp, e := cli.AskBatchSplit(ctx, req)
			ev.Recv = livesrv.Stamp()
			if e != nil {
				ev.Err = e.Error()
			} else if he := resp.GetHeader().GetError(); he != nil {
				ev.HdrErr = he.GetType().String()
			} else {
				if len(resp.GetIds()) != call.N {
					violate("AskBatchSplit(split_count %d) answered with %d entries", call.N, len(resp.GetIds()))
				}
				for _, s := range resp.GetIds() {
					ev.IDs = append(ev.IDs, s.GetNewRegionId())
					if len(s.GetNewPeerIds()) != len(req.Region.Peers) {
						violate("AskBatchSplit for a region with %d peers answered with %d new peer ids for new region %d",
							len(req.Region.Peers), len(s.GetNewPeerIds()), s.GetNewRegionId())
					}
					ev.IDs = append(ev.IDs, s.GetNewPeerIds()...)
				}
			}
		default:
			ev.Send = livesrv.Stamp()
			id, e := node.Svr.GetAllocator().Alloc()
			ev.Recv = livesrv.Stamp()
			if e != nil {
				ev.Err = e.Error()
			} else {
				ev.IDs = []uint64{id}
			}
		}
		if ev.Err != "" && (strings.Contains(ev.Err, "DeadlineExceeded") || strings.Contains(ev.Err, "transport") || strings.Contains(ev.Err, "connection")) {
			setInc("rpc-timeout-or-transport")
		}
		if len(ev.IDs) > 0 {
			rec, e := node.ReadRecord()
			if e != nil {
				setInc("raw-read-failed")
			} else {
				ev.Stored = rec.AllocID
			}
		}
		h.add(ev)
		// (1) + (2)
		gmu.Lock()
		for _, id := range ev.IDs {
			who := fmt.Sprintf("case %d call #%d (%s)", caseNo, ev.No, ev.Call.K)
			if id == 0 {
				violate("call #%d returned id 0", ev.No)
			} else if prev, dup := seenIDs[id]; dup {
				violate("id %d handed out twice: to %s and to %s", id, prev, who)
			} else {
				seenIDs[id] = who
			}
			if ev.Stored != 0 && id > ev.Stored {
				violate("call #%d returned id %d above the stored alloc_id %d (read after the answer)", ev.No, id, ev.Stored)
			}
		}
		gmu.Unlock()
		return ev
	}

	elections, provenRefusals, idsBefore, idsAfter, refused, measured := 0, 0, 0, 0, 0, 0
	workersWithIDs := map[int]bool{}
	for pi, ph := range c.Phases {
		// ---- steady phase: the member leads
		var wg sync.WaitGroup
		for w := 0; w < c.Workers && w < len(ph.Calls); w++ {
			wg.Add(1)
			go func(w int) {
				defer wg.Done()
				for _, call := range ph.Calls[w] {
					do(pi, w, false, call)
				}
			}(w)
		}
		wg.Wait()
		if pi == len(c.Phases)-1 {
			break
		}
		// ---- step-down + re-election with callers that keep sending
		stop := make(chan struct{})
		var dwg sync.WaitGroup
		for w := 0; w < c.Workers && w < len(ph.During); w++ {
			dwg.Add(1)
			go func(w int) {
				defer dwg.Done()
				for i := 0; i < 4000; i++ {
					select {
					case <-stop:
						return
					default:
					}
					do(pi, w, true, ph.During[w][i%len(ph.During[w])])
					time.Sleep(500 * time.Microsecond)
				}
			}(w)
		}
		time.Sleep(time.Duration(1+pi) * time.Millisecond) // let the callers get going
		downMu.Lock()
		downStart = livesrv.Stamp()
		downMu.Unlock()
		win, e := node.StepDown(ph.Resign, nil, 20*time.Second)
		downMu.Lock()
		downs = append(downs, downIv{downStart, win.From})
		downStart = 0
		lastDownFrom = win.From
		downMu.Unlock()
		ok := e == nil && node.WaitServing(30*time.Second)
		// a few more calls on the fresh leader, then stop the callers
		time.Sleep(2 * time.Millisecond)
		close(stop)
		dwg.Wait()
		if !ok {
			livesrv.Fatal(fmt.Sprintf("C04 grpc: the member did not serve again after a step-down (%v)", e))
		}
		elections++
		rec, e := node.ReadRecord()
		if e != nil || rec.Holder != node.Svr.GetMember().ID() {
			return inconclusive("no-leader-record")
		}
		expectRev = rec.CreateRev
		if win.AllocMoved != "" {
			violate("phase %d: stored alloc_id changed while there was no leader record: %s", pi, win.AllocMoved)
		}
		// (4) what was handled entirely while the member was not leader
		h.mu.Lock()
		for _, ev := range h.evs {
			if ev.Phase != pi || !ev.During || !win.Covers(ev.Send, ev.Recv) {
				continue
			}
			ev.NotLeader = true
			if ev.Call.K == "direct" {
				continue // the in-memory rest of a durably reserved window may be used up; extension is guarded in etcd
			}
			switch {
			case len(ev.IDs) > 0:
				violate("call #%d (%s) was served with ids %v while the member was not leader (sent after ResetLeader returned, answered before the last raw read that found no leader record)", ev.No, ev.Call.K, ev.IDs)
			case ev.HdrErr != "":
				violate("call #%d (%s) was answered with header error %s while the member was not leader, want the not-leader error", ev.No, ev.Call.K, ev.HdrErr)
			case !isNotLeaderErr(ev.Err):
				if !strings.Contains(ev.Err, "DeadlineExceeded") {
					violate("call #%d (%s) was answered with %q while the member was not leader, want the not-leader error", ev.No, ev.Call.K, ev.Err)
				}
			default:
				provenRefusals++
			}
		}
		h.mu.Unlock()
		if win.Until != 0 {
			measured++
		}
		regMu.Lock()
		refreshRegion()
		regMu.Unlock()
	}

	// (5) NOT_BOOTSTRAPPED on a bootstrapped cluster; statistics
	h.mu.Lock()
	for _, ev := range h.evs {
		if len(ev.IDs) > 0 {
			workersWithIDs[ev.Worker] = true
			if ev.Phase == 0 && !ev.During {
				idsBefore++
			} else if ev.Phase > 0 {
				idsAfter++
			}
		}
		if ev.HdrErr == pdpb.ErrorType_NOT_BOOTSTRAPPED.String() {
			straddles := false
			for _, d := range downs {
				// sent before the step-down finished and answered after it began: the request may have passed the
				// leader check just before ResetLeader and looked for the cluster after it was stopped
				if ev.Send <= d.b && ev.Recv >= d.a {
					straddles = true
				}
			}
			if !straddles {
				violate("call #%d (%s) was answered NOT_BOOTSTRAPPED by the member of a bootstrapped cluster: it passed the member's leader check while the leader set-up (cluster, id window) was not in place", ev.No, ev.Call.K)
			}
		}
		if ev.During && ev.Err != "" && isNotLeaderErr(ev.Err) {
			refused++
		}
	}
	info.ClassIf(refused > 0, "refused-not-leader")
	nev := len(h.evs)
	h.mu.Unlock()
	_ = lastDownFrom

	if len(viol) > 0 {
		// a verdict needs: exactly the elections the harness asked for, no transport trouble
		rec, e := node.ReadRecord()
		if e != nil || rec.CreateRev != expectRev {
			return inconclusive("unexpected-election")
		}
		if incWhy != "" {
			return inconclusive(incWhy)
		}
		sort.Strings(viol)
		return info, fmt.Errorf("%s (+%d more)\n  history of case %d (stamps in ns since case start):%s", viol[0], len(viol)-1, caseNo, h.dump(base))
	}
	if incWhy != "" {
		return inconclusive(incWhy)
	}
	if os.Getenv("VERIF_GRPC_DEBUG") != "" {
		fmt.Printf("case %d history:%s\n", caseNo, h.dump(base))
	}
	info.Class(fmt.Sprintf("workers-%d", c.Workers))
	info.Class(fmt.Sprintf("elections-%d", elections))
	info.ClassIf(provenRefusals > 0, "proven-not-leader-refusal")
	info.ClassIf(measured > 0, "not-leader-window-measured")
	info.ClassIf(nev > 0 && idsAfter > 0, "ids-after-re-election")
	info.NonTrivial = len(workersWithIDs) >= 2 && elections >= 1 && provenRefusals >= 1 && idsBefore > 0 && idsAfter > 0
	return info, nil
}
