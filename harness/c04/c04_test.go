// C04 — allocated ids are unique forever.
//
// Stateful property over 2-3 id.Allocator instances (plus "zombie" predecessors
// after a crash) sharing one etcd root: sequential histories with leader
// switches, crashes and injected txn faults (fail-before / lost-ack), real
// concurrency on one instance, and harness-scheduled races between the
// read+txn pairs of two instances. Oracle: history invariants (pairwise distinct,
// per-instance increasing, id <= durably stored bound at return time, stored
// bound monotone and only moved by the recorded leader).
package c04

import (
	"context"
	"fmt"
	"path"
	"strings"
	"sync"
	"testing"
	"time"

	"github.com/pingcap/kvproto/pkg/metapb"
	"github.com/pingcap/kvproto/pkg/pdpb"
	"github.com/tikv/pd/pkg/typeutil"
	"github.com/tikv/pd/server/cluster"
	"github.com/tikv/pd/server/config"
	"github.com/tikv/pd/server/core"
	"github.com/tikv/pd/server/id"
	"github.com/tikv/pd/server/kv"
	"go.etcd.io/etcd/clientv3"
	"pdverif/vkit"
	"pdverif/vkit/etcdfix"
	"pdverif/vkit/gate"
	"pgregory.net/rapid"
)

func TestMain(m *testing.M) {
	vkit.Quiet()
	vkit.MainWith(m, "C04", etcdfix.Close)
}
func TestProp(t *testing.T)   { vkit.RunAll(t) }
func TestReplay(t *testing.T) { vkit.RunReplay(t) }

func init() {
	vkit.Register("alloc", vkit.N{Quick: 4000, Thorough: 120000}, genCase, runCase)
}

type Op struct {
	K     string `json:"k"` // alloc, rebase, leader, crash, fail, conc, race, split (J peers; N = 0: AskSplit, N >= 1: AskBatchSplit with N splits)
	I     int    `json:"i"`
	J     int    `json:"j,omitempty"`
	N     int    `json:"n,omitempty"`
	Fail  string `json:"fail,omitempty"` // before | lostack
	Sched []int  `json:"sched,omitempty"`
	// race: a leader switch to L (-2 = none) takes part in the schedule
	L int `json:"l,omitempty"`
}

type Case struct {
	NInst int  `json:"ninst"`
	Ops   []Op `json:"ops"`
}

var counts = []int{1, 1, 2, 7, 7, 998, 999, 1000, 1001, 1002, 2500}

func genCase(t *rapid.T) Case {
	c := Case{NInst: rapid.IntRange(2, 3).Draw(t, "ninst")}
	n := rapid.IntRange(4, 24).Draw(t, "nops")
	inst := func(l string) int { return rapid.IntRange(0, c.NInst-1).Draw(t, l) }
	if rapid.IntRange(0, 4).Draw(t, "startLeader") != 0 {
		j := inst("l0")
		c.Ops = append(c.Ops, Op{K: "leader", J: j}, Op{K: "alloc", I: j, N: vkit.PickU(t, counts, "n0")})
	}
	for len(c.Ops) < n {
		switch vkit.Uni(t, 14, "kind") {
		case 12:
			// the split handlers of the cluster layer hand out several ids per request (region id + one per peer)
			c.Ops = append(c.Ops, Op{K: "split", I: inst("i"), J: rapid.IntRange(1, 4).Draw(t, "peers"), N: vkit.PickU(t, []int{0, 0, 1, 2, 5}, "batch")})
		case 13:
			// the window runs out INSIDE one split request and that one extension fails once
			j := inst("i")
			c.Ops = append(c.Ops, Op{K: "leader", J: j}, Op{K: "alloc", I: j, N: vkit.PickU(t, []int{995, 996, 997, 998, 999, 1995, 1998}, "fill")},
				Op{K: "fail", I: j, Fail: vkit.PickU(t, []string{"before", "before", "lostack"}, "sfk")},
				Op{K: "split", I: j, J: rapid.IntRange(2, 4).Draw(t, "peers2"), N: vkit.PickU(t, []int{0, 0, 2}, "batch2")},
				Op{K: "alloc", I: j, N: 1})
		case 0, 1, 2:
			c.Ops = append(c.Ops, Op{K: "alloc", I: inst("i"), N: vkit.PickU(t, counts, "n")})
		case 4, 5, 6:
			// switch leader, then allocate on the new leader (the interesting sequence)
			j := rapid.IntRange(-1, c.NInst).Draw(t, "leader") // -1 drop, NInst = foreign value
			c.Ops = append(c.Ops, Op{K: "leader", J: j})
			if j >= 0 && j < c.NInst {
				c.Ops = append(c.Ops, Op{K: "alloc", I: j, N: vkit.PickU(t, counts, "n")})
			}
		case 7:
			c.Ops = append(c.Ops, Op{K: "crash", I: inst("i")})
		case 8:
			c.Ops = append(c.Ops, Op{K: "fail", I: inst("i"), Fail: vkit.PickU(t, []string{"before", "lostack"}, "fk")})
		case 3:
			if vkit.Uni(t, 2, "rebaseKind") == 0 {
				c.Ops = append(c.Ops, Op{K: "rebase", I: inst("i")})
			} else {
				// Rebase (what the campaign goroutine calls) racing Alloc on the SAME instance
				c.Ops = append(c.Ops, Op{K: "rrace", I: inst("i"), N: vkit.PickU(t, []int{1, 3, 1001}, "n"),
					Sched: rapid.SliceOfN(rapid.IntRange(0, 3), 0, 12).Draw(t, "rsched")})
			}
		case 9:
			c.Ops = append(c.Ops, Op{K: "conc", I: inst("i"), J: rapid.IntRange(2, 6).Draw(t, "g"), N: vkit.PickU(t, []int{1, 50, 400, 1100}, "n")})
		default:
			i := inst("i")
			j := inst("j")
			op := Op{K: "race", I: i, J: j, N: vkit.PickU(t, []int{1, 2, 1001}, "n"), L: -2,
				Sched: rapid.SliceOfN(rapid.IntRange(0, 5), 0, 10).Draw(t, "sched")}
			if rapid.IntRange(0, 2).Draw(t, "withLeader") == 0 {
				op.L = rapid.IntRange(-1, c.NInst-1).Draw(t, "l")
			}
			if rapid.IntRange(0, 3).Draw(t, "raceFail") == 0 {
				op.Fail = vkit.PickU(t, []string{"before", "lostack"}, "rfk")
			}
			c.Ops = append(c.Ops, op)
		}
	}
	if vkit.Uni(t, 8, "corruptEnd") == 0 {
		// the stored bound becomes unreadable (not 8 bytes: a foreign writer, a truncated value); the tree
		// stops allocating for good once the window in memory is used up. Whatever comes back afterwards,
		// from the running instance, a restarted one or another member, must still be a fresh id. Ends the case.
		j := inst("i")
		c.Ops = append(c.Ops, Op{K: "corrupt", N: vkit.PickU(t, []int{0, 1, 7, 9, 20}, "clen")},
			Op{K: "alloc", I: j, N: vkit.PickU(t, []int{1, 999, 1001, 2500}, "nc")})
		if rapid.IntRange(0, 1).Draw(t, "ccrash") == 0 {
			c.Ops = append(c.Ops, Op{K: "crash", I: j})
		}
		k := inst("i2")
		c.Ops = append(c.Ops, Op{K: "leader", J: k}, Op{K: "rebase", I: k}, Op{K: "alloc", I: k, N: vkit.PickU(t, []int{1, 7, 1001}, "nc2")})
	}
	return c
}

// ---------------------------------------------------------------- fixture (per process)

type slot struct {
	hooks  *etcdfix.Hooks
	client *clientv3.Client
}

var (
	slotsOnce sync.Once
	slots     []*slot
	slotsErr  error
)

func getSlots() ([]*slot, *etcdfix.Fixture, error) {
	f, err := etcdfix.Get()
	if err != nil {
		return nil, nil, err
	}
	slotsOnce.Do(func() {
		for i := 0; i < 3; i++ {
			h := &etcdfix.Hooks{}
			c, err := f.NewClient(h)
			if err != nil {
				slotsErr = err
				return
			}
			slots = append(slots, &slot{hooks: h, client: c})
		}
	})
	return slots, f, slotsErr
}

type instance struct {
	slot   int
	member string
	alloc  id.Allocator
	last   uint64
	gen    int
	rc     *cluster.RaftCluster // created on first use by askSplit
	bc     *core.BasicCluster
	cancel context.CancelFunc
}

type world struct {
	mu             sync.Mutex
	f              *etcdfix.Fixture
	root           string
	allocKey       string
	leaderKey      string
	leader         string // model of the leader record ("" = absent)
	stored         uint64 // model of the stored window end (0 = absent)
	ids            map[uint64]string
	err            error // first violation seen inside hooks
	failNext       [3]string
	sched          *gate.Sched
	afterGate      bool // park tasks also right after every RPC (races inside one allocator instance)
	extAfterSwitch bool
	switched       bool
}

func (w *world) violate(format string, a ...interface{}) {
	w.mu.Lock()
	if w.err == nil {
		w.err = fmt.Errorf(format, a...)
	}
	w.mu.Unlock()
}

func (w *world) install(sl []*slot) {
	for si := range sl {
		si := si
		member := fmt.Sprintf("m%d", si)
		sl[si].hooks.Set(func(ev *etcdfix.Event) etcdfix.Action {
			if w.sched != nil {
				if err := w.sched.Enter(ev.Method, fmt.Sprint(si)); err != nil {
					return etcdfix.FailBefore
				}
			}
			if ev.Method == "Txn" {
				w.mu.Lock()
				fk := w.failNext[si]
				w.failNext[si] = ""
				w.mu.Unlock()
				switch fk {
				case "before":
					return etcdfix.FailBefore
				case "lostack":
					return etcdfix.LostAck
				}
			}
			return etcdfix.Proceed
		}, func(ev *etcdfix.Event) {
			// optional second scheduling point: the RPC has completed (the model below is
			// updated first), the caller has not yet acted on the response
			defer func() {
				if sc := w.sched; sc != nil && w.afterGate {
					sc.Enter(ev.Method+"-done", fmt.Sprint(si))
				}
			}()
			if ev.Method != "Txn" || !ev.Applied {
				return
			}
			v, ok := ev.Puts[w.allocKey]
			if !ok {
				return
			}
			nv, err := typeutil.BytesToUint64([]byte(v))
			w.mu.Lock()
			defer w.mu.Unlock()
			if err != nil {
				if w.err == nil {
					w.err = fmt.Errorf("stored window end is not a uint64: %q", v)
				}
				return
			}
			if nv <= w.stored && w.err == nil {
				w.err = fmt.Errorf("stored window end went from %d to %d (must only grow)", w.stored, nv)
			}
			if w.leader != member && w.err == nil {
				w.err = fmt.Errorf("window extended to %d by member %s while the leader record is %q", nv, member, w.leader)
			}
			w.stored = nv
			if w.switched {
				w.extAfterSwitch = true
			}
		})
	}
}

func (w *world) setLeader(v string) error {
	var err error
	if v == "" {
		err = w.f.DeleteRaw(w.leaderKey, false)
	} else {
		err = w.f.PutRaw(w.leaderKey, v)
	}
	if err == nil {
		w.mu.Lock()
		w.leader = v
		w.switched = true
		w.mu.Unlock()
	}
	return err
}

// record checks one returned id against the history invariants.
func (w *world) record(in *instance, v uint64, who string) error {
	w.mu.Lock()
	defer w.mu.Unlock()
	if prev, dup := w.ids[v]; dup {
		return fmt.Errorf("id %d returned twice: first to %s, now to %s", v, prev, who)
	}
	w.ids[v] = who
	if v > w.stored {
		return fmt.Errorf("id %d returned to %s exceeds the durably stored window end %d", v, who, w.stored)
	}
	return nil
}

func runCase(c Case) (vkit.Info, error) {
	var info vkit.Info
	sl, f, err := getSlots()
	if err != nil {
		info.Inconclusive = true
		return info, nil
	}
	root := f.Root()
	w := &world{f: f, root: root, allocKey: path.Join(root, "alloc_id"), leaderKey: path.Join(root, "leader"), ids: map[uint64]string{}}
	w.install(sl)
	defer func() {
		for _, s := range sl {
			s.hooks.Set(nil, nil)
		}
		f.DeleteRaw(root, true)
	}()
	var insts []*instance
	var zombies []*instance
	for i := 0; i < c.NInst; i++ {
		m := fmt.Sprintf("m%d", i)
		insts = append(insts, &instance{slot: i, member: m, alloc: id.NewAllocator(sl[i].client, root, m)})
	}
	returned := map[int]bool{}
	corrupt, corrupted := "", false // the unreadable value written over the stored bound, if any
	check := func(step int, what string) error {
		w.mu.Lock()
		e := w.err
		stored := w.stored
		w.mu.Unlock()
		if e != nil {
			return fmt.Errorf("op %d (%s): %v", step, what, e)
		}
		// the model of the stored bound must equal what etcd holds
		val, _, _, ok := f.GetRaw(w.allocKey)
		var real uint64
		if ok {
			real, _ = typeutil.BytesToUint64([]byte(val))
		}
		if corrupted && ok && val == corrupt {
			// the unreadable value is still there: nothing was stored over it
			return nil
		}
		if real != stored {
			return fmt.Errorf("op %d (%s): etcd holds window end %d but the applied-txn log says %d", step, what, real, stored)
		}
		return nil
	}
	// one Alloc on instance in, with all per-id checks
	allocOne := func(in *instance, who string) (uint64, error, error) {
		v, aerr := in.alloc.Alloc()
		if aerr != nil {
			return 0, aerr, nil
		}
		if v <= in.last {
			return v, nil, fmt.Errorf("%s returned %d after %d (must strictly increase)", who, v, in.last)
		}
		in.last = v
		return v, nil, w.record(in, v, who)
	}
	for step, op := range c.Ops {
		if op.I >= c.NInst {
			op.I = op.I % c.NInst
		}
		in := insts[op.I%len(insts)]
		who := fmt.Sprintf("inst%d.g%d(%s)", op.I, in.gen, in.member)
		switch op.K {
		case "alloc":
			for k := 0; k < op.N; k++ {
				w.mu.Lock()
				leader, fk := w.leader, w.failNext[in.slot]
				before := w.stored
				w.mu.Unlock()
				_, aerr, verr := allocOne(in, who)
				if verr != nil {
					return info, fmt.Errorf("op %d alloc #%d: %v", step, k, verr)
				}
				if aerr != nil {
					w.mu.Lock()
					after := w.stored
					w.mu.Unlock()
					if leader != in.member && after != before {
						return info, fmt.Errorf("op %d alloc #%d by %s failed (%v) but the stored window moved %d -> %d while leader record is %q", step, k, who, aerr, before, after, leader)
					}
					if leader == in.member && fk == "" && !corrupted {
						// sequential, no fault, sole instance of the recorded leader: the extension cannot lose a race
						return info, fmt.Errorf("op %d alloc #%d by the recorded leader %s failed without any injected fault: %v", step, k, who, aerr)
					}
					info.Class("alloc-error")
					break
				}
				returned[op.I] = true
			}
		case "split":
			// RaftCluster.HandleAskSplit / HandleAskBatchSplit over this instance's real allocator: every id of a
			// SUCCESSFUL answer is an allocation (non-zero, increasing for this instance, distinct from everything
			// ever returned, inside a stored window); a failed answer hands out nothing
			peers := op.J
			if peers < 1 {
				peers = 1
			}
			ids, serr := askSplit(in, peers, op.N)
			if serr != nil {
				info.Class("split-refused")
				break
			}
			info.Class("split-answered")
			for _, v := range ids {
				if v == 0 {
					return info, fmt.Errorf("op %d split by %s: a successful answer carries id 0 (ids %v): an id that was never allocated", step, who, ids)
				}
				if v <= in.last {
					return info, fmt.Errorf("op %d split by %s: answer %v is not increasing after %d", step, who, ids, in.last)
				}
				in.last = v
				if e := w.record(in, v, who+"/split"); e != nil {
					return info, fmt.Errorf("op %d split: %v", step, e)
				}
			}
			returned[op.I] = true
		case "corrupt":
			corrupt, corrupted = strings.Repeat("x", op.N), true
			if err := f.PutRaw(w.allocKey, corrupt); err != nil {
				info.Inconclusive = true
				return info, nil
			}
			info.Class("bound-unreadable")
			continue
		case "rebase":
			w.mu.Lock()
			leader := w.leader
			before := w.stored
			w.mu.Unlock()
			rerr := in.alloc.Rebase()
			w.mu.Lock()
			after := w.stored
			w.mu.Unlock()
			if rerr != nil && leader != in.member && after != before {
				return info, fmt.Errorf("op %d rebase by non-leader %s failed but moved the stored window", step, who)
			}
			if rerr == nil && leader != in.member {
				return info, fmt.Errorf("op %d rebase by %s succeeded although the leader record is %q", step, who, leader)
			}
			info.Class("rebase")
		case "leader":
			v := ""
			switch {
			case op.J == c.NInst:
				v = "someone-else"
			case op.J >= 0:
				v = fmt.Sprintf("m%d", op.J)
			}
			if err := w.setLeader(v); err != nil {
				info.Inconclusive = true
				return info, nil
			}
		case "crash":
			zombies = append(zombies, in)
			ni := &instance{slot: in.slot, member: in.member, gen: in.gen + 1, alloc: id.NewAllocator(sl[in.slot].client, root, in.member)}
			insts[op.I] = ni
			w.mu.Lock()
			w.switched = true
			w.mu.Unlock()
			info.Class("crash")
		case "fail":
			w.mu.Lock()
			w.failNext[in.slot] = op.Fail
			w.mu.Unlock()
			info.Class("fault-" + op.Fail)
		case "conc":
			// G goroutines allocate on one instance (its own mutex serialises them)
			var wg sync.WaitGroup
			errs := make([]error, op.J)
			for g := 0; g < op.J; g++ {
				wg.Add(1)
				go func(g int) {
					defer wg.Done()
					var last uint64
					for k := 0; k < op.N; k++ {
						v, aerr := in.alloc.Alloc()
						if aerr != nil {
							return
						}
						if v <= last {
							errs[g] = fmt.Errorf("goroutine %d of %s got %d after %d", g, who, v, last)
							return
						}
						last = v
						if e := w.record(in, v, fmt.Sprintf("%s/g%d", who, g)); e != nil {
							errs[g] = e
							return
						}
						w.mu.Lock()
						if v > in.last {
							in.last = v
						}
						w.mu.Unlock()
					}
				}(g)
			}
			wg.Wait()
			for _, e := range errs {
				if e != nil {
					return info, fmt.Errorf("op %d conc: %v", step, e)
				}
			}
			returned[op.I] = true
			info.Class("conc")
		case "rrace":
			// Rebase and Alloc x N on one instance, released at RPC granularity, with a scheduling
			// point also after each RPC. The allocator's own mutex may block one task behind the
			// other (non-strict settle). Oracle: every id distinct and <= stored bound (record), the
			// instance's ids strictly increase in the order the calls returned.
			w.mu.Lock()
			leaderNow := w.leader
			w.mu.Unlock()
			if leaderNow != in.member {
				continue // both would just be refused
			}
			sc := gate.New()
			w.sched, w.afterGate = sc, true
			var vmu sync.Mutex
			var verr error
			sc.Go(1, func() { in.alloc.Rebase() })
			sc.Go(2, func() {
				for k := 0; k < op.N; k++ {
					v, aerr := in.alloc.Alloc()
					if aerr != nil {
						return
					}
					vmu.Lock()
					if v <= in.last && verr == nil {
						verr = fmt.Errorf("%s returned %d after %d (must strictly increase; a window adopted out of order?)", who, v, in.last)
					}
					in.last = v
					if e := w.record(in, v, who+"/rrace"); e != nil && verr == nil {
						verr = e
					}
					vmu.Unlock()
				}
			})
			ok := sc.Run(op.Sched, nil)
			sc.Disable()
			if !sc.Wait(60 * time.Second) {
				ok = false
			}
			w.sched, w.afterGate = nil, false
			if !ok {
				info.Inconclusive = true
				return info, nil
			}
			if verr != nil {
				return info, fmt.Errorf("op %d rrace (schedule %v, trace %v): %v", step, op.Sched, sc.Trace, verr)
			}
			// the next id must still be above everything this instance returned
			if _, aerr, verr2 := allocOne(in, who); aerr == nil && verr2 != nil {
				return info, fmt.Errorf("op %d rrace, first Alloc afterwards: %v", step, verr2)
			}
			returned[op.I] = true
			info.Class("rebase-races-alloc")
		case "race":
			// two allocating tasks (on instances I and J, or on I and its newest zombie when I==J)
			a := in
			b := insts[op.J%len(insts)]
			if a == b {
				if len(zombies) > 0 {
					b = zombies[len(zombies)-1]
				} else {
					// force both to need an extension from the same stored value: a fresh twin
					b = &instance{slot: a.slot, member: a.member, gen: a.gen + 100, alloc: id.NewAllocator(sl[a.slot].client, root, a.member)}
					zombies = append(zombies, b)
				}
			}
			sc := gate.New()
			sc.Strict = true // the tasks never block on each other: one RPC (and its model update) at a time
			w.sched = sc
			if op.Fail != "" {
				w.mu.Lock()
				w.failNext[a.slot] = op.Fail
				w.mu.Unlock()
			}
			var ea, eb error
			run := func(x *instance, tag string, out *error) func() {
				return func() {
					for k := 0; k < op.N; k++ {
						_, aerr, verr := allocOne(x, tag)
						if verr != nil {
							*out = verr
							return
						}
						if aerr != nil {
							return
						}
					}
				}
			}
			// force a window extension on both: Rebase is not used (it would itself be a txn);
			// instances with an exhausted window extend on their first Alloc.
			sc.Go(1, run(a, who+"/race-a", &ea))
			sc.Go(2, run(b, fmt.Sprintf("inst-slot%d.g%d(%s)/race-b", b.slot, b.gen, b.member), &eb))
			if op.L != -2 {
				sc.Go(3, func() {
					sc.Enter("leader", "")
					v := ""
					if op.L >= 0 {
						v = fmt.Sprintf("m%d", op.L)
					}
					w.setLeader(v)
				})
			}
			ok := sc.Run(op.Sched, nil)
			sc.Disable()
			if !sc.Wait(60 * time.Second) {
				ok = false
			}
			w.sched = nil
			w.mu.Lock()
			w.failNext = [3]string{}
			w.mu.Unlock()
			if !ok {
				info.Inconclusive = true
				return info, nil
			}
			if ea != nil {
				return info, fmt.Errorf("op %d race (schedule %v, trace %v): %v", step, op.Sched, sc.Trace, ea)
			}
			if eb != nil {
				return info, fmt.Errorf("op %d race (schedule %v, trace %v): %v", step, op.Sched, sc.Trace, eb)
			}
			info.Class("race")
			if len(sc.Trace) >= 4 {
				info.Class("race-interleaved")
			}
		}
		if err := check(step, op.K); err != nil {
			return info, err
		}
	}
	info.ClassIf(len(returned) >= 2, "two-instances-returned")
	info.ClassIf(w.extAfterSwitch, "extension-after-switch")
	info.NonTrivial = len(returned) >= 2 && w.extAfterSwitch
	return info, nil
}

// askSplit sends one AskSplit (batch = 0) or AskBatchSplit (batch splits) for a region with the given number of
// peers to a RaftCluster whose id allocator is the instance's real allocator, and returns every id of the answer.
type swapAlloc struct {
	mu  sync.Mutex
	cur id.Allocator
}

func (a *swapAlloc) set(x id.Allocator)     { a.mu.Lock(); a.cur = x; a.mu.Unlock() }
func (a *swapAlloc) get() id.Allocator      { a.mu.Lock(); defer a.mu.Unlock(); return a.cur }
func (a *swapAlloc) Alloc() (uint64, error) { return a.get().Alloc() }
func (a *swapAlloc) Rebase() error          { return a.get().Rebase() }

type pooledRC struct {
	sw *swapAlloc
	rc *cluster.RaftCluster
	bc *core.BasicCluster
}

var (
	pooledMu sync.Mutex
	pooled   = map[int]*pooledRC{}
)

func askSplit(in *instance, peers, batch int) ([]uint64, error) {
	// One RaftCluster per member slot for the whole process (InitCluster starts hot-cache goroutines that nothing
	// stops: one per case leaked 20 000 goroutines and 7 GB in a thorough run); the allocator behind it is switched
	// to the calling instance's.
	pooledMu.Lock()
	pr := pooled[in.slot]
	if pr == nil {
		cfg := config.NewConfig()
		if err := cfg.Adjust(nil, false); err != nil {
			pooledMu.Unlock()
			return nil, err
		}
		pr = &pooledRC{sw: &swapAlloc{}, bc: core.NewBasicCluster()}
		pr.rc = cluster.NewRaftCluster(context.Background(), "", 1, nil, nil, nil)
		pr.rc.InitCluster(pr.sw, config.NewPersistOptions(cfg), core.NewStorage(kv.NewMemoryKV()), pr.bc)
		pooled[in.slot] = pr
	}
	pooledMu.Unlock()
	pr.sw.set(in.alloc)
	in.rc, in.bc = pr.rc, pr.bc
	reg := &metapb.Region{Id: 1 << 40, RegionEpoch: &metapb.RegionEpoch{ConfVer: 1, Version: 1}}
	for p := 0; p < peers; p++ {
		reg.Peers = append(reg.Peers, &metapb.Peer{Id: 1<<40 + uint64(p) + 1, StoreId: uint64(p) + 1})
	}
	in.bc.PutRegion(core.NewRegionInfo(reg, reg.Peers[0]))
	var out []uint64
	if batch <= 0 {
		resp, err := in.rc.HandleAskSplit(&pdpb.AskSplitRequest{Region: reg})
		if err != nil {
			return nil, err
		}
		out = append(out, resp.GetNewRegionId())
		out = append(out, resp.GetNewPeerIds()...)
		return out, nil
	}
	resp, err := in.rc.HandleAskBatchSplit(&pdpb.AskBatchSplitRequest{Region: reg, SplitCount: uint32(batch)})
	if err != nil {
		return nil, err
	}
	for _, sid := range resp.GetIds() {
		out = append(out, sid.GetNewRegionId())
		out = append(out, sid.GetNewPeerIds()...)
	}
	return out, nil
}
