package c01

// Property "grpc" — layer L2 of C01: the SERVER layer of timestamp allocation on a live, bootstrapped
// 1-member PD (shared fixture harness/livesrv): 1-4 concurrent gRPC Tso streams over a real grpc
// connection to the member's client URL run a generated program of
//   - steps of 1-4 concurrent requests with counts from {1, 2, 10, 1000, 2^17, 2^18-1, 2^18, 2^18+1},
//   - admin resets through (*server.Handler).ResetTS with targets relative to the last granted
//     timestamp (-1 ms, same, +1 ms, beyond the saved window, +maxGap-1 ms, +maxGap), racing with requests,
//   - leader step-down and re-election of the member (Member.ResetLeader / TestServer.ResignLeader) while
//     every stream keeps sending,
// optionally with the real pd client (pd.NewClient + GetTS / GetTSAsync from several goroutines) running
// in parallel in a HELPER PROCESS (the client panics on "timestamp fallback"; a panic in this process could
// not be turned into a verdict).
//
// Oracle = C01's history oracle on the collected responses, stamped with one machine-wide monotonic clock
// (send stamp before Send / GetTS, receive stamp after Recv / Wait):
//   (1) the echoed count equals the requested count; 0 < logical < 2^18 and logical >= count (a response of
//       count n owns the n consecutive values ending at the returned timestamp; so counts >= 2^18 can only be refused);
//   (2) the value ranges of any two responses are disjoint (streams and pd client together);
//   (3) if a response was received before another request was sent, all its values are smaller;
//   (4) a request handled entirely while the member provably was not leader (sent after ResetLeader()
//       returned, answered before the start of the last raw read that found no leader record, see
//       livesrv.NotLeader) is refused;
//   (5) the pd client does not panic (timestamp fallback) — helper process exit status / stderr.
// Whether a reset is accepted is not asserted (the in-memory time is not observable): a reset with any
// harmful effect shows up in (2)/(3).
// Real clock and real scheduler: a failure is reported with the full request history and is not shrunk
// in any meaningful way; timeouts and leadership changes the harness did not ask for are inconclusive.

import (
	"bufio"
	"bytes"
	"context"
	"fmt"
	"os"
	"os/exec"
	"sort"
	"strconv"
	"strings"
	"sync"
	"sync/atomic"
	"testing"
	"time"

	"github.com/pingcap/kvproto/pkg/pdpb"
	pd "github.com/tikv/pd/client"
	"github.com/tikv/pd/pkg/tsoutil"
	"github.com/tikv/pd/server/election"
	"github.com/tikv/pd/server/tso"
	"pdverif/livesrv"
	"pdverif/vkit"
	"pgregory.net/rapid"
)

func init() {
	vkit.Register("grpc", vkit.N{Quick: 48, Thorough: 1400}, genGrpc, runGrpc)
}

// TestPropZZLiveShutdown runs after TestProp (the driver selects ^TestProp): stops the live server.
func TestPropZZLiveShutdown(t *testing.T) { livesrv.ShutdownAll() }

const maxLogical = 1 << 18

type TReq struct {
	Stream int    `json:"stream"`
	Count  uint32 `json:"count"`
}

type TStep struct {
	K      string `json:"k"`                // req | reset | elect
	Reqs   []TReq `json:"reqs,omitempty"`   // req: the concurrent requests; reset: requests racing with the reset
	Target string `json:"target,omitempty"` // reset: -1ms | same | +1ms | +window | +gap-1ms | +gap
	Resign bool   `json:"resign,omitempty"` // elect: TestServer.ResignLeader instead of Member.ResetLeader
}

type TClient struct {
	G      int  `json:"g"`      // goroutines calling the pd client
	Async  bool `json:"async"`  // GetTSAsync + Wait instead of GetTS
	PaceUs int  `json:"paceUs"` // pause between two calls of one goroutine
	// every Cancel-th call (0 = never) gives up at once: GetTSAsync with a context that is cancelled before
	// Wait / GetTS with a 50 us deadline; the callers that follow must still get distinct, ordered timestamps
	Cancel int `json:"cancel,omitempty"`
}

type TCase struct {
	Streams int      `json:"streams"`
	Client  *TClient `json:"client,omitempty"`
	Steps   []TStep  `json:"steps"`
}

// counts >= 2^18 are refused after 10 retries of 50 ms each (and poison concurrent requests meanwhile): keep them rare
var tsoCounts = func() []uint32 {
	var l []uint32
	for _, w := range []struct {
		c uint32
		n int
	}{{1, 15}, {2, 14}, {10, 13}, {1000, 12}, {1 << 17, 3}, {1<<18 - 1, 1}, {1 << 18, 1}, {1<<18 + 1, 1}} {
		for i := 0; i < w.n; i++ {
			l = append(l, w.c)
		}
	}
	return l
}()
var resetTargets = []string{"-1ms", "same", "+1ms", "+1ms", "+window", "+window", "+gap-1ms", "+gap"}

func genReqs(t *rapid.T, streams, lo, hi int) []TReq {
	n := lo + vkit.Uni(t, hi-lo+1, "nreq")
	var rs []TReq
	for i := 0; i < n; i++ {
		rs = append(rs, TReq{Stream: vkit.Uni(t, streams, "stream"), Count: vkit.PickU(t, tsoCounts, "count")})
	}
	return rs
}

func genGrpc(t *rapid.T) TCase {
	c := TCase{Streams: 1 + vkit.Uni(t, 4, "streams")}
	if c.Streams == 1 && rapid.Bool().Draw(t, "more") {
		c.Streams = 2
	}
	if vkit.Uni(t, 3, "client") == 0 {
		c.Client = &TClient{G: 1 + vkit.Uni(t, 3, "g"), Async: rapid.Bool().Draw(t, "async"), PaceUs: vkit.PickU(t, []int{100, 500, 2000}, "pace"),
			Cancel: vkit.PickU(t, []int{0, 0, 2, 3, 7}, "cancelEvery")}
	}
	n := 4 + vkit.Uni(t, 9, "nsteps")
	for i := 0; i < n; i++ {
		switch vkit.Uni(t, 8, "kind") {
		case 0, 1, 2, 3, 4:
			c.Steps = append(c.Steps, TStep{K: "req", Reqs: genReqs(t, c.Streams, 1, 4)})
		case 5, 6:
			c.Steps = append(c.Steps, TStep{K: "reset", Target: vkit.PickU(t, resetTargets, "target"), Reqs: genReqs(t, c.Streams, 0, 3)})
		default:
			c.Steps = append(c.Steps, TStep{K: "elect", Resign: rapid.Bool().Draw(t, "resign")},
				TStep{K: "req", Reqs: genReqs(t, c.Streams, 2, 4)})
		}
	}
	return c
}

// ---------------------------------------------------------------- history

type tev struct {
	No         int
	Step       int
	Who        string // "stream 2" | "pd client g1"
	During     bool   // sent by a stream loop while the member stepped down / was re-elected
	N          int64
	Send, Recv int64
	Physical   int64
	Logical    int64
	Bits       uint32
	Err        string
	NotLeader  bool
}

func (e *tev) first() uint64 { return tsoutil.ComposeTS(e.Physical, e.Logical-(e.N-1)<<e.Bits) }
func (e *tev) last() uint64  { return tsoutil.ComposeTS(e.Physical, e.Logical) }

func (e *tev) String() string {
	w := fmt.Sprintf("#%d step %d %s count=%d sent@%d", e.No, e.Step, e.Who, e.N, e.Send)
	if e.During {
		w += " (during step-down/re-election)"
	}
	nl := ""
	if e.NotLeader {
		nl = " [member provably not leader]"
	}
	if e.Err != "" {
		return fmt.Sprintf("%s received@%d REFUSED %s%s", w, e.Recv, e.Err, nl)
	}
	return fmt.Sprintf("%s received@%d -> (physical %d, logical %d)%s", w, e.Recv, e.Physical, e.Logical, nl)
}

type thist struct {
	mu   sync.Mutex
	evs  []*tev
	note []string // admin events in order (resets, elections)
}

func (h *thist) add(e *tev) {
	h.mu.Lock()
	e.No = len(h.evs) + 1
	h.evs = append(h.evs, e)
	h.mu.Unlock()
}

func (h *thist) dump(base int64) string {
	h.mu.Lock()
	defer h.mu.Unlock()
	type line struct {
		at int64
		s  string
	}
	var lines []line
	evs := append([]*tev(nil), h.evs...)
	sort.SliceStable(evs, func(i, j int) bool { return evs[i].Send < evs[j].Send })
	refusals, from, to := 0, int64(0), int64(0)
	flush := func() {
		if refusals > 0 {
			lines = append(lines, line{from, fmt.Sprintf("... %d requests sent@%d..%d during the step-down/re-election were refused", refusals, from, to)})
		}
		refusals = 0
	}
	for _, e := range evs {
		c := *e
		c.Send -= base
		if c.Recv != 0 {
			c.Recv -= base
		}
		if c.During && c.Err != "" {
			if refusals == 0 {
				from = c.Send
			}
			refusals, to = refusals+1, c.Send
			continue
		}
		flush()
		lines = append(lines, line{c.Send, c.String()})
	}
	flush()
	var b strings.Builder
	for _, n := range h.note {
		b.WriteString("\n    admin: " + n)
	}
	for _, l := range lines {
		b.WriteString("\n    " + l.s)
	}
	return b.String()
}

// ---------------------------------------------------------------- streams

type tstream struct {
	mu     sync.Mutex
	stream pdpb.PD_TsoClient
	cancel context.CancelFunc
}

type tsession struct {
	node    *livesrv.Node
	cli     pdpb.PDClient
	streams []*tstream
	h       *thist
	timeout int32 // a request got no answer in time
}

func (s *tsession) close() {
	for _, st := range s.streams {
		st.mu.Lock()
		if st.stream != nil {
			st.stream.CloseSend()
			st.cancel()
			st.stream = nil
		}
		st.mu.Unlock()
	}
}

// do sends one Tso request of the given count on stream i and records the stamped outcome.
func (s *tsession) do(step, i int, count uint32, during bool) *tev {
	st := s.streams[i]
	st.mu.Lock()
	defer st.mu.Unlock()
	ev := &tev{Step: step, Who: fmt.Sprintf("stream %d", i), N: int64(count), During: during}
	defer s.h.add(ev)
	if st.stream == nil {
		ctx, cancel := context.WithCancel(context.Background())
		ts, err := s.cli.Tso(ctx)
		if err != nil {
			cancel()
			ev.Send = livesrv.Stamp()
			ev.Recv = ev.Send
			ev.Err = "cannot open stream: " + err.Error()
			return ev
		}
		st.stream, st.cancel = ts, cancel
	}
	req := &pdpb.TsoRequest{Header: s.node.Header(), Count: count, DcLocation: tso.GlobalDCLocation}
	type res struct {
		resp *pdpb.TsoResponse
		err  error
		recv int64
	}
	ch := make(chan res, 1)
	stream := st.stream
	ev.Send = livesrv.Stamp()
	go func() {
		if err := stream.Send(req); err != nil {
			ch <- res{nil, err, livesrv.Stamp()}
			return
		}
		resp, err := stream.Recv()
		ch <- res{resp, err, livesrv.Stamp()}
	}()
	var rr res
	select {
	case rr = <-ch:
	case <-time.After(20 * time.Second):
		atomic.StoreInt32(&s.timeout, 1)
		rr = res{nil, fmt.Errorf("no answer within 20s"), livesrv.Stamp()}
	}
	ev.Recv = rr.recv
	if rr.err != nil {
		ev.Err = rr.err.Error()
		st.cancel()
		st.stream = nil
		return ev
	}
	ts := rr.resp.GetTimestamp()
	ev.Physical, ev.Logical, ev.Bits = ts.GetPhysical(), ts.GetLogical(), ts.GetSuffixBits()
	if rr.resp.GetCount() != count {
		ev.Err = fmt.Sprintf("BAD-ECHO: response count %d for request count %d (timestamp physical %d logical %d)", rr.resp.GetCount(), count, ev.Physical, ev.Logical)
	}
	return ev
}

// ---------------------------------------------------------------- helper process running the real pd client

const childEnv = "VERIF_C01_PDCLIENT"

// TestHelperPDClient is the body of the helper process: G goroutines call GetTS / GetTSAsync on one
// pd client until stdin is closed, and print every outcome with CLOCK_MONOTONIC stamps.
func TestHelperPDClient(t *testing.T) {
	spec := os.Getenv(childEnv)
	if spec == "" {
		t.Skip("helper process only")
	}
	// spec: url,g,async,paceUs,cancelEvery
	f := strings.Split(spec, ",")
	g, _ := strconv.Atoi(f[1])
	async := f[2] == "1"
	pace, _ := strconv.Atoi(f[3])
	cancelEvery := 0
	if len(f) > 4 {
		cancelEvery, _ = strconv.Atoi(f[4])
	}
	cli, err := pd.NewClient([]string{f[0]}, pd.SecurityOption{}, pd.WithCustomTimeoutOption(5*time.Second))
	if err != nil {
		fmt.Printf("NOCLIENT %v\n", err)
		return
	}
	var stop int32
	var out sync.Mutex
	w := bufio.NewWriterSize(os.Stdout, 1<<20)
	var wg sync.WaitGroup
	fmt.Println("READY")
	for i := 0; i < g; i++ {
		wg.Add(1)
		go func(i int) {
			defer wg.Done()
			for n := 1; atomic.LoadInt32(&stop) == 0; n++ {
				giveUp := cancelEvery > 0 && (n+i)%cancelEvery == 0
				ctx, cancel := context.WithTimeout(context.Background(), 10*time.Second)
				if giveUp && !async {
					cancel()
					ctx, cancel = context.WithTimeout(context.Background(), 50*time.Microsecond)
				}
				var p, l int64
				var e error
				send := livesrv.Stamp()
				if async {
					fut := cli.GetTSAsync(ctx)
					if giveUp {
						cancel() // the caller gives up while its request is queued or on its way
					}
					p, l, e = fut.Wait()
				} else {
					p, l, e = cli.GetTS(ctx)
				}
				recv := livesrv.Stamp()
				cancel()
				out.Lock()
				if e != nil {
					fmt.Fprintf(w, "ER %d %d %d %s\n", i, send, recv, strings.ReplaceAll(e.Error(), "\n", " "))
				} else {
					fmt.Fprintf(w, "EV %d %d %d %d %d\n", i, send, recv, p, l)
				}
				out.Unlock()
				if e != nil {
					time.Sleep(2 * time.Millisecond)
				}
				time.Sleep(time.Duration(pace) * time.Microsecond)
			}
		}(i)
	}
	// stdin closed = stop
	buf := make([]byte, 16)
	for {
		if _, err := os.Stdin.Read(buf); err != nil {
			break
		}
	}
	atomic.StoreInt32(&stop, 1)
	wg.Wait()
	cli.Close()
	out.Lock()
	fmt.Fprintf(w, "DONE\n")
	w.Flush()
	out.Unlock()
}

type child struct {
	cmd    *exec.Cmd
	stdin  interface{ Close() error }
	stdout bytes.Buffer
	stderr bytes.Buffer
	ready  chan struct{}
	done   chan error
}

type readyWriter struct {
	c    *child
	once sync.Once
	mu   sync.Mutex
}

func (w *readyWriter) Write(p []byte) (int, error) {
	w.mu.Lock()
	w.c.stdout.Write(p)
	has := bytes.Contains(w.c.stdout.Bytes(), []byte("READY")) || bytes.Contains(w.c.stdout.Bytes(), []byte("NOCLIENT"))
	w.mu.Unlock()
	if has {
		w.once.Do(func() { close(w.c.ready) })
	}
	return len(p), nil
}

func startChild(url string, tc *TClient) (*child, error) {
	c := &child{ready: make(chan struct{}), done: make(chan error, 1)}
	c.cmd = exec.Command(os.Args[0], "-test.run", "^TestHelperPDClient$", "-test.timeout", "120s")
	async := "0"
	if tc.Async {
		async = "1"
	}
	env := []string{fmt.Sprintf("%s=%s,%d,%s,%d,%d", childEnv, url, tc.G, async, tc.PaceUs, tc.Cancel)}
	for _, kv := range os.Environ() {
		if strings.HasPrefix(kv, "VERIF_STATS=") || strings.HasPrefix(kv, "VERIF_REPLAY=") || strings.HasPrefix(kv, childEnv+"=") {
			continue
		}
		env = append(env, kv)
	}
	c.cmd.Env = env
	in, err := c.cmd.StdinPipe()
	if err != nil {
		return nil, err
	}
	c.stdin = in
	c.cmd.Stdout = &readyWriter{c: c}
	c.cmd.Stderr = &c.stderr
	if err := c.cmd.Start(); err != nil {
		return nil, err
	}
	go func() { c.done <- c.cmd.Wait() }()
	select {
	case <-c.ready:
	case err := <-c.done:
		c.done <- err
	case <-time.After(30 * time.Second):
		c.cmd.Process.Kill()
		return nil, fmt.Errorf("pd client helper not ready within 30s")
	}
	return c, nil
}

// finish stops the helper and returns its events; crashed is non-empty when the client panicked.
func (c *child) finish(step int) (evs []*tev, crashed string, err error) {
	c.stdin.Close()
	var werr error
	select {
	case werr = <-c.done:
	case <-time.After(40 * time.Second):
		c.cmd.Process.Kill()
		return nil, "", fmt.Errorf("pd client helper did not stop within 40s")
	}
	out := c.stdout.String()
	se := c.stderr.String()
	if strings.Contains(se, "timestamp fallback") || strings.Contains(out, "timestamp fallback") || strings.Contains(se, "panic:") || strings.Contains(out, "panic:") {
		all := se + "\n" + out
		i := strings.Index(all, "panic")
		if j := strings.Index(all, "timestamp fallback"); j >= 0 && (i < 0 || j < i) {
			i = j
		}
		if i < 0 {
			i = 0
		}
		if i > 200 {
			i -= 200
		}
		end := i + 1500
		if end > len(all) {
			end = len(all)
		}
		return nil, all[i:end], nil
	}
	if strings.Contains(out, "NOCLIENT") {
		return nil, "", fmt.Errorf("pd client could not be created: %s", out)
	}
	if werr != nil || !strings.Contains(out, "DONE") {
		return nil, "", fmt.Errorf("pd client helper failed: %v", werr)
	}
	for _, ln := range strings.Split(out, "\n") {
		f := strings.SplitN(ln, " ", 6)
		if len(f) < 5 || (f[0] != "EV" && f[0] != "ER") {
			continue
		}
		ev := &tev{Step: step, Who: "pd client g" + f[1], N: 1}
		ev.Send, _ = strconv.ParseInt(f[2], 10, 64)
		ev.Recv, _ = strconv.ParseInt(f[3], 10, 64)
		if f[0] == "ER" {
			ev.Err = strings.Join(f[4:], " ")
		} else {
			if len(f) < 6 {
				continue
			}
			ev.Physical, _ = strconv.ParseInt(f[4], 10, 64)
			ev.Logical, _ = strconv.ParseInt(f[5], 10, 64)
		}
		evs = append(evs, ev)
	}
	return evs, "", nil
}

// ---------------------------------------------------------------- runner

func runGrpc(c TCase) (info vkit.Info, err error) {
	if os.Getenv("VERIF_REPLAY") != "" {
		defer livesrv.ShutdownAll()
	}
	// the other properties of this package install a virtual clock in server/tso and server/election
	// (once per process, never restored): the live server needs the real one
	tso.SetVerifClock(nil, nil)
	election.SetVerifClock(nil, nil)

	inconclusive := func(why string) (vkit.Info, error) {
		info.Inconclusive = true
		info.Class("inconclusive:" + why)
		return info, nil
	}
	fx := livesrv.MustGet()
	node := fx.Node()
	waitTSO := func(d time.Duration) bool {
		deadline := time.Now().Add(d)
		for {
			if node.Serving() {
				// (EnableLeader comes after the allocator's Initialize: the member serves timestamps now)
				if _, e := fx.Now(); e == nil {
					return true
				}
			}
			if time.Now().After(deadline) {
				return false
			}
			time.Sleep(2 * time.Millisecond)
		}
	}
	if !waitTSO(40 * time.Second) {
		livesrv.Fatal("C01 grpc: the live member does not serve timestamps")
	}
	cli, e := node.PD()
	if e != nil {
		return inconclusive("no-connection")
	}
	rec0, e := node.ReadRecord()
	if e != nil || rec0.Holder != node.Svr.GetMember().ID() {
		return inconclusive("no-leader-record")
	}
	expectRev := rec0.CreateRev

	base := livesrv.Stamp()
	h := &thist{}
	s := &tsession{node: node, cli: cli, h: h}
	for i := 0; i < c.Streams; i++ {
		s.streams = append(s.streams, &tstream{})
	}
	defer s.close()

	var ch *child
	if c.Client != nil {
		t0 := time.Now()
		ch, e = startChild(node.URL(), c.Client)
		if os.Getenv("VERIF_GRPC_DEBUG") != "" {
			fmt.Printf("  pd client helper ready after %v\n", time.Since(t0))
		}
		if e != nil {
			fmt.Println("C01 grpc:", e)
			return inconclusive("no-pd-client-helper")
		}
		defer func() {
			if ch != nil {
				ch.cmd.Process.Kill()
			}
		}()
	}

	maxGap := node.Svr.GetPersistOptions().GetMaxResetTSGap()
	saveInterval := node.Svr.GetConfig().TSOSaveInterval.Duration
	var lastMu sync.Mutex
	var lastP, lastL int64
	noteGrant := func(ev *tev) {
		if ev == nil || ev.Err != "" {
			return
		}
		lastMu.Lock()
		if ev.Physical > lastP || (ev.Physical == lastP && ev.Logical > lastL) {
			lastP, lastL = ev.Physical, ev.Logical
		}
		lastMu.Unlock()
	}
	// runReqs: the requests of one step, all streams in parallel, requests of one stream in order
	runReqs := func(step int, reqs []TReq) {
		by := map[int][]TReq{}
		for _, r := range reqs {
			if r.Stream < c.Streams {
				by[r.Stream] = append(by[r.Stream], r)
			}
		}
		var wg sync.WaitGroup
		for i, rs := range by {
			wg.Add(1)
			go func(i int, rs []TReq) {
				defer wg.Done()
				for _, r := range rs {
					noteGrant(s.do(step, i, r.Count, false))
				}
			}(i, rs)
		}
		wg.Wait()
	}

	var windows []livesrv.NotLeader
	elections, acceptedResets, refusedResets := 0, 0, 0
	dbg := os.Getenv("VERIF_GRPC_DEBUG") != ""
	for si, st := range c.Steps {
		t0 := time.Now()
		switch st.K {
		case "req":
			runReqs(si, st.Reqs)
			if dbg {
				fmt.Printf("  step %d req %v took %v\n", si, st.Reqs, time.Since(t0))
			}
		case "reset":
			lastMu.Lock()
			p, l := lastP, lastL
			lastMu.Unlock()
			if p == 0 {
				// nothing granted yet in this case: obtain a reference first
				noteGrant(s.do(si, 0, 1, false))
				lastMu.Lock()
				p, l = lastP, lastL
				lastMu.Unlock()
				if p == 0 {
					continue
				}
			}
			switch st.Target {
			case "-1ms":
				p--
			case "+1ms":
				p++
			case "+window":
				p += 2 * saveInterval.Milliseconds()
			case "+gap-1ms":
				p += maxGap.Milliseconds() - 1
			case "+gap":
				p += maxGap.Milliseconds()
			}
			target := tsoutil.ComposeTS(p, l)
			var wg sync.WaitGroup
			wg.Add(1)
			go func() {
				defer wg.Done()
				runReqs(si, st.Reqs)
			}()
			a := livesrv.Stamp()
			rerr := node.Svr.GetHandler().ResetTS(target)
			b := livesrv.Stamp()
			wg.Wait()
			res := "accepted"
			if rerr != nil {
				res = "refused: " + rerr.Error()
				refusedResets++
			} else {
				acceptedResets++
			}
			if dbg {
				fmt.Printf("  step %d reset %s %v took %v\n", si, st.Target, st.Reqs, time.Since(t0))
			}
			h.mu.Lock()
			h.note = append(h.note, fmt.Sprintf("step %d ResetTS(%s = physical %d, logical %d) @%d..%d %s", si, st.Target, p, l, a-base, b-base, res))
			h.mu.Unlock()
		case "elect":
			stop := make(chan struct{})
			var dwg sync.WaitGroup
			for i := 0; i < c.Streams; i++ {
				dwg.Add(1)
				go func(i int) {
					defer dwg.Done()
					for k := 0; k < 5000; k++ {
						select {
						case <-stop:
							return
						default:
						}
						noteGrant(s.do(si, i, 1, true))
						time.Sleep(400 * time.Microsecond)
					}
				}(i)
			}
			time.Sleep(time.Duration(1+si%3) * time.Millisecond)
			win, e := node.StepDown(st.Resign, nil, 20*time.Second)
			ok := e == nil && waitTSO(30*time.Second)
			time.Sleep(2 * time.Millisecond)
			close(stop)
			dwg.Wait()
			if !ok {
				livesrv.Fatal(fmt.Sprintf("C01 grpc: the member did not serve again after a step-down (%v)", e))
			}
			rec, e := node.ReadRecord()
			if e != nil || rec.Holder != node.Svr.GetMember().ID() {
				return inconclusive("no-leader-record")
			}
			expectRev = rec.CreateRev
			elections++
			windows = append(windows, win)
			if dbg {
				fmt.Printf("  step %d elect took %v\n", si, time.Since(t0))
			}
			h.mu.Lock()
			h.note = append(h.note, fmt.Sprintf("step %d step-down: ResetLeader returned @%d, no leader record until at least @%d", si, win.From-base, win.Until-base))
			h.mu.Unlock()
		}
	}
	s.close()

	var viol []string
	violate := func(format string, a ...interface{}) { viol = append(viol, fmt.Sprintf(format, a...)) }
	clientGrants := 0
	if ch != nil {
		t0 := time.Now()
		cevs, crashed, e := ch.finish(len(c.Steps))
		if dbg {
			fmt.Printf("  pd client helper finished after %v: %d events\n", time.Since(t0), len(cevs))
		}
		ch = nil
		if e != nil {
			fmt.Println("C01 grpc:", e)
			return inconclusive("pd-client-helper")
		}
		if crashed != "" {
			violate("the pd client panicked: %s", strings.ReplaceAll(crashed, "\n", " | "))
		}
		for _, ev := range cevs {
			if ev.Err == "" {
				clientGrants++
			}
			h.add(ev)
		}
	}

	// ---- oracle
	h.mu.Lock()
	evs := append([]*tev(nil), h.evs...)
	h.mu.Unlock()
	var ok []*tev
	streamsGranted := map[string]int{}
	hitLimit := false
	for _, ev := range evs {
		if strings.HasPrefix(ev.Err, "BAD-ECHO") {
			violate("request #%d: %s", ev.No, ev.Err)
			continue
		}
		if ev.Err != "" {
			if ev.N >= maxLogical-1 {
				hitLimit = true
			}
			continue
		}
		// (4)
		for _, w := range windows {
			if w.Covers(ev.Send, ev.Recv) {
				ev.NotLeader = true
				violate("request #%d (%s) was granted (physical %d, logical %d) while the member was not leader (sent after ResetLeader returned, answered before the last raw read that found no leader record)",
					ev.No, ev.Who, ev.Physical, ev.Logical)
			}
		}
		// (1)
		raw := ev.Logical >> ev.Bits
		if ev.Logical <= 0 || ev.Logical >= maxLogical {
			violate("request #%d (%s, count %d): logical %d outside (0, 2^18)", ev.No, ev.Who, ev.N, ev.Logical)
			continue
		}
		if raw < ev.N {
			violate("request #%d (%s): logical %d is smaller than the count %d: the response's range reaches below logical 1", ev.No, ev.Who, ev.Logical, ev.N)
			continue
		}
		if ev.Physical <= 0 {
			violate("request #%d (%s): physical %d", ev.No, ev.Who, ev.Physical)
			continue
		}
		ok = append(ok, ev)
		if strings.HasPrefix(ev.Who, "stream") {
			streamsGranted[ev.Who]++
		}
	}
	// (2) disjoint
	byFirst := append([]*tev(nil), ok...)
	sort.SliceStable(byFirst, func(i, j int) bool { return byFirst[i].first() < byFirst[j].first() })
	for i := 1; i < len(byFirst); i++ {
		a, b := byFirst[i-1], byFirst[i]
		if a.last() >= b.first() {
			violate("the ranges of #%d (%s: physical %d, logical %d..%d) and #%d (%s: physical %d, logical %d..%d) overlap",
				a.No, a.Who, a.Physical, a.Logical-(a.N-1)<<a.Bits, a.Logical, b.No, b.Who, b.Physical, b.Logical-(b.N-1)<<b.Bits, b.Logical)
			break
		}
	}
	// (3) real-time order
	byRecv := append([]*tev(nil), ok...)
	sort.SliceStable(byRecv, func(i, j int) bool { return byRecv[i].Recv < byRecv[j].Recv })
	bySend := append([]*tev(nil), ok...)
	sort.SliceStable(bySend, func(i, j int) bool { return bySend[i].Send < bySend[j].Send })
	var maxEv *tev
	k := 0
	for _, b := range bySend {
		for k < len(byRecv) && byRecv[k].Recv < b.Send {
			if maxEv == nil || byRecv[k].last() > maxEv.last() {
				maxEv = byRecv[k]
			}
			k++
		}
		if maxEv != nil && maxEv != b && maxEv.last() >= b.first() {
			violate("#%d (%s) was received@%d with (physical %d, logical %d) before #%d (%s) was sent@%d, which got (physical %d, logical %d..%d): not increasing in real-time order",
				maxEv.No, maxEv.Who, maxEv.Recv-base, maxEv.Physical, maxEv.Logical, b.No, b.Who, b.Send-base, b.Physical, b.Logical-(b.N-1)<<b.Bits, b.Logical)
			break
		}
	}
	// interleaving of two streams: in value order the grants of the streams alternate at least twice (x .. y .. x)
	interleaved := false
	{
		last, changes := "", 0
		for _, e := range byFirst {
			if !strings.HasPrefix(e.Who, "stream") {
				continue
			}
			if last != "" && e.Who != last {
				changes++
			}
			last = e.Who
		}
		interleaved = changes >= 2
	}

	if len(viol) > 0 {
		rec, e := node.ReadRecord()
		if e != nil || rec.CreateRev != expectRev {
			return inconclusive("unexpected-election")
		}
		if atomic.LoadInt32(&s.timeout) != 0 {
			return inconclusive("request-timeout")
		}
		return info, fmt.Errorf("%s (+%d more)\n  history (stamps in ns since case start):%s", viol[0], len(viol)-1, h.dump(base))
	}
	if atomic.LoadInt32(&s.timeout) != 0 {
		return inconclusive("request-timeout")
	}
	if os.Getenv("VERIF_GRPC_DEBUG") != "" {
		fmt.Printf("case history:%s\n", h.dump(base))
	}
	info.Class(fmt.Sprintf("streams-%d", c.Streams))
	info.ClassIf(elections > 0, "re-election")
	info.ClassIf(acceptedResets > 0, "reset-accepted")
	info.ClassIf(refusedResets > 0, "reset-refused")
	info.ClassIf(hitLimit, "count-at-or-over-2^18-refused")
	info.ClassIf(c.Client != nil, "pd-client")
	info.ClassIf(clientGrants > 0, "pd-client-granted")
	info.ClassIf(interleaved, "interleaved-streams")
	proven := 0
	for _, ev := range evs {
		if ev.Err != "" {
			for _, w := range windows {
				if w.Covers(ev.Send, ev.Recv) {
					proven++
				}
			}
		}
	}
	info.ClassIf(proven > 0, "proven-not-leader-refusal")
	info.NonTrivial = len(streamsGranted) >= 2 && interleaved && (elections > 0 || acceptedResets > 0)
	return info, nil
}
