// C01 — see /verif/harness/tsofix (shared fixture, runner and oracle of C01 and C02).
package c01

import (
	"errors"
	"testing"

	"pdverif/tsofix"
	"pdverif/vkit"
	"pdverif/vkit/etcdfix"
	"pgregory.net/rapid"
)

func TestMain(m *testing.M) {
	vkit.Quiet()
	vkit.MainWith(m, "C01", etcdfix.Close)
}
func TestProp(t *testing.T)   { vkit.RunAll(t) }
func TestReplay(t *testing.T) { vkit.RunReplay(t) }

func run(c tsofix.Case) (vkit.Info, error) {
	info, viol := tsofix.Run(c, "C01")
	info.NonTrivial = tsofix.NonTrivialC01(info)
	for _, v := range viol {
		if v.Prop == "C01" {
			return info, errors.New(v.Msg)
		}
	}
	return info, nil
}

func init() {
	vkit.Register("history", vkit.N{Quick: 1500, Thorough: 40000}, func(t *rapid.T) tsofix.Case { return tsofix.GenCase(t, "c01") }, run)
}
