// C01 — see /verif/harness/tsofix (shared fixture, runner and oracle of C01 and C02).
package c01

import (
	"errors"
	"testing"

	"pdverif/tsofix"
	"pdverif/vkit"
	"pdverif/vkit/etcdfix"
	"pgregory.net/rapid"
)

func TestMain(m *testing.M) {
	vkit.Quiet()
	vkit.MainWith(m, "C01", etcdfix.Close)
}
func TestProp(t *testing.T)   { vkit.RunAll(t) }
func TestReplay(t *testing.T) { vkit.RunReplay(t) }

func run(c tsofix.Case) (vkit.Info, error) {
	info, viol := tsofix.Run(c, "C01")
	info.NonTrivial = tsofix.NonTrivialC01(info)
	for _, v := range viol {
		if v.Prop == "C01" {
			return info, errors.New(v.Msg)
		}
	}
	return info, nil
}

func init() {
	vkit.Register("history", vkit.N{Quick: 1500, Thorough: 40000}, func(t *rapid.T) tsofix.Case { return tsofix.GenCase(t, "c01") }, run)
}

// The allocator daemon's window update is parked right after its save txn returned, the leader loop steps down
// (leadership given up, allocator group reset), the update then writes its physical time into the memory that was
// just cleared; another member leads and grants; the first member wins again and a request reaches it before its
// allocator has been re-initialised: it is answered from the stale memory, below what the other member granted.
func TestFinding_UpdateRefillsMemoryAfterStepDown(t *testing.T) {
	c := tsofix.Case{
		Cfg: tsofix.Cfg{Members: 2, SaveMs: 3000, UpdMs: 50, MaxGapMs: 24 * 3600 * 1000, TTL: 100000, Offsets: []int64{0, 0}},
		Ops: []tsofix.Op{
			{K: "campaign", M: 0}, {K: "gen", M: 0, Count: 1}, {K: "clockall", D: 3001},
			{K: "race", M: 0, After: true, Sched: []int{0, 1, 1, 0, 2, 2, 0, 3, 2, 0}, Tasks: []tsofix.Task{{K: "update"}, {K: "stepdown"}}},
			{K: "campaign", M: 1}, {K: "gen", M: 1, Count: 1}, {K: "clockall", D: 50}, {K: "update", M: 1}, {K: "gen", M: 1, Count: 1},
			{K: "resign", M: 1},
			{K: "campaign", M: 0, Mid: 10}, {K: "gen", M: 0, Count: 1},
		}}
	rep, detail := false, "no C01 violation on the probe history"
	for i := 0; i < 3 && !rep; i++ {
		_, viol := tsofix.Run(c, "C01")
		for _, v := range viol {
			if v.Prop == "C01" {
				rep, detail = true, v.Msg
				break
			}
		}
	}
	vkit.Finding(t, "C01/update-refills-memory-after-step-down", rep, detail)
}
