// C02 — see /verif/harness/tsofix (shared fixture, runner and oracle of C01 and C02).
package c02

import (
	"errors"
	"fmt"
	"testing"

	"pdverif/tsofix"
	"pdverif/vkit"
	"pdverif/vkit/etcdfix"
	"pgregory.net/rapid"
)

func TestMain(m *testing.M) {
	vkit.Quiet()
	vkit.MainWith(m, "C02", etcdfix.Close)
}
func TestProp(t *testing.T)   { vkit.RunAll(t) }
func TestReplay(t *testing.T) { vkit.RunReplay(t) }

func run(c tsofix.Case) (vkit.Info, error) {
	info, viol := tsofix.Run(c, "C02")
	info.NonTrivial = tsofix.NonTrivialC02(info)
	for _, v := range viol {
		if v.Prop == "C02" {
			return info, errors.New(v.Msg)
		}
	}
	return info, nil
}

func init() {
	vkit.Register("window", vkit.N{Quick: 1500, Thorough: 40000}, func(t *rapid.T) tsofix.Case { return tsofix.GenCase(t, "c02") }, run)
}

func probe(t *testing.T, key string, c tsofix.Case) {
	tsofix.NoExclude = true
	defer func() { tsofix.NoExclude = false }()
	rep := false
	detail := "no C02 violation on the probe history"
	for i := 0; i < 3 && !rep; i++ {
		_, viol := tsofix.Run(c, "C02")
		for _, v := range viol {
			if v.Prop == "C02" {
				rep, detail = true, v.Msg
				break
			}
		}
	}
	vkit.Finding(t, key, rep, detail)
}

// UpdateTSO parked at its save txn, SetTSO(+1h) runs to completion, then the parked save is released.
func TestFinding_UpdateRacesWithReset(t *testing.T) {
	probe(t, "C02/update-races-with-reset", tsofix.Case{
		Cfg: tsofix.Cfg{Members: 1, SaveMs: 50, UpdMs: 50, MaxGapMs: 24 * 3600 * 1000, TTL: 600},
		Ops: []tsofix.Op{
			{K: "campaign"}, {K: "gen", Count: 1}, {K: "clockall", D: 49},
			{K: "race", Sched: []int{1, 0}, Tasks: []tsofix.Task{{K: "update"}, {K: "settso", Rel: "+1h"}}},
			{K: "gen", Count: 1},
		}})
}

// SetTSO at the window edge whose save is applied but reported as failed; the member goes on; 4 ms later UpdateTSO saves a smaller bound.
func TestFinding_LostAckStaleWindow(t *testing.T) {
	probe(t, "C02/lost-ack-stale-window", tsofix.Case{
		Cfg: tsofix.Cfg{Members: 1, SaveMs: 5, UpdMs: 1, MaxGapMs: 24 * 3600 * 1000, TTL: 600},
		Ops: []tsofix.Op{
			{K: "campaign"}, {K: "gen", Count: 1}, {K: "fail", Fail: "lostack"}, {K: "settso", Rel: "edge"},
			{K: "clockall", D: 4}, {K: "update"}, {K: "gen", Count: 1},
		}})
}

// A window save of member 0 is still under way when it resigns; member 1 (clock one hour ahead of member 0's)
// serves a term; member 0 is elected again and the delayed save arrives while it initialises: the stored bound
// must not go back.
func TestFinding_EarlierTermSaveAppliedInLaterTerm(t *testing.T) {
	probe(t, "C02/earlier-term-save-applied-in-later-term", tsofix.Case{
		Cfg: tsofix.Cfg{Members: 2, SaveMs: 3000, UpdMs: 50, MaxGapMs: 1000, TTL: 100000, Offsets: []int64{-3600_000, 1}},
		Ops: []tsofix.Op{
			{K: "campaign", M: 0}, {K: "gen", M: 0, Count: 1}, {K: "clockall", D: 3001}, {K: "hold", M: 0},
			{K: "resign", M: 0}, {K: "campaign", M: 1}, {K: "gen", M: 1, Count: 1}, {K: "resign", M: 1},
			{K: "campaign", M: 0}, {K: "gen", M: 0, Count: 1},
		}})
}

// ---- fault and crash-point enumeration ------------------------------------------------
//
// A generated sequential history is executed clean, then once per write txn index with that
// write failing (not applied; and, unless excluded by the known finding, applied-but-reported-
// failed), and once per crash point (after every op) with every member stopped and a member
// with a drawn clock offset taking over and granting. Oracle: I1, I2 and I4 on every execution.

type EnumCase struct {
	Base     tsofix.Case `json:"base"`
	Takeover int         `json:"takeover"`   // member that takes over at the crash points
	Offsets  []int64     `json:"offsets_ms"` // clock offsets tried for the successor
}

func init() {
	vkit.Register("enum", vkit.N{Quick: 60, Thorough: 3000}, func(t *rapid.T) EnumCase {
		c := EnumCase{Base: tsofix.GenCase(t, "enum")}
		c.Takeover = vkit.Uni(t, c.Base.Cfg.Members, "takeover")
		all := []int64{-3600_000, -c.Base.Cfg.SaveMs - 1, -1, 0, 1, 3600_000}
		c.Offsets = []int64{vkit.PickU(t, all, "off1"), vkit.PickU(t, all, "off2")}
		return c
	}, runEnum)
}

func firstC02(viol []tsofix.Violation) error {
	for _, v := range viol {
		if v.Prop == "C02" {
			return errors.New(v.Msg)
		}
	}
	return nil
}

func runEnum(c EnumCase) (vkit.Info, error) {
	info, viol, st := tsofix.RunX(c.Base, "C02")
	if info.Inconclusive {
		return info, nil
	}
	if err := firstC02(viol); err != nil {
		return info, fmt.Errorf("clean execution: %v", err)
	}
	runs := 1
	// (a) every write fails once
	limit := st.Writes
	if limit > 40 {
		limit = 40
	}
	kinds := []string{"before", "lostack"}
	for j := 1; j <= limit; j++ {
		for _, k := range kinds {
			b := c.Base
			b.Cfg.FaultAt, b.Cfg.FaultKind = j, k
			i2, v2, _ := tsofix.RunX(b, "C02")
			runs++
			info.Excluded = append(info.Excluded, i2.Excluded...)
			if i2.Inconclusive {
				continue
			}
			if err := firstC02(v2); err != nil {
				return info, fmt.Errorf("with write txn %d of %d failing (%s): %v", j, st.Writes, k, err)
			}
		}
	}
	// (b) crash after every op, successor with a drawn clock offset takes over and grants
	n := c.Base.Cfg.Members
	for p := 0; p <= len(c.Base.Ops); p++ {
		for _, off := range c.Offsets {
			b := c.Base
			b.Ops = append([]tsofix.Op(nil), c.Base.Ops[:p]...)
			for m := 0; m < n; m++ {
				b.Ops = append(b.Ops, tsofix.Op{K: "crash", M: m})
			}
			b.Ops = append(b.Ops, tsofix.Op{K: "restart", M: c.Takeover, D: off},
				tsofix.Op{K: "campaign", M: c.Takeover}, tsofix.Op{K: "gen", M: c.Takeover, Count: 1},
				tsofix.Op{K: "clockall", D: 2}, tsofix.Op{K: "update", M: c.Takeover}, tsofix.Op{K: "gen", M: c.Takeover, Count: 10})
			i3, v3, _ := tsofix.RunX(b, "C02")
			runs++
			if i3.Inconclusive {
				continue
			}
			if err := firstC02(v3); err != nil {
				return info, fmt.Errorf("crash after op %d of %d, member %d takes over with clock offset %d ms: %v", p, len(c.Base.Ops), c.Takeover, off, err)
			}
		}
	}
	info.Classes = append(info.Classes, fmt.Sprintf("writes=%d", bucket(st.Writes)), fmt.Sprintf("executions=%d", bucket(runs)))
	info.ClassIf(st.Writes > 40, "fault-points-capped-at-40")
	info.NonTrivial = st.Writes >= 2 && st.Grants >= 2
	return info, nil
}

func bucket(n int) int {
	switch {
	case n < 5:
		return n
	case n < 10:
		return 5
	case n < 20:
		return 10
	case n < 40:
		return 20
	case n < 80:
		return 40
	}
	return 80
}
