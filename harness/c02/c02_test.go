// C02 — see /verif/harness/tsofix (shared fixture, runner and oracle of C01 and C02).
package c02

import (
	"errors"
	"testing"

	"pdverif/tsofix"
	"pdverif/vkit"
	"pdverif/vkit/etcdfix"
	"pgregory.net/rapid"
)

func TestMain(m *testing.M) {
	vkit.Quiet()
	vkit.MainWith(m, "C02", etcdfix.Close)
}
func TestProp(t *testing.T)   { vkit.RunAll(t) }
func TestReplay(t *testing.T) { vkit.RunReplay(t) }

func run(c tsofix.Case) (vkit.Info, error) {
	info, viol := tsofix.Run(c, "C02")
	info.NonTrivial = tsofix.NonTrivialC02(info)
	for _, v := range viol {
		if v.Prop == "C02" {
			return info, errors.New(v.Msg)
		}
	}
	return info, nil
}

func init() {
	vkit.Register("window", vkit.N{Quick: 1500, Thorough: 40000}, func(t *rapid.T) tsofix.Case { return tsofix.GenCase(t, "c02") }, run)
}

func probe(t *testing.T, key string, c tsofix.Case) {
	tsofix.NoExclude = true
	defer func() { tsofix.NoExclude = false }()
	rep := false
	detail := "no C02 violation on the probe history"
	for i := 0; i < 3 && !rep; i++ {
		_, viol := tsofix.Run(c, "C02")
		for _, v := range viol {
			if v.Prop == "C02" {
				rep, detail = true, v.Msg
				break
			}
		}
	}
	vkit.Finding(t, key, rep, detail)
}

// UpdateTSO parked at its save txn, SetTSO(+1h) runs to completion, then the parked save is released.
func TestFinding_UpdateRacesWithReset(t *testing.T) {
	probe(t, "C02/update-races-with-reset", tsofix.Case{
		Cfg: tsofix.Cfg{Members: 1, SaveMs: 50, UpdMs: 50, MaxGapMs: 24 * 3600 * 1000, TTL: 600},
		Ops: []tsofix.Op{
			{K: "campaign"}, {K: "gen", Count: 1}, {K: "clockall", D: 49},
			{K: "race", Sched: []int{1, 0}, Tasks: []tsofix.Task{{K: "update"}, {K: "settso", Rel: "+1h"}}},
			{K: "gen", Count: 1},
		}})
}

// SetTSO at the window edge whose save is applied but reported as failed; the member goes on; 4 ms later UpdateTSO saves a smaller bound.
func TestFinding_LostAckStaleWindow(t *testing.T) {
	probe(t, "C02/lost-ack-stale-window", tsofix.Case{
		Cfg: tsofix.Cfg{Members: 1, SaveMs: 5, UpdMs: 1, MaxGapMs: 24 * 3600 * 1000, TTL: 600},
		Ops: []tsofix.Op{
			{K: "campaign"}, {K: "gen", Count: 1}, {K: "fail", Fail: "lostack"}, {K: "settso", Rel: "edge"},
			{K: "clockall", D: 4}, {K: "update"}, {K: "gen", Count: 1},
		}})
}
