package c02

// Property "globaldc" of C02: the stored time-window bound covers every granted timestamp also on the
// dc-location aware ("synchronized") global generation path and on local allocators.
//
// A live tests.NewTestCluster with Local TSO enabled (2-3 members, 1-3 dc-locations) executes a generated
// program: global and local Tso requests (counts 1-30, sequential steps and small parallel groups), episodes
// "the local allocator of dc-X jumps d ahead while max-gap-reset-ts is g on every member" (d below and above
// g), admin ResetTS on the global allocator within / beyond the gap, PD leader resignation (the global
// allocator moves; also right after an episode).
//
// Oracle (raw reads through the harness' own etcd client, never through pd):
//
//	(a) after every GRANTED timestamp the window key of its allocator (<root>/timestamp for global,
//	    <root>/<dc>/timestamp for dc) is read; the stored bound only grows, so a value read after the grant is
//	    an upper bound for the bound at grant time: granted physical time must be strictly below it;
//	(b) successive raw reads of each window key never decrease;
//	(c) a global timestamp granted after a change of the global allocator's leader is larger than every
//	    global timestamp granted before the change (only requests that do not overlap in real time).
//
// Requests that fail are fine. Real clock and scheduler: a failing history is reported in full, not shrunk.
//
// Notes: (1) packages server/tso and server/election are built through the clock overlay and tsofix installs a
// virtual clock once per process; this property restores the real clock and therefore must stay the LAST
// registered property of the package (file name order). (2) every embedded etcd maps 10 GB of address space and
// the driver limits the address space of a shard (mem_gb): the per-process etcd of the other properties is closed
// before the cluster starts, and clusters have 2 members unless the limit allows 3.

import (
	"context"
	"encoding/binary"
	"fmt"
	"os"
	"path"
	"sort"
	"strconv"
	"strings"
	"sync"
	"sync/atomic"
	"syscall"
	"testing"
	"time"

	"github.com/pingcap/kvproto/pkg/pdpb"
	"github.com/tikv/pd/pkg/typeutil"
	"github.com/tikv/pd/server/config"
	"github.com/tikv/pd/server/election"
	"github.com/tikv/pd/server/tso"
	"github.com/tikv/pd/tests"
	"go.etcd.io/etcd/clientv3"
	"google.golang.org/grpc"
	"pdverif/vkit"
	"pdverif/vkit/etcdfix"
	"pgregory.net/rapid"
)

func init() {
	// one case per shard; the case itself says whether this shard runs it (quick: shard 0 only)
	vkit.Register("globaldc", vkit.N{Quick: 4, Thorough: 16}, genGlobalDC, runGlobalDC)
}

// TestPropZZGlobalDCShutdown runs after TestProp (the driver selects ^TestProp): removes the cluster's data.
func TestPropZZGlobalDCShutdown(t *testing.T) { gdClose() }

const gdSaveInterval = time.Second // tso-save-interval of the members: the window is at most this far ahead

type GDReq struct {
	DC int    `json:"dc"` // -1 = global
	N  uint32 `json:"n"`
}

type GDStep struct {
	Par []GDReq `json:"par,omitempty"`
	// jump: dc's local allocator jumps AheadMs ahead, then max-gap-reset-ts = GapMs on every member (0 = default)
	Jump *GDJump `json:"jump,omitempty"`
	// reset: admin ResetTS on the global allocator to (its present physical time + ResetMs)
	ResetMs int `json:"reset_ms,omitempty"`
	// resign: the PD leader resigns (the global allocator moves to whoever wins)
	Resign bool `json:"resign,omitempty"`
	// move: the local allocator of dc-location Move-1 is handed over to another member (next-leader key, holder resigns)
	Move int `json:"move,omitempty"`
}

type GDJump struct {
	DC      int `json:"dc"`
	AheadMs int `json:"ahead_ms"`
	GapMs   int `json:"gap_ms"`
	// All: the local allocators of all dc-locations jump (then the write-back of the collected maximum is refused
	// only by the global allocator; otherwise already a local allocator of another dc-location refuses it)
	All bool `json:"all,omitempty"`
}

type GDCase struct {
	Skip bool  `json:"skip,omitempty"`
	PDs  []int `json:"pds"`
	// Names of the dc-locations (index = the numbers in PDs): the window records live under <root>/<name>/timestamp,
	// so names that sort before / after the word "timestamp" and names that are string prefixes of each other matter
	Names []string `json:"names"`
	Steps []GDStep `json:"steps"`
}

func gdMaxMembers() int {
	var r syscall.Rlimit
	if err := syscall.Getrlimit(syscall.RLIMIT_AS, &r); err == nil && r.Cur < 44<<30 {
		return 2
	}
	return 3
}

func gdEnvInt(k string, def int) int {
	if n, err := strconv.Atoi(os.Getenv(k)); err == nil {
		return n
	}
	return def
}

func genGlobalDC(t *rapid.T) GDCase {
	thorough := vkit.Thorough()
	var c GDCase
	if !thorough && gdEnvInt("VERIF_SHARD", 0) != 0 {
		c.Skip = true
		return c
	}
	topos := [][]int{{0, 1}, {1, 0}, {0, 0}}
	if gdMaxMembers() >= 3 {
		topos = append(topos, []int{0, 1, 0}, []int{0, 1, 1}, []int{0, 1, 2}, []int{0, 1, 2})
	}
	c.PDs = rapid.SampledFrom(topos).Draw(t, "pds")
	ndc := 0
	for _, d := range c.PDs {
		if d+1 > ndc {
			ndc = d + 1
		}
	}
	c.Names = rapid.SampledFrom([][]string{
		{"zone-1", "zone-10", "zone-2"}, {"zone-1", "zone-10", "zone-2"}, // after "timestamp" and prefix siblings
		{"dc-1", "dc-10", "dc-2"},      // before "timestamp", prefix siblings
		{"zone-a", "us-west", "tokyo"}, // after "timestamp"
		{"alpha", "zone-a", "beta"},    // one before, one after
		{"dc-1", "dc-2", "dc-3"},       // the usual names
	}).Draw(t, "names")[:ndc]
	nsteps := 120
	if thorough {
		nsteps = 400
	}
	nsteps = rapid.IntRange(nsteps*2/3, nsteps).Draw(t, "nsteps")
	counts := []int{1, 1, 1, 2, 3, 5, 10, 30}
	req := func() GDReq {
		r := GDReq{DC: -1, N: uint32(rapid.SampledFrom(counts).Draw(t, "n"))}
		if rapid.IntRange(0, 9).Draw(t, "local") < 5 {
			r.DC = rapid.IntRange(0, ndc-1).Draw(t, "dc")
		}
		return r
	}
	for i := 0; i < nsteps; i++ {
		var st GDStep
		w := 1
		if rapid.IntRange(0, 3).Draw(t, "par") == 0 {
			w = rapid.IntRange(2, 3).Draw(t, "width")
		}
		for k := 0; k < w; k++ {
			st.Par = append(st.Par, req())
		}
		c.Steps = append(c.Steps, st)
	}
	insert := func(pat []GDStep) {
		at := rapid.IntRange(0, len(c.Steps)).Draw(t, "at")
		c.Steps = append(c.Steps[:at], append(pat, c.Steps[at:]...)...)
	}
	// episodes: dc-X jumps d ahead with max-gap-reset-ts g; local(dc-X); global attempts; optionally the PD leader
	// resigns right there; g restored; a global request
	nep := rapid.IntRange(2, 3).Draw(t, "episodes")
	if thorough {
		nep = rapid.IntRange(3, 6).Draw(t, "episodes_t")
	}
	for j := 0; j < nep; j++ {
		d, g := 2500, 1000
		if j > 0 {
			d = rapid.SampledFrom([]int{300, 900, 1500, 2500, 5000}).Draw(t, "ahead")
			g = rapid.SampledFrom([]int{1000, 2000}).Draw(t, "gap")
		}
		dcx := rapid.IntRange(0, ndc-1).Draw(t, "jdc")
		all := j == 0 || rapid.Bool().Draw(t, "jall")
		pat := []GDStep{{Jump: &GDJump{DC: dcx, AheadMs: d, GapMs: g, All: all}}, {Par: []GDReq{{DC: dcx, N: 1}}}}
		for k, ng := 0, rapid.IntRange(1, 3).Draw(t, "jglobals"); k < ng; k++ {
			pat = append(pat, GDStep{Par: []GDReq{{DC: -1, N: uint32(rapid.SampledFrom([]int{1, 1, 5}).Draw(t, "jgn"))}}})
			if rapid.Bool().Draw(t, "jlocal") {
				pat = append(pat, GDStep{Par: []GDReq{{DC: rapid.IntRange(0, ndc-1).Draw(t, "jldc"), N: 1}}})
			}
		}
		if rapid.IntRange(0, 2).Draw(t, "jresign") == 0 {
			pat = append(pat, GDStep{Resign: true}, GDStep{Par: []GDReq{{DC: -1, N: 1}}})
		}
		pat = append(pat, GDStep{Jump: &GDJump{GapMs: 0}}, GDStep{Par: []GDReq{{DC: -1, N: 1}}}, GDStep{Par: []GDReq{{DC: dcx, N: 1}}})
		insert(pat)
	}
	// PD leader resignations with grants on both sides
	for j, n := 0, rapid.IntRange(1, 2).Draw(t, "resigns"); j < n; j++ {
		insert([]GDStep{{Par: []GDReq{{DC: -1, N: 1}}}, {Resign: true}, {Par: []GDReq{{DC: -1, N: uint32(rapid.SampledFrom(counts).Draw(t, "rn"))}}}})
	}
	// the global time is moved ahead by the admin and the PD leader resigns before anything is granted; and the
	// same with a grant in between
	for j, n := 0, rapid.IntRange(1, 2).Draw(t, "reset_resign"); j < n; j++ {
		pat := []GDStep{{Jump: &GDJump{GapMs: 0}}, {Par: []GDReq{{DC: -1, N: 1}}}, {ResetMs: rapid.SampledFrom([]int{4000, 8000}).Draw(t, "rr_ms")}}
		if j > 0 && rapid.Bool().Draw(t, "rr_grant") {
			pat = append(pat, GDStep{Par: []GDReq{{DC: -1, N: 1}}})
		}
		pat = append(pat, GDStep{Resign: true}, GDStep{Par: []GDReq{{DC: -1, N: 1}}})
		insert(pat)
	}
	// a local allocator that is ahead of the clocks is handed over to another member
	for j, n := 0, rapid.IntRange(1, 2).Draw(t, "moves"); j < n; j++ {
		dcx := rapid.IntRange(0, ndc-1).Draw(t, "mdc")
		insert([]GDStep{{Jump: &GDJump{DC: dcx, AheadMs: rapid.SampledFrom([]int{1500, 2500, 5000}).Draw(t, "m_ahead")}},
			{Par: []GDReq{{DC: dcx, N: 1}}}, {Move: dcx + 1}, {Par: []GDReq{{DC: dcx, N: 1}}}, {Par: []GDReq{{DC: dcx, N: 2}}}})
	}
	// admin ResetTS on the global allocator, within and beyond the gap
	for j, n := 0, rapid.IntRange(1, 3).Draw(t, "resets"); j < n; j++ {
		ms := rapid.SampledFrom([]int{1, 200, 900, 1500, 4000}).Draw(t, "reset_ms")
		pat := []GDStep{}
		if rapid.Bool().Draw(t, "reset_small_gap") {
			pat = append(pat, GDStep{Jump: &GDJump{GapMs: 1000}})
		}
		pat = append(pat, GDStep{ResetMs: ms}, GDStep{Par: []GDReq{{DC: -1, N: 1}}}, GDStep{Par: []GDReq{req()}}, GDStep{Jump: &GDJump{GapMs: 0}})
		insert(pat)
	}
	return c
}

// ---------------------------------------------------------------- cluster (one per process)

type gdCluster struct {
	key     string
	cancel  context.CancelFunc
	cluster *tests.TestCluster
	names   []string
	cid     uint64
	root    string
	etcd    *clientv3.Client // the harness' own client
	mu      sync.Mutex
	conns   map[string]*grpc.ClientConn
}

var (
	gdMu  sync.Mutex
	gdCur *gdCluster
)

func gdClose() {
	gdMu.Lock()
	defer gdMu.Unlock()
	if gdCur != nil {
		for _, s := range gdCur.cluster.GetServers() {
			os.RemoveAll(s.GetConfig().DataDir)
		}
		gdCur = nil
	}
}

func (x *gdCluster) destroy() {
	for _, c := range x.conns {
		c.Close()
	}
	if x.etcd != nil {
		x.etcd.Close()
	}
	gdWithin(30*time.Second, func() { x.cluster.Destroy() })
	x.cancel()
}

func gdWithin(d time.Duration, f func()) bool {
	done := make(chan struct{})
	go func() {
		defer func() { recover() }()
		f()
		close(done)
	}()
	select {
	case <-done:
		return true
	case <-time.After(d):
		return false
	}
}

func gdDCs(pds []int, names []string) []string {
	seen := map[int]bool{}
	var out []string
	for _, d := range pds {
		if !seen[d] {
			seen[d] = true
			out = append(out, names[d])
		}
	}
	sort.Strings(out)
	return out
}

func gdGetCluster(pds []int, names []string) *gdCluster {
	key := fmt.Sprint(pds, names)
	if gdCur != nil && gdCur.key == key {
		return gdCur
	}
	if gdCur != nil {
		gdCur.destroy()
		gdCur = nil
	}
	// the other properties of this package are done (this one is registered last): real clock, and give the
	// address space of their etcd back
	tso.SetVerifClock(nil, nil)
	election.SetVerifClock(nil, nil)
	etcdfix.Close()
	// hand-overs of local allocators are driven by the program, not by the periodic priority check
	tso.PriorityCheck = 30 * time.Minute
	ctx, cancel := context.WithCancel(context.Background())
	var cl *tests.TestCluster
	var err error
	ok := gdWithin(90*time.Second, func() {
		cl, err = tests.NewTestCluster(ctx, len(pds), func(conf *config.Config, name string) {
			i, _ := strconv.Atoi(strings.TrimPrefix(name, "pd"))
			conf.EnableLocalTSO = true
			if conf.Labels == nil {
				conf.Labels = map[string]string{}
			}
			conf.Labels[config.ZoneLabel] = names[pds[i-1]]
			conf.TSOSaveInterval = typeutil.NewDuration(gdSaveInterval)
			conf.Log.Level = "error"
		})
		if err == nil {
			err = cl.RunInitialServers()
		}
	})
	if !ok || err != nil || cl == nil {
		fmt.Printf("C02 globaldc: cluster %v did not start: ok=%v err=%v\n", pds, ok, err)
		cancel()
		return nil
	}
	x := &gdCluster{key: key, cancel: cancel, cluster: cl, names: names, conns: map[string]*grpc.ClientConn{}}
	if !x.waitLeaders(pds, 90*time.Second) {
		fmt.Printf("C02 globaldc: cluster %v did not elect all leaders in time\n", pds)
		x.destroy()
		return nil
	}
	ls := cl.GetServer(cl.GetLeader())
	x.cid = ls.GetClusterID()
	x.root = path.Join("/pd", strconv.FormatUint(x.cid, 10))
	var eps []string
	for _, s := range cl.GetServers() {
		eps = append(eps, s.GetConfig().ClientUrls)
	}
	sort.Strings(eps)
	x.etcd, err = clientv3.New(clientv3.Config{Endpoints: eps, DialTimeout: 5 * time.Second})
	if err != nil {
		x.destroy()
		return nil
	}
	gdCur = x
	return x
}

func (x *gdCluster) waitLeaders(pds []int, d time.Duration) bool {
	deadline := time.Now().Add(d)
	for time.Now().Before(deadline) {
		if x.cluster.WaitLeader(tests.WithRetryTimes(1), tests.WithWaitInterval(50*time.Millisecond)) == "" {
			time.Sleep(100 * time.Millisecond)
			continue
		}
		x.cluster.CheckClusterDCLocation()
		all := true
		for _, dc := range gdDCs(pds, x.names) {
			if x.cluster.WaitAllocatorLeader(dc, tests.WithRetryTimes(1), tests.WithWaitInterval(50*time.Millisecond)) == "" {
				all = false
			}
		}
		// the global allocator must be initialised as well
		if all {
			if al, err := x.cluster.GetServer(x.cluster.GetLeader()).GetTSOAllocatorManager().GetAllocator(tso.GlobalDCLocation); err == nil && al.IsInitialize() {
				return true
			}
		}
		time.Sleep(200 * time.Millisecond)
	}
	return false
}

func (x *gdCluster) conn(addr string) (*grpc.ClientConn, error) {
	x.mu.Lock()
	defer x.mu.Unlock()
	if c, ok := x.conns[addr]; ok {
		return c, nil
	}
	ctx, cancel := context.WithTimeout(context.Background(), 5*time.Second)
	defer cancel()
	c, err := grpc.DialContext(ctx, strings.TrimPrefix(addr, "http://"), grpc.WithInsecure(), grpc.WithBlock())
	if err != nil {
		return nil, err
	}
	x.conns[addr] = c
	return c, nil
}

// target: address of the member that leads the allocator of dc ("global" = PD leader).
func (x *gdCluster) target(dc string) string {
	leader := x.cluster.GetLeader()
	if leader == "" {
		return ""
	}
	ls := x.cluster.GetServer(leader)
	if dc == tso.GlobalDCLocation {
		return ls.GetAddr()
	}
	name := ls.GetAllocatorLeader(dc).GetName()
	if name == "" || x.cluster.GetServer(name) == nil {
		return ""
	}
	return x.cluster.GetServer(name).GetAddr()
}

// handOver moves the local allocator of dc to another member the way the priority checker does (next-leader key, the
// holder resigns) and waits until the target leads.
func (x *gdCluster) handOver(dc string) (from, to string, ok bool) {
	from = x.cluster.WaitAllocatorLeader(dc, tests.WithRetryTimes(1), tests.WithWaitInterval(time.Millisecond))
	if from == "" {
		return
	}
	var names []string
	for name := range x.cluster.GetServers() {
		if name != from {
			names = append(names, name)
		}
	}
	if len(names) == 0 {
		return
	}
	sort.Strings(names)
	to = names[0]
	am := x.cluster.GetServer(from).GetTSOAllocatorManager()
	if am.TransferAllocatorForDCLocation(dc, x.cluster.GetServer(to).GetServerID()) != nil {
		return
	}
	am.ResetAllocatorGroup(dc)
	for deadline := time.Now().Add(15 * time.Second); time.Now().Before(deadline); time.Sleep(30 * time.Millisecond) {
		if x.cluster.WaitAllocatorLeader(dc, tests.WithRetryTimes(1), tests.WithWaitInterval(time.Millisecond)) == to {
			return from, to, true
		}
	}
	return
}

func (x *gdCluster) setGap(ms int) {
	d := 24 * time.Hour
	if ms > 0 {
		d = time.Duration(ms) * time.Millisecond
	}
	for _, s := range x.cluster.GetServers() {
		opts := s.GetPersistOptions()
		cfg := opts.GetPDServerConfig().Clone()
		cfg.MaxResetTSGap = typeutil.NewDuration(d)
		opts.SetPDServerConfig(cfg)
	}
}

func gdCompose(physical, logical int64) uint64 { return uint64(physical)<<18 | uint64(logical) }

// jump: the local allocator of dc moves AheadMs ahead of max(now, its TSO) (a fast clock on its member), then
// max-gap-reset-ts is set. Returns whether the allocator moved.
func (x *gdCluster) jump(dcs []string, j *GDJump) bool {
	moved := false
	if j.AheadMs > 0 {
		x.setGap(0)
		which := []string{dcs[j.DC%len(dcs)]}
		if j.All {
			which = dcs
		}
		now := time.Now().UnixNano() / int64(time.Millisecond)
		for _, dc := range which {
			leader := x.cluster.GetLeader()
			if leader == "" {
				break
			}
			name := x.cluster.GetServer(leader).GetAllocatorLeader(dc).GetName()
			srv := x.cluster.GetServer(name)
			if name == "" || srv == nil {
				continue
			}
			al, err := srv.GetTSOAllocatorManager().GetAllocator(dc)
			if err != nil {
				continue
			}
			la, ok := al.(*tso.LocalTSOAllocator)
			if !ok {
				continue
			}
			cur, err := la.GetCurrentTSO()
			if err != nil {
				continue
			}
			base := now
			if cur.GetPhysical() > base {
				base = cur.GetPhysical()
			}
			if la.SetTSO(gdCompose(base+int64(j.AheadMs), 0)) == nil {
				moved = true
			}
		}
	}
	x.setGap(j.GapMs)
	return moved
}

// resetTS: the admin path (Handler.ResetTS) on the PD leader: global TSO := max(now, last granted global physical) + ms.
func (x *gdCluster) resetTS(base int64, ms int) (accepted bool) {
	leader := x.cluster.GetLeader()
	if leader == "" {
		return false
	}
	if now := time.Now().UnixNano() / int64(time.Millisecond); now > base {
		base = now
	}
	return x.cluster.GetServer(leader).GetServer().GetHandler().ResetTS(gdCompose(base+int64(ms), 0)) == nil
}

// window reads the stored time-window bound (nanoseconds) of an allocator through the harness' own etcd client.
func (x *gdCluster) window(dc string) (int64, bool) {
	key := path.Join(x.root, "timestamp")
	if dc != tso.GlobalDCLocation {
		key = path.Join(x.root, dc, "timestamp")
	}
	ctx, cancel := context.WithTimeout(context.Background(), 5*time.Second)
	defer cancel()
	resp, err := x.etcd.Get(ctx, key)
	if err != nil || len(resp.Kvs) == 0 || len(resp.Kvs[0].Value) != 8 {
		return 0, false
	}
	return int64(binary.BigEndian.Uint64(resp.Kvs[0].Value)), true
}

// ---------------------------------------------------------------- history

type gdEv struct {
	ID, Step   int
	DC         string
	N          int64
	Send, Recv int64 // stamps of one global counter
	Epoch      int   // number of global allocator leader changes before the request
	Physical   int64
	Logical    int64
	Bits       uint32
	Err        string
	Bound      int64 // window bound read after the response (0 = not read)
	BoundStamp int64
	Leader     string
}

func (e *gdEv) String() string {
	if e.Err != "" {
		return fmt.Sprintf("#%d step %d %s n=%d sent@%d FAILED %s", e.ID, e.Step, e.DC, e.N, e.Send, e.Err)
	}
	return fmt.Sprintf("#%d step %d %s n=%d (PD leader %s, epoch %d) sent@%d received@%d -> (physical %d, logical %d, %d suffix bits); stored window read@%d = %d ns = physical %+d ms",
		e.ID, e.Step, e.DC, e.N, e.Leader, e.Epoch, e.Send, e.Recv, e.Physical, e.Logical, e.Bits, e.BoundStamp, e.Bound, e.Bound/1e6-e.Physical)
}

func (e *gdEv) first() uint64 { return gdCompose(e.Physical, e.Logical-(e.N-1)<<e.Bits) }
func (e *gdEv) last() uint64  { return gdCompose(e.Physical, e.Logical) }

type gdStream struct {
	addr   string
	stream pdpb.PD_TsoClient
	cancel context.CancelFunc
}

type gdSession struct {
	x       *gdCluster
	clock   int64
	hmu     sync.Mutex
	hist    []*gdEv
	smu     sync.Mutex
	streams map[string]*gdStream
	epoch   int32
	lepoch  map[string]int
	// physical part of the latest granted global timestamp
	lastGlobal int64
}

// epochOf: number of leader changes of dc's allocator so far (global: PD leader changes).
func (s *gdSession) epochOf(dc string) int {
	if dc == tso.GlobalDCLocation {
		return int(atomic.LoadInt32(&s.epoch))
	}
	s.smu.Lock()
	defer s.smu.Unlock()
	return s.lepoch[dc]
}

func (s *gdSession) bump(dc string) {
	s.smu.Lock()
	s.lepoch[dc]++
	s.smu.Unlock()
}

func (s *gdSession) close() {
	s.smu.Lock()
	defer s.smu.Unlock()
	for _, st := range s.streams {
		st.stream.CloseSend()
		st.cancel()
	}
	s.streams = map[string]*gdStream{}
}

func (s *gdSession) getStream(slot int, dc string) (*gdStream, error) {
	addr := s.x.target(dc)
	if addr == "" {
		return nil, fmt.Errorf("no allocator leader known for %s", dc)
	}
	k := fmt.Sprintf("%d/%s", slot, dc)
	s.smu.Lock()
	st := s.streams[k]
	s.smu.Unlock()
	if st != nil && st.addr == addr {
		return st, nil
	}
	if st != nil {
		st.stream.CloseSend()
		st.cancel()
	}
	cc, err := s.x.conn(addr)
	if err != nil {
		return nil, err
	}
	ctx, cancel := context.WithCancel(context.Background())
	ts, err := pdpb.NewPDClient(cc).Tso(ctx)
	if err != nil {
		cancel()
		return nil, err
	}
	st = &gdStream{addr: addr, stream: ts, cancel: cancel}
	s.smu.Lock()
	s.streams[k] = st
	s.smu.Unlock()
	return st, nil
}

func (s *gdSession) do(step, slot int, dc string, n uint32, id int) *gdEv {
	ev := &gdEv{ID: id, Step: step, DC: dc, N: int64(n), Epoch: s.epochOf(dc), Leader: s.x.cluster.GetLeader()}
	defer func() {
		s.hmu.Lock()
		s.hist = append(s.hist, ev)
		s.hmu.Unlock()
	}()
	st, err := s.getStream(slot, dc)
	if err != nil {
		ev.Send = atomic.AddInt64(&s.clock, 1)
		ev.Err = err.Error()
		return ev
	}
	req := &pdpb.TsoRequest{Header: &pdpb.RequestHeader{ClusterId: s.x.cid}, Count: n, DcLocation: dc}
	type res struct {
		resp *pdpb.TsoResponse
		err  error
	}
	ch := make(chan res, 1)
	ev.Send = atomic.AddInt64(&s.clock, 1)
	go func() {
		if err := st.stream.Send(req); err != nil {
			ch <- res{nil, err}
			return
		}
		resp, err := st.stream.Recv()
		ch <- res{resp, err}
	}()
	var rr res
	select {
	case rr = <-ch:
	case <-time.After(15 * time.Second):
		rr = res{nil, fmt.Errorf("no response in 15s")}
	}
	ev.Recv = atomic.AddInt64(&s.clock, 1)
	if rr.err != nil || rr.resp.GetCount() != n {
		ev.Err = fmt.Sprint(rr.err)
		k := fmt.Sprintf("%d/%s", slot, dc)
		s.smu.Lock()
		if st := s.streams[k]; st != nil {
			st.cancel()
			delete(s.streams, k)
		}
		s.smu.Unlock()
		return ev
	}
	ts := rr.resp.GetTimestamp()
	ev.Physical, ev.Logical, ev.Bits = ts.GetPhysical(), ts.GetLogical(), ts.GetSuffixBits()
	if dc == tso.GlobalDCLocation {
		for {
			old := atomic.LoadInt64(&s.lastGlobal)
			if ev.Physical <= old || atomic.CompareAndSwapInt64(&s.lastGlobal, old, ev.Physical) {
				break
			}
		}
	}
	// (a): the stored bound, read after the grant
	if b, ok := s.x.window(dc); ok {
		ev.Bound, ev.BoundStamp = b, atomic.AddInt64(&s.clock, 1)
	}
	return ev
}

func runGlobalDC(c GDCase) (vkit.Info, error) {
	var info vkit.Info
	if c.Skip {
		info.Class("skipped-in-this-shard")
		return info, nil
	}
	if len(c.PDs) < 1 || len(c.PDs) > 3 {
		return info, nil
	}
	gdMu.Lock()
	for _, d := range c.PDs {
		if d < 0 || d >= len(c.Names) {
			return info, nil
		}
	}
	x := gdGetCluster(c.PDs, c.Names)
	gdMu.Unlock()
	if x == nil {
		info.Inconclusive = true
		return info, nil
	}
	dcs := gdDCs(c.PDs, c.Names)
	info.Class("names-" + strings.Join(dcs, ","))
	info.Class(fmt.Sprintf("topology-%dpd-%ddc", len(c.PDs), len(dcs)))
	ses := &gdSession{x: x, streams: map[string]*gdStream{}, lepoch: map[string]int{}}
	defer ses.close()
	defer x.setGap(0)

	var notes []string
	note := func(f string, a ...interface{}) {
		notes = append(notes, fmt.Sprintf("@%d ", atomic.LoadInt64(&ses.clock))+fmt.Sprintf(f, a...))
	}
	// (b): every raw read of a window key, in the order the reads were made (sequential points only)
	lastRead := map[string]int64{}
	readAll := func(when string) error {
		for _, dc := range append([]string{tso.GlobalDCLocation}, dcs...) {
			b, ok := x.window(dc)
			if !ok {
				continue
			}
			if os.Getenv("VERIF_GD_DEBUG") != "" && b != lastRead[dc] {
				note("window %s = %d (%s)", dc, b, when)
			}
			if b < lastRead[dc] {
				return fmt.Errorf("the stored window bound of the %s allocator decreased from %d to %d ns (read %s)\n  %s", dc, lastRead[dc], b, when, strings.Join(notes, "\n  "))
			}
			lastRead[dc] = b
		}
		return nil
	}
	id := 0
	episodesAbove, leaderChanges, localMoves := 0, 0, 0
	pendingAbove := false
	for si, st := range c.Steps {
		switch {
		case st.Jump != nil:
			moved := x.jump(dcs, st.Jump)
			note("step %d: jump %+v moved=%v", si, *st.Jump, moved)
			if moved && st.Jump.GapMs > 0 && st.Jump.AheadMs > st.Jump.GapMs {
				pendingAbove = true
				info.Class("episode-d-above-g")
			} else if moved {
				info.Class("episode-d-below-g")
			}
			if st.Jump.AheadMs == 0 && st.Jump.GapMs == 0 {
				pendingAbove = false
			}
		case st.ResetMs > 0:
			ok := x.resetTS(atomic.LoadInt64(&ses.lastGlobal), st.ResetMs)
			note("step %d: admin ResetTS now%+dms accepted=%v", si, st.ResetMs, ok)
			info.ClassIf(ok, "admin-reset-accepted")
			info.ClassIf(!ok, "admin-reset-refused")
		case st.Move > 0:
			dc := c.Names[(st.Move-1)%len(c.Names)]
			found := false
			for _, d := range dcs {
				found = found || d == dc
			}
			if !found {
				dc = dcs[(st.Move-1)%len(dcs)]
			}
			from, to, ok := x.handOver(dc)
			note("step %d: local allocator of %s handed over %s -> %s ok=%v", si, dc, from, to, ok)
			if !ok && !x.waitLeaders(c.PDs, 30*time.Second) {
				gdMu.Lock()
				x.destroy()
				gdCur = nil
				gdMu.Unlock()
				info.Inconclusive = true
				return info, nil
			}
			if ok {
				ses.bump(dc)
				localMoves++
			}
		case st.Resign:
			if len(c.PDs) < 2 {
				break
			}
			old := x.cluster.GetLeader()
			okr := gdWithin(30*time.Second, func() { x.cluster.ResignLeader() })
			if !okr || !x.waitLeaders(c.PDs, 60*time.Second) {
				gdMu.Lock()
				x.destroy()
				gdCur = nil
				gdMu.Unlock()
				info.Inconclusive = true
				return info, nil
			}
			now := x.cluster.GetLeader()
			note("step %d: PD leader resigned: %s -> %s", si, old, now)
			if now != old {
				atomic.AddInt32(&ses.epoch, 1)
				leaderChanges++
				info.ClassIf(pendingAbove, "leader-change-inside-episode")
			}
		default:
			var wg sync.WaitGroup
			for k, r := range st.Par {
				if k >= 3 {
					break
				}
				dc := tso.GlobalDCLocation
				if r.DC >= 0 {
					dc = dcs[r.DC%len(dcs)]
				} else if pendingAbove {
					episodesAbove++
					pendingAbove = false
				}
				n := r.N
				if n == 0 {
					n = 1
				}
				wg.Add(1)
				go func(k int, dc string, n uint32, id int) {
					defer wg.Done()
					ses.do(si, k, dc, n, id)
				}(k, dc, n, id)
				id++
			}
			wg.Wait()
		}
		if err := readAll(fmt.Sprintf("after step %d", si)); err != nil {
			return info, err
		}
	}

	if os.Getenv("VERIF_GD_DEBUG") != "" {
		fmt.Println("GD-DEBUG", c.PDs, c.Names, "\n  "+strings.Join(notes, "\n  "))
	}
	// ---------------------------------------------------------------- oracle over the history
	ses.hmu.Lock()
	hist := append([]*gdEv(nil), ses.hist...)
	ses.hmu.Unlock()
	sort.Slice(hist, func(i, j int) bool { return hist[i].ID < hist[j].ID })
	var okEv []*gdEv
	for _, e := range hist {
		if e.Err == "" {
			okEv = append(okEv, e)
		}
	}
	info.ClassIf(len(okEv) < len(hist), "some-requests-failed")
	if len(okEv) == 0 || len(okEv)*3 < len(hist) {
		info.Inconclusive = true
		return info, nil
	}
	ctxt := func(es ...*gdEv) string {
		var b strings.Builder
		for _, e := range es {
			b.WriteString("\n    " + e.String())
		}
		b.WriteString("\n  events:\n  " + strings.Join(notes, "\n  "))
		return b.String()
	}
	for _, e := range okEv {
		// (a)
		if e.Bound == 0 {
			return info, fmt.Errorf("a %s timestamp was granted but etcd holds no time window for that allocator: %s", e.DC, ctxt(e))
		}
		if e.Physical*int64(time.Millisecond) >= e.Bound {
			return info, fmt.Errorf("a granted %s timestamp is not below the stored time-window bound read AFTER the grant (the bound never decreases, so it was not covered when granted): physical %d ms >= stored %d ns: %s",
				e.DC, e.Physical, e.Bound, ctxt(e))
		}
	}
	// (b) also over the per-grant reads, per allocator in stamp order
	per := map[string][]*gdEv{}
	for _, e := range okEv {
		per[e.DC] = append(per[e.DC], e)
	}
	for dc, es := range per {
		sort.Slice(es, func(i, j int) bool { return es[i].BoundStamp < es[j].BoundStamp })
		for i := 1; i < len(es); i++ {
			// a read is somewhere between the previous stamp and its own stamp; only order reads whose grant came
			// after the other read was finished
			if es[i-1].BoundStamp < es[i].Recv && es[i].Bound < es[i-1].Bound {
				return info, fmt.Errorf("the stored window bound of the %s allocator decreased between two reads: %s", dc, ctxt(es[i-1], es[i]))
			}
		}
	}
	// (c): per allocator, across a change of its leader
	both := false
	for dc, es := range per {
		for _, g2 := range es {
			for _, g1 := range es {
				if g1.Epoch < g2.Epoch && g1.Recv < g2.Send {
					both = both || dc == tso.GlobalDCLocation
					if g2.first() <= g1.last() {
						return info, fmt.Errorf("a %s timestamp granted after the %s allocator moved to another member (%d) is not above a %s timestamp granted before (%d): %s", dc, dc, g2.first(), dc, g1.last(), ctxt(g1, g2))
					}
				}
			}
		}
	}
	info.ClassIf(localMoves > 0, "local-allocator-moved")
	info.ClassIf(episodesAbove > 0, "global-attempt-inside-episode-d-above-g")
	info.ClassIf(leaderChanges > 0, "global-allocator-moved")
	info.ClassIf(both, "grants-on-both-sides-of-a-move")
	info.NonTrivial = episodesAbove > 0 || both
	info.Sample = map[string]interface{}{"pds": c.PDs, "steps": len(c.Steps), "requests": len(hist), "granted": len(okEv),
		"episodes_d_above_g": episodesAbove, "leader_changes": leaderChanges}
	return info, nil
}
