// C16 — followers converge to the leader's region view through region sync.
//
// Two generated properties:
//
//	buffer  model-based test of the change log (history ring buffer) against a
//	        deque + next-index model: record / recordsFrom / reset / restart.
//	sync    end-to-end: a leader RegionSyncer behind an in-process gRPC server and a
//	        follower RegionSyncer, both on fake syncer.Server implementations; full,
//	        history catch-up and incremental synchronisation; the follower's region
//	        view is compared with the leader's for every region sent.
package c16

import (
	"fmt"
	"strconv"
	"testing"

	"github.com/pingcap/kvproto/pkg/metapb"
	"github.com/tikv/pd/server/core"
	"github.com/tikv/pd/server/kv"
	syncer "github.com/tikv/pd/server/region_syncer"
	"pdverif/vkit"
	"pgregory.net/rapid"
)

const (
	keyFullSyncLeaders = "C16/fullsync-leaders-not-reset"
	keyResetPersist    = "C16/reset-not-persisted"
	keyReloadLeaders   = "C16/restart-sync-reload-drops-leaders"
	keyOverMsgSize     = "C16/response-over-msgsize-never-delivered"
	keyIndex0          = "C16/fresh-follower-of-index0-leader-gets-nothing"

	flushInterval = 100 // the statement's "flush interval of 100 records"
)

func TestMain(m *testing.M) { quietLogs(); vkit.Main(m, "C16") }
func TestProp(t *testing.T) {
	vkit.RunAll(t)
	cleanups.Wait()
	encCleanup()
}
func TestReplay(t *testing.T) {
	vkit.RunReplay(t)
	cleanups.Wait()
	encCleanup()
}

func init() {
	vkit.Register("buffer", vkit.N{Quick: 20000, Thorough: 1000000}, genBuffer, runBuffer)
	vkit.Register("sync", vkit.N{Quick: 160, Thorough: 6000}, genSync, runSync)
	vkit.Register("roundtrip", vkit.N{Quick: 16, Thorough: 400}, genRoundTrip, runRoundTrip)
}

// ---------------------------------------------------------------- (a) buffer: case data

// BOp is one operation on the change log.
//
//	rec     N records are appended
//	from    RecordsFrom(index); the index is given relative to the model's window (At) so that
//	        edges are hit: first-1, first, first+1, mid (first + V mod len), next-1, next, next+1,
//	        zero, max (2^64-1), abs (V)
//	reset   ResetWithIndex(index); At: abs (V), next+ (next+V), next- (next-V, floored at 0), first
//	restart a new buffer is created on the same kv
//	readfill RecordsFrom(index) (At: first or mid) immediately followed by N records, N >= the
//	        constructor size: the ring wraps over the slots the returned records came from
//
// Every non-empty RecordsFrom result is held (with a copy of what it contained when it was
// returned) and re-checked after every later op and at the end: a returned result is the
// caller's, it must not change when the log moves on.
type BOp struct {
	K  string `json:"k"`
	N  int    `json:"n,omitempty"`
	At string `json:"at,omitempty"`
	V  uint64 `json:"v,omitempty"`
}

// BCase is a history on one change log.
type BCase struct {
	Size  int    `json:"size"`            // constructor argument
	Start uint64 `json:"start,omitempty"` // index stored on the kv before the first buffer is created (0 = nothing stored)
	Ops   []BOp  `json:"ops"`
}

func genBuffer(t *rapid.T) BCase {
	var c BCase
	if rapid.IntRange(0, 2).Draw(t, "big") == 0 {
		c.Size = rapid.IntRange(100, 250).Draw(t, "size")
	} else {
		c.Size = rapid.IntRange(0, 5).Draw(t, "size")
	}
	c.Start = rapid.SampledFrom([]uint64{0, 0, 0, 1, 99, 100, 101, 12345}).Draw(t, "start")
	n := rapid.IntRange(3, 40).Draw(t, "nops")
	for i := 0; i < n; i++ {
		var op BOp
		op.K = rapid.SampledFrom([]string{"rec", "rec", "rec", "rec", "from", "from", "from", "from", "reset", "restart", "readfill", "readfill"}).Draw(t, "kind")
		switch op.K {
		case "rec":
			switch rapid.IntRange(0, 9).Draw(t, "recKind") {
			case 0, 1, 2, 3, 4:
				op.N = 1
			case 5, 6:
				op.N = rapid.IntRange(2, 7).Draw(t, "n")
			case 7:
				op.N = rapid.SampledFrom([]int{99, 100, 101}).Draw(t, "n")
			case 8:
				// around the capacity: exact fill, one short, one over
				op.N = c.Size + rapid.IntRange(-1, 1).Draw(t, "d")
				if op.N < 1 {
					op.N = 1
				}
			default:
				op.N = rapid.IntRange(8, 300).Draw(t, "n")
			}
		case "from":
			op.At = rapid.SampledFrom([]string{"first-1", "first", "first+1", "mid", "mid", "next-1", "next", "next+1", "zero", "max", "abs"}).Draw(t, "at")
			if op.At == "mid" || op.At == "abs" {
				op.V = uint64(rapid.IntRange(0, 400).Draw(t, "v"))
			}
		case "readfill":
			op.At = rapid.SampledFrom([]string{"first", "mid", "mid"}).Draw(t, "at")
			op.V = uint64(rapid.IntRange(0, 400).Draw(t, "v"))
			op.N = c.Size + rapid.IntRange(0, 3).Draw(t, "over")
			if op.N < 1 {
				op.N = 1
			}
		case "reset":
			op.At = rapid.SampledFrom([]string{"abs", "next+", "next-", "first"}).Draw(t, "at")
			op.V = rapid.SampledFrom([]uint64{0, 1, 2, 50, 99, 100, 101, 1000, 1 << 40}).Draw(t, "v")
		}
		c.Ops = append(c.Ops, op)
	}
	return c
}

// ---------------------------------------------------------------- (a) buffer: model + runner

// bmodel is the reference: the last `capacity` records since the last reset/restart and the next index.
type bmodel struct {
	capacity int
	next     uint64
	win      []*core.RegionInfo
}

func (m *bmodel) first() uint64 { return m.next - uint64(len(m.win)) }

func (m *bmodel) record(r *core.RegionInfo) (dropped bool) {
	m.win = append(m.win, r)
	if len(m.win) > m.capacity {
		m.win = m.win[1:]
		dropped = true
	}
	m.next++
	return
}

func (m *bmodel) from(i uint64) []*core.RegionInfo {
	if i >= m.first() && i < m.next {
		return m.win[i-m.first():]
	}
	return nil
}

func rid(r *core.RegionInfo) interface{} {
	if r == nil {
		return nil
	}
	return r.GetID()
}

func rids(rs []*core.RegionInfo) []interface{} {
	out := make([]interface{}, 0, len(rs))
	for i, r := range rs {
		if i >= 12 {
			out = append(out, fmt.Sprintf("...(%d)", len(rs)))
			break
		}
		out = append(out, rid(r))
	}
	return out
}

func runBuffer(c BCase) (vkit.Info, error) {
	var info vkit.Info
	store := kv.NewMemoryKV()
	if c.Start != 0 {
		if err := store.Save("historyIndex", strconv.FormatUint(c.Start, 10)); err != nil {
			info.Inconclusive = true
			return info, nil
		}
	}
	h := syncer.VerifNewHistoryBuffer(c.Size, store)
	// The constructor keeps at least one record ("size < 2 => 2" with one empty slot).
	capacity := c.Size
	if capacity < 1 {
		capacity = 1
	}
	m := &bmodel{capacity: capacity, next: c.Start}
	if got := h.GetNextIndex(); got != m.next {
		return info, fmt.Errorf("new buffer on a store holding index %d starts at next index %d", c.Start, got)
	}
	nextID := uint64(1)
	wrapped, exact, inWin, outWin, restarts, resets := false, false, 0, 0, 0, 0
	// records since the last reset; -1 = no reset since the buffer was created
	sinceReset := -1
	// results of earlier RecordsFrom calls, with what they contained when they were returned
	type heldResult struct {
		op   int
		idx  uint64
		got  []*core.RegionInfo
		snap []*core.RegionInfo
	}
	var held []heldResult
	heldOverwritten := false
	checkHeld := func(when string) error {
		for _, hr := range held {
			if len(hr.got) != len(hr.snap) {
				return fmt.Errorf("%s: the result of RecordsFrom(%d) returned at op %d changed length %d -> %d", when, hr.idx, hr.op, len(hr.snap), len(hr.got))
			}
			for k := range hr.snap {
				if hr.got[k] != hr.snap[k] {
					return fmt.Errorf("%s: the result of RecordsFrom(%d) returned at op %d was records %v; the caller's slice now shows %v (entry %d is record %v, was %v): the log handed out its live ring (capacity %d)",
						when, hr.idx, hr.op, rids(hr.snap), rids(hr.got), k, rid(hr.got[k]), rid(hr.snap[k]), m.capacity)
				}
			}
		}
		return nil
	}
	type step struct {
		BOp
		src int
	}
	var steps []step
	for i, op := range c.Ops {
		if op.K == "readfill" {
			steps = append(steps, step{BOp{K: "from", At: op.At, V: op.V}, i}, step{BOp{K: "rec", N: op.N}, i})
		} else {
			steps = append(steps, step{op, i})
		}
	}
	for _, stp := range steps {
		i, op := stp.src, stp.BOp
		switch op.K {
		case "rec":
			for k := 0; k < op.N; k++ {
				r := core.NewRegionInfo(&metapb.Region{Id: nextID}, nil)
				nextID++
				h.Record(r)
				if m.record(r) {
					wrapped = true
				}
				if len(m.win) == m.capacity && !wrapped {
					exact = true
				}
				if sinceReset >= 0 {
					sinceReset++
				}
			}
		case "from":
			var idx uint64
			switch op.At {
			case "first-1":
				idx = m.first() - 1 // wraps to 2^64-1 when first is 0: outside as well
			case "first":
				idx = m.first()
			case "first+1":
				idx = m.first() + 1
			case "mid":
				idx = m.first()
				if len(m.win) > 0 {
					idx += op.V % uint64(len(m.win))
				}
			case "next-1":
				idx = m.next - 1
			case "next":
				idx = m.next
			case "next+1":
				idx = m.next + 1
			case "zero":
				idx = 0
			case "max":
				idx = ^uint64(0)
			default:
				idx = op.V
			}
			want := m.from(idx)
			got := h.RecordsFrom(idx)
			if want == nil {
				outWin++
				if len(got) != 0 {
					return info, fmt.Errorf("op %d: RecordsFrom(%d) returned %d records %v for an index outside the window [%d,%d) (capacity %d); want nothing",
						i, idx, len(got), rids(got), m.first(), m.next, m.capacity)
				}
			} else {
				inWin++
				if len(got) != len(want) {
					return info, fmt.Errorf("op %d: RecordsFrom(%d) returned %d records %v, window [%d,%d) (capacity %d) holds %d from there: %v",
						i, idx, len(got), rids(got), m.first(), m.next, m.capacity, len(want), rids(want))
				}
				held = append(held, heldResult{op: i, idx: idx, got: got, snap: append([]*core.RegionInfo(nil), want...)})
				if len(held) > 12 {
					held = held[1:]
				}
				for k := range want {
					if got[k] != want[k] {
						return info, fmt.Errorf("op %d: RecordsFrom(%d)[%d] is record %v, want record %v (window [%d,%d), capacity %d)",
							i, idx, k, rid(got[k]), rid(want[k]), m.first(), m.next, m.capacity)
					}
				}
			}
		case "reset":
			var idx uint64
			switch op.At {
			case "next+":
				idx = m.next + op.V
			case "next-":
				if op.V < m.next {
					idx = m.next - op.V
				}
			case "first":
				idx = m.first()
			default:
				idx = op.V
			}
			h.ResetWithIndex(idx)
			m.next, m.win = idx, nil
			sinceReset = 0
			resets++
		case "restart":
			if sinceReset >= 0 && sinceReset < flushInterval && vkit.Known(keyResetPersist) {
				// known finding: a reset is not persisted, so a restart within the next 100
				// records resumes from whatever was stored before the reset. Trigger class excluded.
				info.Exclude(keyResetPersist)
				continue
			}
			old := m.next
			h = syncer.VerifNewHistoryBuffer(c.Size, store)
			got := h.GetNextIndex()
			lo := uint64(0)
			if old > flushInterval {
				lo = old - flushInterval
			}
			if got > old || got < lo {
				return info, fmt.Errorf("op %d: restart: next index was %d, the new buffer on the same store starts at %d; want %d <= next <= %d",
					i, old, got, lo, old)
			}
			m.next, m.win = got, nil
			sinceReset = -1
			restarts++
		}
		if got := h.GetNextIndex(); got != m.next {
			return info, fmt.Errorf("op %d (%s): next index %d, model %d", i, op.K, got, m.next)
		}
		if err := checkHeld(fmt.Sprintf("after op %d (%s)", i, op.K)); err != nil {
			return info, err
		}
		if op.K == "rec" && !heldOverwritten {
			// a held result whose first record has left the window: its ring slots have been reused
			for _, hr := range held {
				if hr.idx < m.first() || hr.idx >= m.next {
					heldOverwritten = true
				}
			}
		}
	}
	if err := checkHeld("at the end"); err != nil {
		return info, err
	}
	// final sweep over the whole window and both edges
	for idx := m.first(); idx != m.next; idx++ {
		got, want := h.RecordsFrom(idx), m.from(idx)
		if len(got) != len(want) || (len(got) > 0 && (got[0] != want[0] || got[len(got)-1] != want[len(want)-1])) {
			return info, fmt.Errorf("final sweep: RecordsFrom(%d) = %v, window [%d,%d) holds %v", idx, rids(got), m.first(), m.next, rids(want))
		}
	}
	for _, idx := range []uint64{m.first() - 1, m.next} {
		if m.from(idx) == nil {
			if got := h.RecordsFrom(idx); len(got) != 0 {
				return info, fmt.Errorf("final sweep: RecordsFrom(%d) = %v for an index outside the window [%d,%d)", idx, rids(got), m.first(), m.next)
			}
		}
	}
	info.ClassIf(wrapped, "wrap-around")
	info.ClassIf(exact, "exact-fill")
	info.ClassIf(restarts > 0, "restart")
	info.ClassIf(resets > 0, "reset")
	info.ClassIf(c.Size == 0, "size0")
	info.ClassIf(c.Size >= 100, "size>=100")
	info.ClassIf(c.Start != 0, "preloaded-index")
	info.ClassIf(inWin > 0, "read-in-window")
	info.ClassIf(outWin > 0, "read-outside")
	info.ClassIf(heldOverwritten, "held-result-outlived-window")
	info.NonTrivial = wrapped && inWin > 0 && outWin > 0
	return info, nil
}

// ---------------------------------------------------------------- finding probes

// TestFinding_reset_not_persisted: buffer on an empty store, ResetWithIndex(1000), restart.
func TestFinding_reset_not_persisted(t *testing.T) {
	store := kv.NewMemoryKV()
	h := syncer.VerifNewHistoryBuffer(10, store)
	h.ResetWithIndex(1000)
	before := h.GetNextIndex()
	h2 := syncer.VerifNewHistoryBuffer(10, store)
	after := h2.GetNextIndex()
	reproduced := before == 1000 && (after > before || after+flushInterval < before)
	vkit.Finding(t, keyResetPersist, reproduced,
		fmt.Sprintf("ResetWithIndex(1000) then a new buffer on the same store: next index %d -> %d (allowed: back by at most %d)", before, after, flushInterval))
}

// TestFinding_fullsync_leaders_not_reset: restarted leader with 250 regions that all have
// leaders, fresh follower: full sync in 3 batches.
func TestFinding_fullsync_leaders_not_reset(t *testing.T) {
	defer cleanups.Wait() // fixtures are torn down in the background
	c := SCase{HistIdx: 1000, RegionStorage: true}
	for i := 0; i < 250; i++ {
		c.Regions = append(c.Regions, Reg{Store: uint64(i%6) + 1, NPeers: 3, Leader: i % 3,
			Flow: [4]uint64{uint64(i) + 1, uint64(i) + 2, uint64(i) + 3, uint64(i) + 4}})
	}
	res := execSync(c, false)
	if res.inconclusive != "" {
		t.Logf("probe inconclusive: %s", res.inconclusive)
		return // no report: the driver counts the probe as inconclusive
	}
	wrong := 0
	for _, d := range res.diffs {
		if d.field == "leader" {
			wrong++
		}
	}
	vkit.Finding(t, keyFullSyncLeaders, wrong > 0,
		fmt.Sprintf("full sync of %d regions in %d batches: %d regions have another leader on the follower than on the leader (first: %s)",
			len(c.Regions), res.fullBatches, wrong, res.firstDiff("leader")))
}

// TestFinding_restart_sync_reload_drops_leaders: follower without region storage
// (use-region-storage=false), synchronised, then StopSyncWithLeader/StartSyncWithLeader
// (what a follower does whenever the PD leader changes).
func TestFinding_restart_sync_reload_drops_leaders(t *testing.T) {
	defer cleanups.Wait() // fixtures are torn down in the background
	c := SCase{HistIdx: 1000, RegionStorage: false, Reconnect: true}
	for i := 0; i < 5; i++ {
		c.Regions = append(c.Regions, Reg{Store: uint64(i%6) + 1, NPeers: 3, Leader: i % 3,
			Flow: [4]uint64{uint64(i) + 1, uint64(i) + 2, uint64(i) + 3, uint64(i) + 4}})
	}
	c.Post = []Change{{Kind: "flow", Pick: 0, Body: Reg{Leader: 1, Flow: [4]uint64{9, 9, 9, 9}}}}
	res := execSync(c, false)
	if res.inconclusive != "" {
		t.Logf("probe inconclusive: %s", res.inconclusive)
		return
	}
	wrong := 0
	for _, d := range res.diffs {
		if d.field == "leader" || d.field == "flow" {
			wrong++
		}
	}
	vkit.Finding(t, keyReloadLeaders, wrong > 0,
		fmt.Sprintf("5 regions synchronised, then stop/start sync on a follower that keeps regions in its default storage: %d leader/flow differences (first: %s)",
			wrong, res.firstDiff("")))
}

// TestFinding_broadcast_unbinds_reconnected_stream: a follower's stream fails during a
// broadcast while the same follower (same member name) binds a new stream; the leader then
// removes "the failed stream" by name and so unbinds the new one. Driven with in-memory
// streams (no network) so that the interleaving is exact.
func TestFinding_broadcast_unbinds_reconnected_stream(t *testing.T) {
	defer cleanups.Wait() // fixtures are torn down in the background
	reproduced, detail, ok := probeUnbind()
	if !ok {
		t.Logf("probe inconclusive: %s", detail)
		return
	}
	vkit.Finding(t, keyUnbind, reproduced, detail)
}

// TestFinding_response_over_msgsize_never_delivered: fresh leader, 2800 changes of regions with
// 2000-byte keys recorded before the follower connects: the catch-up from index 0 is ONE response
// of about 9.6 MB, above the follower's receive limit msgSize (8 MiB).
func TestFinding_response_over_msgsize_never_delivered(t *testing.T) {
	defer cleanups.Wait() // fixtures are torn down in the background
	c := SCase{RegionStorage: true, KeyPad: 2000, Bulk: 2800, BulkWhere: "pre"}
	for i := 0; i < 6; i++ {
		c.Regions = append(c.Regions, Reg{Store: uint64(i%6) + 1, NPeers: 3, Leader: i % 3, Flow: [4]uint64{1, 2, 3, 4}})
	}
	c.BulkBodies = []Reg{{Leader: 1, Flow: [4]uint64{5, 6, 7, 8}}}
	res := execSync(c, false)
	if res.inconclusive != "" {
		t.Logf("probe inconclusive: %s", res.inconclusive)
		return
	}
	vkit.Finding(t, keyOverMsgSize, res.rejected != "" && res.maxBytes > msgSize,
		fmt.Sprintf("follower 2800 records behind, regions with 2000-byte keys: one catch-up response of %d bytes; %s", res.maxBytes, res.firstDiff("stream")))
}

// TestFinding_fresh_follower_of_index0_leader_gets_nothing: a leader that holds 5 regions and whose
// change log starts at index 0 with an empty window (restarted before the first flush of its index),
// a fresh follower (empty cache, index 0) connects (a) right away, (b) after 3 new records.
func TestFinding_fresh_follower_of_index0_leader_gets_nothing(t *testing.T) {
	defer cleanups.Wait() // fixtures are torn down in the background
	detail, missing := "", 0
	for _, pre := range []int{0, 3} {
		c := SCase{HistIdx: 0, RegionStorage: true}
		for i := 0; i < 5; i++ {
			c.Regions = append(c.Regions, Reg{Store: uint64(i%6) + 1, NPeers: 3, Leader: i % 3, Flow: [4]uint64{1, 2, 3, 4}})
		}
		for i := 0; i < pre; i++ {
			c.Pre = append(c.Pre, Change{Kind: "flow", Pick: 0, Body: Reg{Leader: i, Flow: [4]uint64{uint64(i) + 9, 2, 3, 4}}})
		}
		res := execSync(c, false)
		if res.inconclusive != "" {
			t.Logf("probe inconclusive: %s", res.inconclusive)
			return
		}
		missing += res.neverSent
		detail += fmt.Sprintf("leader with 5 loaded regions, change log at index 0 + %d new records, fresh follower: %d regions sent, %d of 5 never reach the follower; ", pre, res.sent, res.neverSent)
	}
	vkit.Finding(t, keyIndex0, missing > 0, detail)
}
