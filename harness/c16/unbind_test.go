package c16

import (
	"errors"
	"fmt"
	"io"
	"sync"
	"time"

	"github.com/pingcap/kvproto/pkg/pdpb"
	"google.golang.org/grpc"
)

const keyUnbind = "C16/broadcast-unbinds-reconnected-stream"

// memStream is an in-memory server side of a sync stream.
type memStream struct {
	grpc.ServerStream
	mu      sync.Mutex
	req     *pdpb.SyncRegionRequest
	recvs   int
	entered int           // Send calls entered
	got     int           // regions received by successful Sends
	gate    chan struct{} // non-nil: Send blocks until it is closed and then fails
	closed  chan struct{} // Recv returns EOF once closed
}

func (m *memStream) Recv() (*pdpb.SyncRegionRequest, error) {
	m.mu.Lock()
	m.recvs++
	first := m.recvs == 1
	m.mu.Unlock()
	if first {
		return m.req, nil
	}
	<-m.closed
	return nil, io.EOF
}

func (m *memStream) Send(r *pdpb.SyncRegionResponse) error {
	m.mu.Lock()
	m.entered++
	gate := m.gate
	m.mu.Unlock()
	if gate != nil {
		<-gate
		return errors.New("transport is closing")
	}
	m.mu.Lock()
	m.got += len(r.GetRegions())
	m.mu.Unlock()
	return nil
}

func (m *memStream) snapshot() (recvs, entered, got int) {
	m.mu.Lock()
	defer m.mu.Unlock()
	return m.recvs, m.entered, m.got
}

func probeUnbind() (reproduced bool, detail string, ok bool) {
	fx, err := newFixture(7, true) // index 7: a request from the same index is "in sync" (nothing to send)
	if err != nil {
		return false, "fixture: " + err.Error(), false
	}
	defer fx.close()
	st := newState(fx.leaderSrv.bc, []Reg{{Store: 1, NPeers: 3, Leader: 0}, {Store: 2, NPeers: 3, Leader: 1}}, 0)
	req := func() *pdpb.SyncRegionRequest {
		return &pdpb.SyncRegionRequest{Header: &pdpb.RequestHeader{ClusterId: fx.leaderSrv.ClusterID()},
			Member: fx.followerSrv.member, StartIndex: fx.leader.VerifNextIndex()}
	}
	change := func(i int) {
		for _, r := range st.apply(Change{Kind: "flow", Pick: i, Body: Reg{Leader: i, Flow: [4]uint64{uint64(i), 1, 2, 3}}}) {
			fx.notifier <- r
		}
	}
	closed := make(chan struct{})
	defer close(closed)
	// 1. the follower's first stream: in sync (nothing to send), bound
	a := &memStream{req: req(), gate: make(chan struct{}), closed: closed}
	go fx.leader.Sync(a)
	if !waitFor(func() bool { r, _, _ := a.snapshot(); return r == 2 }) {
		return false, "stream A was not bound", false
	}
	// 2. a region changes: the broadcast is inside A.Send (the connection is dying)
	change(0)
	if !waitFor(func() bool { _, e, _ := a.snapshot(); return e == 1 }) {
		return false, "no broadcast reached stream A", false
	}
	// 3. the follower reconnects under the same name; its stream waits to be bound
	b := &memStream{req: req(), closed: closed}
	go fx.leader.Sync(b)
	if !waitFor(func() bool { r, _, _ := b.snapshot(); return r == 1 }) {
		return false, "stream B did not start", false
	}
	time.Sleep(100 * time.Millisecond) // let Sync(B) reach bindStream (blocked behind the broadcast's read lock)
	// 4. the send on A fails
	close(a.gate)
	if !waitFor(func() bool { r, _, _ := b.snapshot(); return r == 2 }) {
		return false, "stream B was not bound", false
	}
	// 5. another region changes: B is the follower's live, bound stream and must receive it
	change(1)
	want := fx.leader.VerifNextIndex() // not yet advanced necessarily; wait for the record first
	_ = want
	if !waitFor(func() bool { return len(fx.notifier) == 0 && fx.leader.VerifNextIndex() >= 9 }) {
		return false, "the leader did not record the second change", false
	}
	deadline := time.Now().Add(1500 * time.Millisecond)
	for time.Now().Before(deadline) {
		if _, _, got := b.snapshot(); got > 0 {
			return false, "the reconnected stream received the next broadcast", true
		}
		time.Sleep(2 * time.Millisecond)
	}
	_, e, got := b.snapshot()
	return true, fmt.Sprintf("stream A fails during a broadcast while stream B of the same member is being bound; the leader then deletes the stream registered under that name, i.e. B: the next changed region was recorded (leader index %d) but B saw %d sends / %d regions within 1.5 s",
		fx.leader.VerifNextIndex(), e, got), true
}
