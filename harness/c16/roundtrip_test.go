package c16

import (
	"bytes"
	"context"
	"fmt"
	"net"
	"sort"
	"strconv"
	"sync/atomic"
	"time"

	"github.com/pingcap/kvproto/pkg/metapb"
	"github.com/pingcap/kvproto/pkg/pdpb"
	"github.com/tikv/pd/pkg/mock/mockid"
	"github.com/tikv/pd/server/cluster"
	"github.com/tikv/pd/server/config"
	"github.com/tikv/pd/server/core"
	"github.com/tikv/pd/server/id"
	"github.com/tikv/pd/server/kv"
	syncer "github.com/tikv/pd/server/region_syncer"
	"github.com/tikv/pd/server/schedule/hbstream"
	"github.com/tikv/pd/server/versioninfo"
	"google.golang.org/grpc"
	"pdverif/vkit"
	"pgregory.net/rapid"
)

// Property "roundtrip": a leadership round trip of the leader-side member.
//
// Member X owns a real cluster.RaftCluster (started and stopped with RaftCluster.Start/Stop for
// every leadership term, as server.createRaftCluster/stopRaftCluster do) and the RegionSyncer of
// that cluster; region changes reach X as heartbeats (processRegionHeartbeat, hook
// VerifProcessRegionHeartbeat), which puts them into X's cache and hands them to the syncer loop.
// Member Z is a second leader-side syncer, member F the observed follower.
//
//	term 1  X leads: regions are reported, F follows X and converges.
//	        X steps down (Stop); heartbeats that were still in flight are processed after the
//	        syncer loop of the term has gone (leader transfer + new flow, same epoch).
//	term 2  Z leads (it was in sync with X: same regions, same change-log index). X and F follow
//	        Z; Z learns a newer same-epoch state of every region that had an in-flight heartbeat
//	        (and more changes).
//	term 3  X leads again (Start); F follows X; more heartbeats.
//
// Oracle: for every region sent to F on any stream, F's cache holds the range, peers, leader and
// flow that the current leader's (X's) cache holds.

// RTCase is the case data.
type RTCase struct {
	Regions       []Reg    `json:"regions"`  // reported to X in term 1 (all with a leader, >= 2 voters)
	Term1         []Change `json:"term1"`    // more heartbeats in term 1
	InFlight      []Change `json:"inflight"` // heartbeats processed after X's term ended (flow changes: leader moves)
	Newer         []Reg    `json:"newer"`    // bodies of the newer states Z learns for the in-flight regions
	Term2         []Change `json:"term2"`    // further changes on Z
	Term3         []Change `json:"term3"`    // heartbeats in X's second term
	RegionStorage bool     `json:"region_storage"`
	EncX          int      `json:"enc_x,omitempty"` // encryption at rest of X's storage (0 off, 1..3)
	EncF          int      `json:"enc_f,omitempty"` // ... of the follower's
}

func genRTReg(t *rapid.T) Reg {
	r := genReg(t, 1)
	if r.NPeers < 2 {
		r.NPeers = 2
	}
	r.Learner = 0
	if r.Leader >= r.NPeers || r.Leader < 0 {
		r.Leader = 0
	}
	return r
}

func genRTChanges(t *rapid.T, label string, lens []int, kinds []string) []Change {
	n := rapid.SampledFrom(lens).Draw(t, label)
	var out []Change
	for i := 0; i < n; i++ {
		out = append(out, Change{Kind: rapid.SampledFrom(kinds).Draw(t, "kind"), Pick: rapid.IntRange(0, 9999).Draw(t, "pick"), Body: genRTReg(t)})
	}
	return out
}

func genRoundTrip(t *rapid.T) RTCase {
	var c RTCase
	n := rapid.SampledFrom([]int{1, 2, 3, 5, 8, 30}).Draw(t, "n")
	for i := 0; i < n; i++ {
		c.Regions = append(c.Regions, genRTReg(t))
	}
	all := []string{"flow", "flow", "flow", "conf", "split", "merge"}
	c.Term1 = genRTChanges(t, "nterm1", []int{0, 1, 3}, all)
	c.InFlight = genRTChanges(t, "ninflight", []int{1, 1, 2, 3, 6}, []string{"flow"})
	for range c.InFlight {
		c.Newer = append(c.Newer, genRTReg(t))
	}
	c.Term2 = genRTChanges(t, "nterm2", []int{0, 0, 1, 3}, all)
	c.Term3 = genRTChanges(t, "nterm3", []int{0, 1, 2, 4}, all)
	c.RegionStorage = rapid.Bool().Draw(t, "regionStorage")
	if rapid.IntRange(0, 2).Draw(t, "encrypted") == 0 {
		c.EncX = rapid.IntRange(0, 3).Draw(t, "encX")
		c.EncF = rapid.IntRange(0, 3).Draw(t, "encF")
	}
	return c
}

// xServer is member X as cluster.Server.
type xServer struct {
	*fakeSrv
	cfg   *config.Config
	opt   *config.PersistOptions
	alloc id.Allocator
	hb    *hbstream.HeartbeatStreams
	rc    *cluster.RaftCluster
}

func (x *xServer) GetAllocator() id.Allocator                                      { return x.alloc }
func (x *xServer) GetConfig() *config.Config                                       { return x.cfg }
func (x *xServer) GetPersistOptions() *config.PersistOptions                       { return x.opt }
func (x *xServer) GetHBStreams() *hbstream.HeartbeatStreams                        { return x.hb }
func (x *xServer) GetRaftCluster() *cluster.RaftCluster                            { return x.rc }
func (x *xServer) ReplicateFileToAllMembers(context.Context, string, []byte) error { return nil }

// zMember is the other leader-side member.
type zMember struct {
	srv      *fakeSrv
	syncer   *syncer.RegionSyncer
	notifier chan *core.RegionInfo
	addr     string
}

type rtResult struct {
	inconclusive string
	diffs        []diff
	sent         int
	compared     int
	inflight     int // distinct regions with an in-flight heartbeat
	stillSame    int // of those, regions whose epoch did not change afterwards (a stale record would be accepted)
}

func execRoundTrip(c RTCase) (res rtResult) {
	fx, err := newFixtureOpt(0, c.RegionStorage, true, c.EncX, c.EncF)
	if err != nil {
		res.inconclusive = "fixture: " + err.Error()
		return
	}
	defer fx.close()
	ctx := fx.leaderSrv.ctx
	xs := fx.leaderSrv
	// ---- member X: a bootstrapped cluster with stores 1..6
	cfg := config.NewConfig()
	if err = cfg.Adjust(nil, false); err != nil {
		res.inconclusive = "config: " + err.Error()
		return
	}
	opt := config.NewPersistOptions(cfg)
	opt.SetClusterVersion(versioninfo.MinSupportedVersion(versioninfo.Version2_0))
	if err = xs.storage.SaveMeta(&metapb.Cluster{Id: xs.ClusterID(), MaxPeerCount: 3}); err != nil {
		res.inconclusive = "bootstrap: " + err.Error()
		return
	}
	for i := uint64(1); i <= 6; i++ {
		st := &metapb.Store{Id: i, Address: fmt.Sprintf("127.0.0.1:%d", 20160+i), State: metapb.StoreState_Up, Version: "4.0.0"}
		if err = xs.storage.SaveStore(st); err != nil {
			res.inconclusive = "bootstrap: " + err.Error()
			return
		}
	}
	rc := cluster.NewRaftCluster(ctx, "/pd/c16", xs.ClusterID(), fx.leader, nil, nil)
	x := &xServer{fakeSrv: xs, cfg: cfg, opt: opt, alloc: mockid.NewIDAllocator(), rc: rc}
	x.hb = hbstream.NewTestHeartbeatStreams(ctx, xs.ClusterID(), rc, false)
	leading, following := false, false
	fx.extraClose = append(fx.extraClose, func() {
		if following {
			fx.leader.StopSyncWithLeader()
		}
		if leading {
			rc.Stop()
		}
	})
	startTerm := func() bool {
		if err := rc.Start(x); err != nil || !rc.IsRunning() {
			res.inconclusive = fmt.Sprintf("RaftCluster.Start: running=%v err=%v", rc.IsRunning(), err)
			return false
		}
		leading = true
		return true
	}
	st := newState(xs.bc, nil, 0)
	st.move = true
	hbErr := ""
	st.sink = func(r *core.RegionInfo) {
		if err := rc.VerifProcessRegionHeartbeat(r); err != nil && hbErr == "" {
			hbErr = fmt.Sprintf("heartbeat of region %d rejected: %v", r.GetID(), err)
		}
	}
	body := func(b Reg) Reg {
		if b.NPeers < 2 {
			b.NPeers = 2
		}
		b.Learner = 0
		return forceLeader(b)
	}
	// report performs changes on the current leader and returns how many regions were reported
	report := func(chs []Change) int {
		n := 0
		for _, ch := range chs {
			ch.Body = body(ch.Body)
			n += len(st.apply(ch))
		}
		return n
	}
	waitSent := func(name string, t *tap, before, n int) bool {
		if n == 0 {
			return true
		}
		if !waitFor(func() bool { fx.mu.Lock(); defer fx.mu.Unlock(); return t.post >= before+n }) {
			res.inconclusive = name + ": the leader did not broadcast the reported regions in time"
			return false
		}
		if !fx.waitFollower(t) {
			res.inconclusive = name + ": the follower did not reach the leader's index in time"
			return false
		}
		return true
	}
	posted := func(t *tap) int { fx.mu.Lock(); defer fx.mu.Unlock(); return t.post }
	nTaps := func() int { fx.mu.Lock(); defer fx.mu.Unlock(); return len(fx.taps) }
	// waitStream waits for a bound stream of the given member among the streams created from index k on
	waitStream := func(member string, k int) *tap {
		var t *tap
		if !waitFor(func() bool {
			fx.mu.Lock()
			defer fx.mu.Unlock()
			for _, x := range fx.taps[min(k, len(fx.taps)):] {
				if x.hasReq && x.member == member {
					t = x
					return true
				}
			}
			return false
		}) {
			return nil
		}
		select {
		case <-t.bound:
			return t
		case <-t.done:
			return t // Sync ended before binding: the waits that follow decide
		case <-time.After(waitLimit):
			return nil
		}
	}

	// ================= term 1: X leads
	if !startTerm() {
		return
	}
	// the first regions: contiguous ranges, reported one by one
	n := len(c.Regions)
	st.top = uint64(n+1) * 1000000
	for i, b := range c.Regions {
		lo, hi := uint64(i)*1000000, uint64(i+1)*1000000
		if i == n-1 {
			hi = st.top
		}
		r := &mreg{id: st.nextID, lo: lo, hi: hi}
		st.nextID++
		r.info = st.build(r.id, lo, hi, body(b), 1, 1)
		st.cur = append(st.cur, r)
		st.put(r)
	}
	fx.startFollower()
	t := waitStream("follower", 0)
	if t == nil {
		res.inconclusive = "term 1: the sync stream was not established in time"
		return
	}
	if !fx.waitFollower(t) {
		res.inconclusive = "term 1: the follower did not apply the initial synchronisation in time"
		return
	}
	before := posted(t)
	if !waitSent("term 1", t, before, report(c.Term1)) {
		return
	}
	// X steps down; Z was in sync with it
	i1 := fx.leader.VerifNextIndex()
	held := xs.bc.GetRegions()
	fx.mu.Lock()
	t.dead = true
	fx.mu.Unlock()
	rc.Stop()
	leading = false
	// heartbeats that were in flight: processed after the syncer loop of the term has exited
	inflight := map[uint64]bool{}
	var order []uint64
	for _, ch := range c.InFlight {
		ch.Kind, ch.Body = "flow", body(ch.Body)
		for _, r := range st.apply(ch) {
			if !inflight[r.GetID()] {
				inflight[r.GetID()] = true
				order = append(order, r.GetID())
			}
		}
	}
	res.inflight = len(order)

	// ================= term 2: Z leads, X and F follow
	z, err := newZ(fx, held, i1)
	if err != nil {
		res.inconclusive = "member Z: " + err.Error()
		return
	}
	st.sink = func(r *core.RegionInfo) {
		z.srv.bc.PutRegion(r)
		z.notifier <- r
	}
	fx.follower.StopSyncWithLeader()
	k := nTaps()
	fx.leader.StartSyncWithLeader(z.addr)
	following = true
	fx.started = true
	atomic.AddInt64(&fx.starts, 1)
	fx.follower.StartSyncWithLeader(z.addr)
	if t = waitStream("follower", k); t == nil {
		res.inconclusive = "term 2: the follower's stream to Z was not established in time"
		return
	}
	if waitStream("leader", k) == nil {
		res.inconclusive = "term 2: X's stream to Z was not established in time"
		return
	}
	if !fx.waitFollower(t) {
		res.inconclusive = "term 2: the follower did not apply the initial synchronisation in time"
		return
	}
	before = posted(t)
	reported := 0
	// Z learns a newer state of every region that had an in-flight heartbeat on X
	for i, id := range order {
		for pos, r := range st.cur {
			if r.id == id {
				b := body(c.Newer[i%len(c.Newer)])
				b.Flow[0] = 700000 + uint64(i)
				reported += len(st.apply(Change{Kind: "flow", Pick: pos, Body: b}))
			}
		}
	}
	reported += report(c.Term2)
	if !waitSent("term 2", t, before, reported) {
		return
	}
	zIdx := z.syncer.VerifNextIndex()
	if !waitFor(func() bool { return fx.leader.VerifNextIndex() == zIdx }) {
		res.inconclusive = "term 2: X did not reach Z's index in time"
		return
	}
	for _, id := range order {
		if w := st.want[id]; w != nil && w.GetRegionEpoch().GetVersion() == 1 && w.GetRegionEpoch().GetConfVer() == 1 {
			res.stillSame++
		}
	}

	// ================= term 3: X leads again
	fx.mu.Lock()
	t.dead = true
	fx.mu.Unlock()
	stopped := make(chan struct{})
	go func() { fx.follower.StopSyncWithLeader(); close(stopped) }()
	fx.leader.StopSyncWithLeader()
	<-stopped
	following = false
	st.sink = func(r *core.RegionInfo) {
		if err := rc.VerifProcessRegionHeartbeat(r); err != nil && hbErr == "" {
			hbErr = fmt.Sprintf("heartbeat of region %d rejected: %v", r.GetID(), err)
		}
	}
	if !startTerm() {
		return
	}
	time.Sleep(5 * time.Millisecond) // let the syncer loop of the new term take whatever its queue holds
	k = nTaps()
	fx.startFollower()
	if t = waitStream("follower", k); t == nil {
		res.inconclusive = "term 3: the sync stream was not established in time"
		return
	}
	if !fx.waitFollower(t) {
		res.inconclusive = "term 3: the follower did not apply the initial synchronisation in time"
		return
	}
	before = posted(t)
	if !waitSent("term 3", t, before, report(c.Term3)) {
		return
	}
	if hbErr != "" {
		res.inconclusive = hbErr
		return
	}
	// let a broadcast that was queued before the follower's stream was bound arrive
	if !fx.waitFollower(t) {
		res.inconclusive = "term 3: the follower did not settle in time"
		return
	}

	// ================= oracle
	fx.mu.Lock()
	sent := map[uint64]*msg{}
	for _, m := range fx.msgs {
		for _, id := range m.ids {
			sent[id] = m
		}
	}
	fx.mu.Unlock()
	ids := make([]uint64, 0, len(sent))
	for id := range sent {
		ids = append(ids, id)
	}
	sort.Slice(ids, func(i, j int) bool { return ids[i] < ids[j] })
	res.sent = len(ids)
	for _, id := range ids {
		want := xs.bc.GetRegion(id) // what the current leader's cache holds
		if want == nil {
			continue
		}
		res.compared++
		got := fx.followerSrv.bc.GetRegion(id)
		m := sent[id]
		if got == nil {
			res.diffs = append(res.diffs, diff{id, "missing", "the follower does not hold the region"})
			continue
		}
		if !bytes.Equal(got.GetStartKey(), want.GetStartKey()) || !bytes.Equal(got.GetEndKey(), want.GetEndKey()) {
			res.diffs = append(res.diffs, diff{id, "range", fmt.Sprintf("follower [%q,%q), leader [%q,%q)", got.GetStartKey(), got.GetEndKey(), want.GetStartKey(), want.GetEndKey())})
		}
		if peersStr(got.GetMeta().GetPeers()) != peersStr(want.GetMeta().GetPeers()) {
			res.diffs = append(res.diffs, diff{id, "peers", fmt.Sprintf("follower %s, leader %s", peersStr(got.GetMeta().GetPeers()), peersStr(want.GetMeta().GetPeers()))})
		}
		gl, wl := got.GetLeader(), want.GetLeader()
		if (gl == nil) != (wl == nil) || gl.GetId() != wl.GetId() || gl.GetStoreId() != wl.GetStoreId() {
			res.diffs = append(res.diffs, diff{id, "leader", fmt.Sprintf("follower %s, current leader X holds %s (region last sent in %s; in-flight heartbeat at the end of X's first term: %v)", peerStr(gl), peerStr(wl), m.describe(), inflight[id])})
		}
		gf := [4]uint64{got.GetBytesWritten(), got.GetKeysWritten(), got.GetBytesRead(), got.GetKeysRead()}
		wf := [4]uint64{want.GetBytesWritten(), want.GetKeysWritten(), want.GetBytesRead(), want.GetKeysRead()}
		if gf != wf {
			res.diffs = append(res.diffs, diff{id, "flow", fmt.Sprintf("follower written/read bytes,keys %v, current leader X holds %v (region last sent in %s; in-flight heartbeat at the end of X's first term: %v)", gf, wf, m.describe(), inflight[id])})
		}
	}
	return
}

// newZ creates member Z: it holds the regions X held when its term ended and its change log is at
// the same index (it was a follower in sync with X).
func newZ(fx *fixture, held []*core.RegionInfo, index uint64) (*zMember, error) {
	srv, err := newSrv(fx.leaderSrv.ctx, fx.dir, "zleader", fx, kv.NewMemoryKV(), nil)
	if err != nil {
		return nil, err
	}
	srv.storage.SwitchToRegionStorage()
	srv.leader = srv.member
	if index != 0 {
		if err = srv.storage.GetRegionStorage().Save("historyIndex", strconv.FormatUint(index, 10)); err != nil {
			return nil, err
		}
	}
	for _, r := range held {
		srv.bc.PutRegion(r)
	}
	lis, err := net.Listen("tcp", "127.0.0.1:0")
	if err != nil {
		return nil, err
	}
	z := &zMember{srv: srv, syncer: syncer.NewRegionSyncer(srv), notifier: make(chan *core.RegionInfo, 10000), addr: "http://" + lis.Addr().String()}
	quit := make(chan struct{})
	gs := grpc.NewServer()
	pdpb.RegisterPDServer(gs, &pdService{fx: fx, leader: z.syncer})
	go gs.Serve(lis)
	go z.syncer.RunServer(z.notifier, quit)
	fx.extraClose = append(fx.extraClose, func() { close(quit); gs.Stop() })
	return z, nil
}

func runRoundTrip(c RTCase) (vkit.Info, error) {
	var info vkit.Info
	res := execRoundTrip(c)
	info.Class(fmt.Sprintf("regions=%d", len(c.Regions)))
	if res.inconclusive != "" {
		info.Inconclusive = true
		info.Class("inconclusive:" + res.inconclusive)
		return info, nil
	}
	if len(res.diffs) > 0 {
		d := res.diffs[0]
		return info, fmt.Errorf("leadership round trip X -> Z -> X: %d regions sent to the follower, %d compared, %d differences; first: region %d %s: %s",
			res.sent, res.compared, len(res.diffs), d.id, d.field, d.detail)
	}
	info.ClassIf(res.inflight > 1, "in-flight-heartbeats>1")
	info.ClassIf(res.stillSame > 0, "in-flight-region-keeps-epoch")
	info.ClassIf(!c.RegionStorage, "follower-default-storage")
	info.ClassIf(c.EncX%4 != 0 || c.EncF%4 != 0, "encryption-at-rest")
	info.ClassIf(len(c.Term3) > 0, "heartbeats-in-second-term")
	info.NonTrivial = res.stillSame > 0
	return info, nil
}
