package c16

// Encryption at rest as a configuration dimension of the sync properties: in a generated
// fraction of the cases the follower's (and, in roundtrip, member X's) storage gets a real
// encryptionkm.KeyManager (file master key, data key created through a campaigned
// election.Leadership on the per-process embedded etcd of vkit/etcdfix), method
// aes128/192/256-ctr. One key manager per method and process.

import (
	"fmt"
	"os"
	"path/filepath"
	"strings"
	"sync"

	"github.com/tikv/pd/pkg/encryption"
	"github.com/tikv/pd/server/election"
	"github.com/tikv/pd/server/encryptionkm"
	"pdverif/vkit/etcdfix"
)

var encMethods = []string{"", "aes128-ctr", "aes192-ctr", "aes256-ctr"}

var (
	kmOnce sync.Once
	kms    [4]*encryptionkm.KeyManager
	kmErr  error
	kmDir  string
)

func encCleanup() {
	etcdfix.Close()
	if kmDir != "" {
		os.RemoveAll(kmDir)
	}
}

// keyManager returns the process-wide key manager of a method (1..3), nil for 0. An error
// means the etcd fixture could not be set up: inconclusive, never a violation.
func keyManager(enc int) (*encryptionkm.KeyManager, error) {
	enc = ((enc % 4) + 4) % 4
	if enc == 0 {
		return nil, nil
	}
	kmOnce.Do(func() {
		f, err := etcdfix.Get()
		if err != nil {
			kmErr = err
			return
		}
		client, err := f.NewClient(&etcdfix.Hooks{})
		if err != nil {
			kmErr = err
			return
		}
		dir, err := os.MkdirTemp("", "c16-master-key")
		if err != nil {
			kmErr = err
			return
		}
		kmDir = dir
		kf := filepath.Join(dir, "master.key")
		if err := os.WriteFile(kf, []byte(strings.Repeat("6c", 32)+"\n"), 0o600); err != nil {
			kmErr = err
			return
		}
		ls := election.NewLeadership(client, f.Root()+"/leader", "c16")
		if err := ls.Campaign(3600, "c16"); err != nil {
			kmErr = fmt.Errorf("campaign: %v", err)
			return
		}
		for i := 1; i <= 3; i++ {
			cfg := &encryption.Config{DataEncryptionMethod: encMethods[i],
				MasterKey: encryption.MasterKeyConfig{Type: "file", MasterKeyFileConfig: encryption.MasterKeyFileConfig{FilePath: kf}}}
			if err := cfg.Adjust(); err != nil {
				kmErr = err
				return
			}
			km, err := encryptionkm.NewKeyManager(client, cfg)
			if err != nil {
				kmErr = err
				return
			}
			if err := km.SetLeadership(ls); err != nil {
				kmErr = err
				return
			}
			id, key, err := km.GetCurrentKey()
			if err != nil || key == nil {
				kmErr = fmt.Errorf("key manager %s has no current key (id %d, %v)", encMethods[i], id, err)
				return
			}
			kms[i] = km
		}
	})
	if kmErr != nil {
		return nil, kmErr
	}
	return kms[enc], nil
}
