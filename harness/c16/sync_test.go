package c16

import (
	"bytes"
	"context"
	"fmt"
	"hash/fnv"
	"net"
	"os"
	"sort"
	"strconv"
	"strings"
	"sync"
	"sync/atomic"
	"time"

	"github.com/pingcap/kvproto/pkg/metapb"
	"github.com/pingcap/kvproto/pkg/pdpb"
	"github.com/pingcap/log"
	"github.com/tikv/pd/pkg/grpcutil"
	"github.com/tikv/pd/server/core"
	"github.com/tikv/pd/server/encryptionkm"
	"github.com/tikv/pd/server/kv"
	syncer "github.com/tikv/pd/server/region_syncer"
	"google.golang.org/grpc"
	"pdverif/vkit"
	"pdverif/vkit/faultkv"
	"pgregory.net/rapid"
)

// ---------------------------------------------------------------- (b) sync: case data

// Reg describes peers, leader and flow of one region. Peers sit on stores
// Store, Store+1, ... (wrapping in 1..6), so they are always on distinct stores.
type Reg struct {
	Store   uint64    `json:"s"`
	NPeers  int       `json:"n"`
	Leader  int       `json:"l"`            // index of the leader peer; -1 = the leader PD knows no leader (region loaded from storage)
	Learner int       `json:"lr,omitempty"` // 1+index of a learner peer, 0 = none; never the leader
	Flow    [4]uint64 `json:"f"`            // bytes written, keys written, bytes read, keys read
	Size    int64     `json:"sz,omitempty"` // approximate size (not carried by the sync protocol, not compared)
}

// Change is one region change reported to the leader (what a region heartbeat produces) and
// handed to the syncer through the changed-regions channel; such regions always have a leader.
//
//	flow   same meta, new flow statistics, leader moved to voter Body.Leader
//	conf   same range, peers replaced by Body's (conf_ver+1)
//	split  the region keeps the right half, a new region (Body) takes the left half, both version+1
//	merge  the region absorbs its right neighbour (version max+1)
type Change struct {
	Kind string `json:"k"`
	Pick int    `json:"p"`
	Body Reg    `json:"b"`
}

// Fault makes one write of the follower's storage fail (cleanly: nothing is written): the Nth
// region save the follower attempts in the given phase (initial = full synchronisation or first
// catch-up, post, reconnect = catch-up after the reconnection, post2). Only for a follower that
// keeps regions in its default storage (there the store is a kv.Base and can be wrapped).
type Fault struct {
	Phase string `json:"phase"`
	Nth   int    `json:"nth"`
}

// SCase is one synchronisation scenario.
type SCase struct {
	Regions   []Reg  `json:"regions"`     // the leader's regions before anything is synchronised (contiguous ranges)
	HistIdx   uint64 `json:"hist"`        // history index found in the leader's region storage at start-up; 0 = none (fresh leader)
	HistPlusN bool   `json:"hist_plus_n"` // add len(Regions) to HistIdx (index values close to the number of regions)
	// follower keeps regions in the leveldb region storage (use-region-storage=true, the default) or in its default storage
	RegionStorage bool     `json:"region_storage"`
	Pre           []Change `json:"pre,omitempty"`     // changes before the follower connects (end up in the leader's change log)
	Post          []Change `json:"post,omitempty"`    // changes while the follower is connected (broadcast)
	Reconnect     bool     `json:"reconnect"`         // follower stops syncing, Offline changes happen, follower starts syncing again
	Offline       []Change `json:"offline,omitempty"` //
	Post2         []Change `json:"post2,omitempty"`   // changes after the reconnection
	Faults        []Fault  `json:"faults,omitempty"`  // failing region saves on the follower
	Enc           int      `json:"enc,omitempty"`     // encryption at rest on the follower's storage: 0 off, 1..3 aes128/192/256-ctr
	// Size dimension: every region key gets KeyPad extra bytes; Bulk more flow changes (bodies taken in
	// turn from BulkBodies, regions in turn) are reported before the follower connects (BulkWhere
	// "pre": with a fresh leader the follower catches up from index 0 in ONE response) or while it is
	// disconnected ("offline"), so that single responses reach the MiB range.
	KeyPad int `json:"key_pad,omitempty"`
	// instead of KeyPad: aim the largest response (PadRecords regions in it) at TargetBytes
	TargetBytes int    `json:"target_bytes,omitempty"`
	PadRecords  int    `json:"pad_records,omitempty"`
	Bulk        int    `json:"bulk,omitempty"`
	BulkWhere   string `json:"bulk_where,omitempty"`
	BulkBodies  []Reg  `json:"bulk_bodies,omitempty"`
	// Leader restart (last phase): BeforeRestart changes are broadcast, then the leader side is rebuilt
	// (new RegionSyncer = fresh change log over the same region storage, so its next index is the
	// persisted one, up to 100 behind; new gRPC server on the same address) while the follower keeps
	// running with its cache and index and reconnects on its own; then the AfterRestart changes are
	// reported to the new leader one at a time (one broadcast each).
	LeaderRestart bool     `json:"leader_restart,omitempty"`
	BeforeRestart []Change `json:"before_restart,omitempty"`
	AfterRestart  []Change `json:"after_restart,omitempty"`
	// Ex-leader follower: the follower was the PD leader before and kept its process, so its cache
	// already holds regions built from TiKV heartbeats with raft term ExTerm (> 0). It holds the
	// leader's initial regions number i with i % ExEvery == ExOff % ExEvery, at the initial epoch
	// (so the leader's state is newer or equal in epoch), with another leader and other flow.
	ExTerm  uint64 `json:"ex_term,omitempty"`
	ExEvery int    `json:"ex_every,omitempty"`
	ExOff   int    `json:"ex_off,omitempty"`
}

var sizeTable = []int{0, 1, 1, 2, 2, 99, 99, 100, 100, 100, 101, 101, 101, 199, 199, 200, 200, 201, 201, 250, 250, 250, 1000}

func genReg(t *rapid.T, leaderMode int) Reg {
	var r Reg
	r.Store = uint64(rapid.IntRange(1, 6).Draw(t, "store"))
	r.NPeers = rapid.IntRange(1, 5).Draw(t, "npeers")
	r.Leader = rapid.IntRange(0, r.NPeers-1).Draw(t, "leader")
	if r.NPeers > 1 && rapid.IntRange(0, 3).Draw(t, "hasLearner") == 0 {
		l := rapid.IntRange(0, r.NPeers-2).Draw(t, "learner")
		if l >= r.Leader {
			l++
		}
		r.Learner = l + 1
	}
	switch leaderMode {
	case 0:
		r.Leader = -1
	case 2:
		if rapid.IntRange(0, 3).Draw(t, "noLeader") == 0 {
			r.Leader = -1
		}
	}
	flows := []uint64{0, 1, 2, 3, 1000, 4096, 1 << 20, 1<<63 + 5, ^uint64(0)}
	for i := range r.Flow {
		r.Flow[i] = rapid.SampledFrom(flows).Draw(t, "flow")
	}
	r.Size = rapid.SampledFrom([]int64{0, 1, 96, 144}).Draw(t, "size")
	return r
}

func genChanges(t *rapid.T, label string, lens []int) []Change {
	n := rapid.SampledFrom(lens).Draw(t, label)
	var out []Change
	for i := 0; i < n; i++ {
		out = append(out, Change{
			Kind: rapid.SampledFrom([]string{"flow", "flow", "flow", "conf", "split", "split", "merge"}).Draw(t, "kind"),
			Pick: rapid.IntRange(0, 9999).Draw(t, "pick"),
			Body: genReg(t, 1),
		})
	}
	return out
}

// msgSize is the documented limit of one sync response (server/region_syncer/server.go msgSize,
// which the follower sets as its receive limit); perRecord is an upper bound of what a region adds to
// a response besides its two keys (id, epoch, up to 5 peers, leader, 4 flow counters, framing).
const (
	msgSize   = 8 << 20
	perRecord = 200
)

// genBigSync draws a scenario whose largest single response is aimed at a size class below msgSize.
func genBigSync(t *rapid.T) SCase {
	var c SCase
	// 10 and 14 MiB are beyond msgSize: clamped by the runner while the finding below is known
	c.TargetBytes = rapid.SampledFrom([]int{512 << 10, 2500 << 10, 5 << 20, 6 << 20, 7 << 20, 7 << 20, 10 << 20, 10 << 20, 14 << 20}).Draw(t, "targetBytes")
	kind := rapid.SampledFrom([]string{"full", "catchup", "catchup", "offline"}).Draw(t, "bigKind")
	// catch-up flavours: far behind (thousands of records, the whole backlog is aimed at the target
	// size) or big records (a few hundred records, 100 of them - one batch - are aimed at the target)
	bigRecords := rapid.Bool().Draw(t, "bigRecords")
	c.RegionStorage = rapid.Bool().Draw(t, "regionStorage")
	n := 6
	switch kind {
	case "full":
		n = rapid.SampledFrom([]int{100, 101, 250}).Draw(t, "n")
		c.HistIdx = 5000
		c.PadRecords = 100
		c.Post = genChanges(t, "npost", []int{0, 2})
	default:
		if bigRecords {
			c.Bulk = rapid.SampledFrom([]int{150, 200, 300}).Draw(t, "bulk")
			c.PadRecords = 100
		} else {
			c.Bulk = rapid.SampledFrom([]int{1000, 3000, 9000, 9900}).Draw(t, "bulk")
			c.PadRecords = c.Bulk + 10
		}
		c.BulkWhere = "offline"
		{
			c.HistIdx = rapid.SampledFrom([]uint64{0, 5000}).Draw(t, "hist")
			c.Post = genChanges(t, "npost1", []int{1})
			c.Reconnect = true
			c.Post2 = genChanges(t, "npost2", []int{0, 2})
		}
		for i := 0; i < 4; i++ {
			c.BulkBodies = append(c.BulkBodies, genReg(t, 1))
		}
	}
	for i := 0; i < n; i++ {
		c.Regions = append(c.Regions, genReg(t, 1))
	}
	return c
}

func genSync(t *rapid.T) SCase {
	if rapid.IntRange(0, 15).Draw(t, "big") == 0 {
		return genBigSync(t)
	}
	var c SCase
	n := rapid.SampledFrom(sizeTable).Draw(t, "n")
	leaderMode := rapid.SampledFrom([]int{0, 1, 1, 1, 2, 2}).Draw(t, "leaderMode")
	for i := 0; i < n; i++ {
		c.Regions = append(c.Regions, genReg(t, leaderMode))
	}
	switch rapid.IntRange(0, 7).Draw(t, "histKind") {
	case 0, 1:
		c.HistIdx = 0 // fresh leader: no full synchronisation, history catch-up / broadcasts only
	case 2:
		c.HistIdx, c.HistPlusN = uint64(rapid.IntRange(0, 3).Draw(t, "histNear")), true
	default:
		c.HistIdx = rapid.SampledFrom([]uint64{1, 7, 100, 101, 250, 5000, 123456, 1 << 40}).Draw(t, "hist")
	}
	c.RegionStorage = rapid.IntRange(0, 4).Draw(t, "regionStorage") >= 2
	c.Pre = genChanges(t, "npre", []int{0, 0, 0, 0, 1, 1, 2, 5, 30, 99, 130})
	c.Post = genChanges(t, "npost", []int{0, 1, 1, 2, 3, 5, 8, 120})
	if rapid.IntRange(0, 4).Draw(t, "reconnect") == 0 {
		c.Reconnect = true
		if len(c.Post) == 0 {
			// the follower's index is aligned with the leader's only after a broadcast (see runner)
			c.Post = genChanges(t, "npost1", []int{1})
		}
		c.Offline = genChanges(t, "noffline", []int{0, 2, 2, 3, 5, 110})
		c.Post2 = genChanges(t, "npost2", []int{0, 1, 3})
	}
	if rapid.IntRange(0, 5).Draw(t, "leaderRestart") == 0 {
		c.LeaderRestart = true
		c.BeforeRestart = genChanges(t, "nbefore", []int{0, 1, 2, 3, 5, 20, 99, 100, 101, 130})
		c.AfterRestart = genChanges(t, "nafter", []int{1, 3, 8, 8, 12, 40, 110})
	}
	if rapid.IntRange(0, 2).Draw(t, "exLeader") == 0 {
		c.ExTerm = rapid.SampledFrom([]uint64{1, 6, 100}).Draw(t, "exTerm")
		c.ExEvery = rapid.SampledFrom([]int{1, 1, 2, 3}).Draw(t, "exEvery")
		c.ExOff = rapid.IntRange(0, 2).Draw(t, "exOff")
	}
	if rapid.IntRange(0, 3).Draw(t, "encrypted") == 0 {
		c.Enc = rapid.IntRange(1, 3).Draw(t, "enc")
	}
	if !c.RegionStorage && rapid.IntRange(0, 3).Draw(t, "faulty") != 0 {
		phases := []string{"initial", "initial", "post", "post"}
		if c.Reconnect {
			phases = append(phases, "reconnect", "reconnect", "post2")
		}
		nf := rapid.IntRange(1, 4).Draw(t, "nfaults")
		for i := 0; i < nf; i++ {
			c.Faults = append(c.Faults, Fault{
				Phase: rapid.SampledFrom(phases).Draw(t, "faultPhase"),
				Nth:   rapid.SampledFrom([]int{1, 1, 1, 2, 2, 3, 5, 50, 100, 101, 102, 150}).Draw(t, "faultNth"),
			})
		}
	}
	return c
}

// ---------------------------------------------------------------- fake PD servers

type fakeSrv struct {
	ctx     context.Context
	name    string
	member  *pdpb.Member
	leader  *pdpb.Member
	storage *core.Storage
	bc      *core.BasicCluster
	bcCalls int64
}

func (f *fakeSrv) LoopContext() context.Context        { return f.ctx }
func (f *fakeSrv) ClusterID() uint64                   { return 16 }
func (f *fakeSrv) GetMemberInfo() *pdpb.Member         { return f.member }
func (f *fakeSrv) GetLeader() *pdpb.Member             { return f.leader }
func (f *fakeSrv) GetStorage() *core.Storage           { return f.storage }
func (f *fakeSrv) Name() string                        { return f.name }
func (f *fakeSrv) GetRegions() []*core.RegionInfo      { return f.bc.GetRegions() }
func (f *fakeSrv) GetTLSConfig() *grpcutil.TLSConfig   { return &grpcutil.TLSConfig{} }
func (f *fakeSrv) GetBasicCluster() *core.BasicCluster { atomic.AddInt64(&f.bcCalls, 1); return f.bc }

// pdService is the leader's gRPC service: only SyncRegions is implemented, as in server/grpc_service.go.
type pdService struct {
	pdpb.PDServer
	fx     *fixture
	leader *syncer.RegionSyncer
}

func (p *pdService) SyncRegions(stream pdpb.PD_SyncRegionsServer) error {
	t := p.fx.newTap(stream)
	defer close(t.done)
	return p.leader.Sync(t)
}

// msg is what one SyncRegionResponse carried (snapshot taken when it is sent; the
// server reuses its slices).
type msg struct {
	stream  int
	pre     bool // sent by Sync before the stream was bound (full sync or history catch-up)
	ord     int  // ordinal among the region-carrying pre-bind messages of its stream (1-based)
	start   uint64
	ids     []uint64
	leaders int
	stats   int
	dead    bool
	bytes   int
}

// tap wraps the server side of a sync stream: records messages, tells when the stream is bound.
type tap struct {
	pdpb.PD_SyncRegionsServer
	fx       *fixture
	no       int
	recvs    int
	bound    chan struct{}
	done     chan struct{} // closed when the leader's Sync call for this stream has returned
	sending  int           // Send calls in flight
	member   string        // name of the requesting member
	ignore   bool          // not the observed follower's stream: pass through, no accounting
	hasReq   bool          // the follower's request has arrived
	reqStart uint64        // its start index
	regions  int           // regions sent on this stream
	maxBytes int           // largest response sent on this stream
	preMsgs  int
	post     int // regions broadcast on this stream after it was bound
	dead     bool
	last     *msg
}

func (t *tap) Recv() (*pdpb.SyncRegionRequest, error) {
	t.fx.mu.Lock()
	t.recvs++
	if t.recvs == 2 {
		// Sync calls Recv again only after syncHistoryRegion returned and bindStream ran
		close(t.bound)
	}
	first := t.recvs == 1
	t.fx.mu.Unlock()
	req, err := t.PD_SyncRegionsServer.Recv()
	if first && err == nil {
		t.fx.mu.Lock()
		t.hasReq, t.reqStart = true, req.GetStartIndex()
		t.member = req.GetMember().GetName()
		t.ignore = t.member != "follower"
		t.fx.mu.Unlock()
	}
	return req, err
}

func (t *tap) Send(r *pdpb.SyncRegionResponse) error {
	t.fx.mu.Lock()
	ignore := t.ignore
	t.fx.mu.Unlock()
	if ignore {
		return t.PD_SyncRegionsServer.Send(r)
	}
	m := &msg{stream: t.no, start: r.GetStartIndex(), leaders: len(r.GetRegionLeaders()), stats: len(r.GetRegionStats()), bytes: r.Size()}
	for _, x := range r.GetRegions() {
		m.ids = append(m.ids, x.GetId())
	}
	t.fx.mu.Lock()
	m.pre = t.recvs < 2
	m.dead = t.dead
	if m.pre && len(m.ids) > 0 {
		t.preMsgs++
		m.ord = t.preMsgs
	}
	if !m.pre {
		t.post += len(m.ids)
	}
	t.regions += len(m.ids)
	if m.bytes > t.maxBytes {
		t.maxBytes = m.bytes
	}
	if !t.dead {
		t.fx.delivered += len(m.ids)
		t.last = m
	}
	t.fx.msgs = append(t.fx.msgs, m)
	t.sending++
	t.fx.mu.Unlock()
	err := t.PD_SyncRegionsServer.Send(r)
	t.fx.mu.Lock()
	t.sending--
	t.fx.mu.Unlock()
	return err
}

// ---------------------------------------------------------------- fixture

var (
	cleanups sync.WaitGroup
	slots    = make(chan struct{}, 24) // bounds fixtures that are still being torn down
)

const waitLimit = 25 * time.Second

func quietLogs() {
	lg, p, err := log.InitLogger(&log.Config{Level: "fatal"})
	if err == nil {
		log.ReplaceGlobals(lg, p)
	}
}

type fixture struct {
	mu          sync.Mutex
	dir         string
	cancel      context.CancelFunc
	leaderSrv   *fakeSrv
	followerSrv *fakeSrv
	leader      *syncer.RegionSyncer
	follower    *syncer.RegionSyncer
	notifier    chan *core.RegionInfo
	quit        chan struct{}
	gs          *grpc.Server
	addr        string
	storages    []*core.RegionStorage
	taps        []*tap
	msgs        []*msg
	delivered   int // regions in messages sent on streams the follower was listening to
	starts      int64
	started     bool
	rejected    string // set when the follower keeps re-requesting the same index after an answer
	noLoop      bool   // the leader's RunServer loop is run by a RaftCluster, not by the fixture
	extraClose  []func()
	// follower storage faults (follower on its default storage only)
	faulty         bool            // region saves of the follower go through the fault-injecting kv
	saveAttempts   int             // region saves attempted by the follower
	failAt         map[int]bool    // ordinals of the attempts that fail
	failed         []int           // ordinals of the attempts that did fail
	lastSaveFailed map[uint64]bool // by region id: the most recent save of that region failed
}

const regionKeyPrefix = "raft/r/"

// gate sees every operation on the follower's default storage before it is executed.
func (fx *fixture) gate(kind, key string) error {
	if kind != "save" || !strings.HasPrefix(key, regionKeyPrefix) {
		return nil
	}
	id, _ := strconv.ParseUint(key[len(regionKeyPrefix):], 10, 64)
	fx.mu.Lock()
	defer fx.mu.Unlock()
	fx.saveAttempts++
	if fx.failAt[fx.saveAttempts] {
		fx.failed = append(fx.failed, fx.saveAttempts)
		fx.lastSaveFailed[id] = true
		return faultkv.ErrInjected
	}
	delete(fx.lastSaveFailed, id)
	return nil
}

// arm makes the Nth region save from now on fail, for every fault of the phase.
func (fx *fixture) arm(faults []Fault, phase string) {
	if !fx.faulty {
		return
	}
	fx.mu.Lock()
	defer fx.mu.Unlock()
	for _, f := range faults {
		if f.Phase == phase && f.Nth > 0 {
			fx.failAt[fx.saveAttempts+f.Nth] = true
		}
	}
}

func newSrv(ctx context.Context, dir, name string, fx *fixture, base kv.Base, km *encryptionkm.KeyManager) (*fakeSrv, error) {
	rs, err := core.NewRegionStorage(ctx, dir+"/"+name, km)
	if err != nil {
		return nil, err
	}
	fx.storages = append(fx.storages, rs)
	m := &pdpb.Member{Name: name, MemberId: uint64(len(name)), ClientUrls: []string{"http://" + name + ".invalid:2379"}}
	return &fakeSrv{ctx: ctx, name: name, member: m,
		storage: core.NewStorage(base, core.WithRegionStorage(rs), core.WithEncryptionKeyManager(km)),
		bc:      core.NewBasicCluster()}, nil
}

func newFixture(histIdx uint64, followerRegionStorage bool) (*fixture, error) {
	return newFixtureOpt(histIdx, followerRegionStorage, false, 0, 0)
}

// encLeader / encFollower: encryption at rest of that member's storage (0 off, 1..3 method)
func newFixtureOpt(histIdx uint64, followerRegionStorage, noLoop bool, encLeader, encFollower int) (*fixture, error) {
	kmL, err := keyManager(encLeader)
	if err != nil {
		return nil, err
	}
	kmF, err := keyManager(encFollower)
	if err != nil {
		return nil, err
	}
	slots <- struct{}{}
	fx := &fixture{noLoop: noLoop, notifier: make(chan *core.RegionInfo, 10000), quit: make(chan struct{}),
		failAt: map[int]bool{}, lastSaveFailed: map[uint64]bool{}, faulty: !followerRegionStorage}
	dir, err := os.MkdirTemp("", "c16-")
	if err != nil {
		<-slots
		return nil, err
	}
	fx.dir = dir
	ctx, cancel := context.WithCancel(context.Background())
	fx.cancel = cancel
	fail := func(err error) (*fixture, error) {
		fx.close()
		return nil, err
	}
	if fx.leaderSrv, err = newSrv(ctx, dir, "leader", fx, kv.NewMemoryKV(), kmL); err != nil {
		return fail(err)
	}
	fkv := faultkv.New(kv.NewMemoryKV())
	fkv.SetGate(fx.gate)
	if fx.followerSrv, err = newSrv(ctx, dir, "follower", fx, fkv, kmF); err != nil {
		return fail(err)
	}
	fx.followerSrv.leader, fx.leaderSrv.leader = fx.leaderSrv.member, fx.leaderSrv.member
	// the leader (every PD in fact) runs with the region storage switched on by default
	fx.leaderSrv.storage.SwitchToRegionStorage()
	if followerRegionStorage {
		fx.followerSrv.storage.SwitchToRegionStorage()
	}
	if histIdx != 0 {
		// what the previous incarnation of the leader left behind: historyBuffer.persist()
		if err = fx.leaderSrv.storage.GetRegionStorage().Save("historyIndex", strconv.FormatUint(histIdx, 10)); err != nil {
			return fail(err)
		}
	}
	lis, err := net.Listen("tcp", "127.0.0.1:0")
	if err != nil {
		return fail(err)
	}
	fx.addr = "http://" + lis.Addr().String()
	fx.leader = syncer.NewRegionSyncer(fx.leaderSrv)
	fx.serve(lis)
	fx.follower = syncer.NewRegionSyncer(fx.followerSrv)
	return fx, nil
}

// serve starts the gRPC service and the broadcast loop of the current leader syncer.
func (fx *fixture) serve(lis net.Listener) {
	fx.gs = grpc.NewServer()
	pdpb.RegisterPDServer(fx.gs, &pdService{fx: fx, leader: fx.leader})
	go fx.gs.Serve(lis)
	if !fx.noLoop {
		go fx.leader.RunServer(fx.notifier, fx.quit)
	}
}

// restartLeader rebuilds the leader side the way a restart of the leader process does: the streams
// are torn down, a new RegionSyncer (fresh change log that reloads the persisted index) serves on the
// same address over the same storage and region view. The follower is not touched.
func (fx *fixture) restartLeader() error {
	fx.mu.Lock()
	for _, t := range fx.taps {
		t.dead = true
	}
	fx.mu.Unlock()
	close(fx.quit)
	fx.gs.Stop()
	var lis net.Listener
	var err error
	for i := 0; i < 200; i++ {
		if lis, err = net.Listen("tcp", strings.TrimPrefix(fx.addr, "http://")); err == nil {
			break
		}
		time.Sleep(10 * time.Millisecond)
	}
	fx.notifier, fx.quit = make(chan *core.RegionInfo, 10000), make(chan struct{})
	if err != nil {
		fx.gs = nil
		return err
	}
	fx.leader = syncer.NewRegionSyncer(fx.leaderSrv)
	fx.serve(lis)
	return nil
}

// close tears the fixture down in the background (StopSyncWithLeader sleeps for a second).
func (fx *fixture) close() {
	cleanups.Add(1)
	go func() {
		defer cleanups.Done()
		defer func() { <-slots }()
		for _, f := range fx.extraClose {
			f()
		}
		if fx.started {
			fx.follower.StopSyncWithLeader()
		}
		close(fx.quit)
		if fx.gs != nil {
			fx.gs.Stop()
		}
		fx.cancel()
		for _, rs := range fx.storages {
			rs.Close()
		}
		os.RemoveAll(fx.dir)
	}()
}

func (fx *fixture) newTap(s pdpb.PD_SyncRegionsServer) *tap {
	fx.mu.Lock()
	defer fx.mu.Unlock()
	t := &tap{PD_SyncRegionsServer: s, fx: fx, no: len(fx.taps), bound: make(chan struct{}), done: make(chan struct{})}
	fx.taps = append(fx.taps, t)
	return t
}

func waitFor(cond func() bool) bool {
	deadline := time.Now().Add(waitLimit)
	sleep := 100 * time.Microsecond
	for !cond() {
		if time.Now().After(deadline) {
			return false
		}
		time.Sleep(sleep)
		if sleep < 2*time.Millisecond {
			sleep *= 2
		}
	}
	return true
}

func (fx *fixture) startFollower() {
	fx.started = true
	atomic.AddInt64(&fx.starts, 1)
	fx.follower.StartSyncWithLeader(fx.addr)
}

// waitBound waits until the k-th stream exists and the leader has bound it (initial
// synchronisation messages all handed to gRPC).
func (fx *fixture) waitBound(k int) *tap {
	var t *tap
	if !waitFor(func() bool {
		fx.mu.Lock()
		defer fx.mu.Unlock()
		if len(fx.taps) > k {
			t = fx.taps[k]
		}
		return t != nil
	}) {
		return nil
	}
	select {
	case <-t.bound:
		return t
	case <-t.done:
		// the leader's Sync call ended before it bound the stream (a send failed): the waits that
		// follow decide whether the follower keeps asking for the same index
		return t
	case <-time.After(waitLimit):
		return nil
	}
}

// waitFollower waits until the follower has applied every message sent to it so far.
func (fx *fixture) waitFollower(t *tap) bool {
	ok := waitFor(func() bool {
		// re-read every time: a keep-alive message (every 10 s) may be sent in between
		fx.mu.Lock()
		if !t.dead && t.regions > 0 && fx.rejected == "" {
			// The runner neither stopped the follower nor the leader, yet the follower opened new
			// streams asking for the same index again: it dropped the stream on which the leader
			// answered (twice in a row = it will go on like that).
			again := 0
			for _, x := range fx.taps[t.no+1:] {
				if x.hasReq && x.reqStart == t.reqStart && x.member == t.member {
					again++
				}
			}
			if again >= 2 {
				fx.rejected = fmt.Sprintf("the leader answered the request from index %d with %d regions (largest response %d bytes, limit msgSize = %d) but the follower dropped the stream and asked from index %d again, %d times so far; its next index is still %d",
					t.reqStart, t.regions, t.maxBytes, msgSize, t.reqStart, again, fx.follower.VerifNextIndex())
			}
		}
		if fx.rejected != "" {
			fx.mu.Unlock()
			return true
		}
		last, delivered, attempts := t.last, fx.delivered, fx.saveAttempts
		failsInLast := 0
		if last != nil {
			// the follower applies regions in order, one save attempt each: the last message is
			// the attempts (delivered-len, delivered]
			for _, a := range fx.failed {
				if a > delivered-len(last.ids) && a <= delivered {
					failsInLast++
				}
			}
		}
		fx.mu.Unlock()
		if last == nil {
			return true
		}
		// a region is recorded in the follower's change log only if its save succeeded
		want := last.start + uint64(len(last.ids)-failsInLast)
		if fx.faulty {
			if attempts < delivered {
				return false
			}
		} else if atomic.LoadInt64(&fx.followerSrv.bcCalls)-atomic.LoadInt64(&fx.starts) < int64(delivered) {
			return false
		}
		return fx.follower.VerifNextIndex() == want
	})
	return ok && fx.rejected == ""
}

// ---------------------------------------------------------------- the leader's regions (reference)

type mreg struct {
	id     uint64
	lo, hi uint64 // numeric keys; lo 0 = unbounded start, hi == top = unbounded end
	info   *core.RegionInfo
}

type state struct {
	cur      []*mreg // sorted by lo, contiguous
	top      uint64
	nextID   uint64
	nextPeer uint64
	want     map[uint64]*core.RegionInfo // what the leader holds, by region id
	bc       *core.BasicCluster
	pad      string                 // appended to every key (long keys)
	sink     func(*core.RegionInfo) // how the leader's cache learns a region (default: bc.PutRegion)
	move     bool                   // every reported region must be forwarded to the syncer: flow changes move the leader
}

func (s *state) key(v uint64) []byte {
	if v == 0 || v == s.top {
		return []byte{}
	}
	return []byte(fmt.Sprintf("%014d", v) + s.pad)
}

func (s *state) peers(b Reg) (peers []*metapb.Peer, leader *metapb.Peer) {
	n := b.NPeers
	if n < 1 {
		n = 1
	}
	for i := 0; i < n; i++ {
		s.nextPeer++
		p := &metapb.Peer{Id: s.nextPeer, StoreId: (b.Store+uint64(i)+5)%6 + 1}
		if b.Learner == i+1 && i != b.Leader {
			p.Role = metapb.PeerRole_Learner
		}
		peers = append(peers, p)
		if i == b.Leader {
			leader = p
		}
	}
	return
}

func flowOpts(b Reg) []core.RegionCreateOption {
	return []core.RegionCreateOption{core.SetWrittenBytes(b.Flow[0]), core.SetWrittenKeys(b.Flow[1]),
		core.SetReadBytes(b.Flow[2]), core.SetReadKeys(b.Flow[3]), core.SetApproximateSize(b.Size)}
}

func (s *state) build(id, lo, hi uint64, b Reg, ver, conf uint64) *core.RegionInfo {
	peers, leader := s.peers(b)
	meta := &metapb.Region{Id: id, StartKey: s.key(lo), EndKey: s.key(hi), Peers: peers,
		RegionEpoch: &metapb.RegionEpoch{Version: ver, ConfVer: conf}}
	return core.NewRegionInfo(meta, leader, flowOpts(b)...)
}

func (s *state) put(r *mreg) {
	s.want[r.id] = r.info
	if s.sink != nil {
		s.sink(r.info)
		return
	}
	s.bc.PutRegion(r.info)
}

func newState(bc *core.BasicCluster, regs []Reg, keyPad int) *state {
	s := &state{bc: bc, nextID: 1, nextPeer: 100000, want: map[uint64]*core.RegionInfo{}, pad: strings.Repeat("k", keyPad)}
	n := uint64(len(regs))
	s.top = (n + 1) * 1000000
	for i, b := range regs {
		lo, hi := uint64(i)*1000000, uint64(i+1)*1000000
		if i == len(regs)-1 {
			hi = s.top
		}
		r := &mreg{id: s.nextID, lo: lo, hi: hi}
		s.nextID++
		r.info = s.build(r.id, lo, hi, b, 1, 1)
		s.cur = append(s.cur, r)
		s.put(r)
	}
	return s
}

func forceLeader(b Reg) Reg {
	if b.NPeers < 1 {
		b.NPeers = 1
	}
	if b.Leader < 0 || b.Leader >= b.NPeers {
		b.Leader = 0
	}
	return b
}

// reporter: a changed region reaches PD in a heartbeat sent by the region's leader, so a reported
// region always has one (grpc_service.go rejects heartbeats without leader). A region that PD
// held without leader (loaded from storage) gets voter Body.Leader as leader when it is reported.
func reporter(info *core.RegionInfo, b Reg) []core.RegionCreateOption {
	if info.GetLeader() != nil {
		return nil
	}
	var voters []*metapb.Peer
	for _, p := range info.GetMeta().GetPeers() {
		if p.GetRole() != metapb.PeerRole_Learner {
			voters = append(voters, p)
		}
	}
	if len(voters) == 0 {
		voters = info.GetMeta().GetPeers()
	}
	return []core.RegionCreateOption{core.WithLeader(voters[b.Leader%len(voters)])}
}

// apply performs one change on the leader's view and returns the regions reported (in report order).
func (s *state) apply(ch Change) []*core.RegionInfo {
	if len(s.cur) == 0 {
		return nil
	}
	k := ch.Pick % len(s.cur)
	r := s.cur[k]
	b := forceLeader(ch.Body)
	switch ch.Kind {
	case "conf":
		peers, leader := s.peers(b)
		r.info = r.info.Clone(append(flowOpts(b), core.SetPeers(peers), core.WithLeader(leader), core.WithIncConfVer())...)
		s.put(r)
		return []*core.RegionInfo{r.info}
	case "split":
		mid := r.lo + (r.hi-r.lo)/2
		if mid <= r.lo || mid >= r.hi {
			break // too small to split: plain flow change
		}
		ver := r.info.GetRegionEpoch().GetVersion() + 1
		left := &mreg{id: s.nextID, lo: r.lo, hi: mid}
		s.nextID++
		left.info = s.build(left.id, left.lo, left.hi, b, ver, 1)
		r.lo = mid
		r.info = r.info.Clone(append(reporter(r.info, b), core.WithStartKey(s.key(mid)), core.SetRegionVersion(ver))...)
		s.cur = append(s.cur[:k], append([]*mreg{left}, s.cur[k:]...)...)
		if ch.Pick%2 == 0 {
			s.put(left)
			s.put(r)
			return []*core.RegionInfo{left.info, r.info}
		}
		s.put(r)
		s.put(left)
		return []*core.RegionInfo{r.info, left.info}
	case "merge":
		if k+1 >= len(s.cur) {
			break
		}
		nb := s.cur[k+1]
		ver := r.info.GetRegionEpoch().GetVersion()
		if v := nb.info.GetRegionEpoch().GetVersion(); v > ver {
			ver = v
		}
		r.hi = nb.hi
		r.info = r.info.Clone(append(reporter(r.info, b), core.WithEndKey(s.key(nb.hi)), core.SetRegionVersion(ver+1))...)
		s.cur = append(s.cur[:k+1], s.cur[k+2:]...)
		delete(s.want, nb.id)
		s.put(r)
		return []*core.RegionInfo{r.info}
	}
	// flow: same meta, new flow, leader moved to one of the voters
	var voters []*metapb.Peer
	for _, p := range r.info.GetMeta().GetPeers() {
		if p.GetRole() != metapb.PeerRole_Learner {
			voters = append(voters, p)
		}
	}
	opts := flowOpts(b)
	if len(voters) > 0 {
		k := b.Leader % len(voters)
		if s.move && r.info.GetLeader() != nil && voters[k].GetId() == r.info.GetLeader().GetId() {
			k = (k + 1) % len(voters)
		}
		opts = append(opts, core.WithLeader(voters[k]))
	}
	r.info = r.info.Clone(opts...)
	s.put(r)
	return []*core.RegionInfo{r.info}
}

// ---------------------------------------------------------------- scenario execution

type diff struct {
	id     uint64
	field  string // missing, range, peers, leader, flow
	detail string
}

type syncResult struct {
	inconclusive string
	diffs        []diff
	fullBatches  int // region-carrying messages of the first stream's initial synchronisation
	catchUp      bool
	broadcasts   int
	sent         int // distinct regions sent
	compared     int
	withLeader   int // regions sent whose leader is known to the leader PD
	excluded     map[string]int
	dropped      int // regions sent and later merged away on the leader (not compared)
	saveFaults   int // region saves of the follower that were made to fail
	staleStored  int // regions compared whose latest save on the follower failed
	exLeader     int // regions the follower held from its time as leader (with a raft term)
	restarted    bool
	behind       uint64 // leader restart: how far the new leader's next index is behind the follower's
	reused       int    // broadcasts after the restart that lie entirely below the follower's old index
	maxBytes     int    // largest single response
	rejected     string // the follower kept re-requesting the same index
	neverSent    int    // regions held by the leader at connect time and never sent to the fresh follower
	restartedAt0 bool   // the leader's change log started at index 0 although it held regions
}

// prefillExLeader fills the follower's cache the way a former leader's cache looks: regions built
// from heartbeats (raft term > 0), same id/range/peers/epoch as the new leader's initial regions,
// but with the leader on another voter and other flow statistics.
func prefillExLeader(bc *core.BasicCluster, st *state, c SCase) int {
	every := c.ExEvery
	if every < 1 {
		every = 1
	}
	n := 0
	for i, r := range st.cur {
		if i%every != c.ExOff%every {
			continue
		}
		meta := r.info.Clone().GetMeta()
		var voters []*metapb.Peer
		pos := -1
		for _, p := range meta.GetPeers() {
			if p.GetRole() != metapb.PeerRole_Learner {
				if r.info.GetLeader() != nil && p.GetId() == r.info.GetLeader().GetId() {
					pos = len(voters)
				}
				voters = append(voters, p)
			}
		}
		if len(voters) == 0 {
			voters = meta.GetPeers()
		}
		old := core.RegionFromHeartbeat(&pdpb.RegionHeartbeatRequest{
			Region: meta, Leader: voters[(pos+1)%len(voters)], Term: c.ExTerm,
			BytesWritten: uint64(i) + 11, KeysWritten: uint64(i) + 12, BytesRead: uint64(i) + 13, KeysRead: uint64(i) + 14,
			ApproximateSize: 10 << 20, ApproximateKeys: 1000,
		})
		bc.PutRegion(old)
		n++
	}
	return n
}

func (r *syncResult) firstDiff(field string) string {
	for _, d := range r.diffs {
		if field == "" || d.field == field {
			return fmt.Sprintf("region %d %s: %s", d.id, d.field, d.detail)
		}
	}
	return "none"
}

func peerStr(p *metapb.Peer) string {
	if p == nil {
		return "none"
	}
	return fmt.Sprintf("peer %d on store %d", p.GetId(), p.GetStoreId())
}

func peersStr(ps []*metapb.Peer) string {
	s := ""
	for _, p := range ps {
		s += fmt.Sprintf("{%d s%d %v}", p.GetId(), p.GetStoreId(), p.GetRole())
	}
	return s
}

func execSync(c SCase, excludeKnown bool) (res syncResult) {
	res.excluded = map[string]int{}
	hist := c.HistIdx
	if c.HistPlusN {
		hist += uint64(len(c.Regions))
	}
	reconnect := c.Reconnect
	if reconnect && !c.RegionStorage && excludeKnown && vkit.Known(keyReloadLeaders) {
		// known finding: a follower without region storage reloads every region, leaderless and
		// without flow, when it starts syncing again. Trigger class excluded: no second start.
		reconnect = false
		res.excluded[keyReloadLeaders]++
	}
	if c.TargetBytes > 0 && c.PadRecords > 0 {
		target := c.TargetBytes
		if target > 7<<20 && c.PadRecords <= 100 {
			// a batch is 100 regions: above 8 MiB only with regions of > 84 KB each (keys > 42 KB),
			// which is outside what is generated
			target = 7 << 20
		}
		if target > 7<<20 && excludeKnown && vkit.Known(keyOverMsgSize) {
			// known finding: a response is bounded by a record count only; beyond msgSize (8 MiB) it is
			// never delivered. Trigger class excluded: the largest response stays below msgSize.
			target = 7 << 20
			res.excluded[keyOverMsgSize]++
		}
		if c.KeyPad = (target/c.PadRecords - perRecord) / 2; c.KeyPad < 0 {
			c.KeyPad = 0
		}
	}
	fx, err := newFixtureOpt(hist, c.RegionStorage, false, 0, c.Enc)
	if err != nil {
		res.inconclusive = "fixture: " + err.Error()
		return
	}
	defer fx.close()
	st := newState(fx.leaderSrv.bc, c.Regions, c.KeyPad)
	defer func() {
		fx.mu.Lock()
		rejected := fx.rejected
		for _, m := range fx.msgs {
			if m.bytes > res.maxBytes {
				res.maxBytes = m.bytes
			}
		}
		fx.mu.Unlock()
		res.rejected = rejected
		if res.maxBytes > msgSize && excludeKnown && vkit.Known(keyOverMsgSize) {
			res.inconclusive = fmt.Sprintf("a response of %d bytes exceeds msgSize: outside what the syncer can deliver", res.maxBytes)
			return
		}
		if rejected != "" {
			// not a time-out: the stream errors again and again inside the supported size envelope
			res.inconclusive = ""
			res.diffs = append(res.diffs, diff{0, "stream", rejected})
		}
	}()
	bulk := func(where string) []Change {
		if c.BulkWhere != where || c.Bulk <= 0 || len(c.BulkBodies) == 0 {
			return nil
		}
		out := make([]Change, 0, c.Bulk)
		for j := 0; j < c.Bulk; j++ {
			b := c.BulkBodies[j%len(c.BulkBodies)]
			b.Flow[0] = uint64(j)
			out = append(out, Change{Kind: "flow", Pick: j, Body: b})
		}
		return out
	}
	if c.ExTerm > 0 {
		res.exLeader = prefillExLeader(fx.followerSrv.bc, st, c)
	}

	report := func(chs []Change) int {
		n := 0
		for _, ch := range chs {
			for _, r := range st.apply(ch) {
				fx.notifier <- r
				n++
			}
		}
		return n
	}
	leaderIdx := hist
	leaderAt := func(n int) bool {
		leaderIdx += uint64(n)
		want := leaderIdx
		return waitFor(func() bool { return fx.leader.VerifNextIndex() == want })
	}
	phase := func(name string, t *tap, chs []Change) bool {
		fx.mu.Lock()
		before := t.post
		fx.mu.Unlock()
		fx.arm(c.Faults, name)
		n := report(chs)
		if n == 0 {
			return true
		}
		leaderIdx += uint64(n)
		if !waitFor(func() bool {
			fx.mu.Lock()
			defer fx.mu.Unlock()
			return t.post >= before+n
		}) {
			res.inconclusive = name + ": the leader did not broadcast the reported regions in time"
			return false
		}
		if !fx.waitFollower(t) {
			res.inconclusive = name + ": the follower did not reach the leader's index in time"
			return false
		}
		return true
	}

	// changes before the follower connects
	preRecords := report(c.Pre) + report(bulk("pre"))
	if !leaderAt(preRecords) {
		res.inconclusive = "pre: the leader did not record the reported regions in time"
		return
	}
	// what the leader holds when the fresh follower (empty cache, index 0) connects
	heldAtConnect := make([]uint64, 0, len(st.want))
	for id := range st.want {
		heldAtConnect = append(heldAtConnect, id)
	}
	sort.Slice(heldAtConnect, func(i, j int) bool { return heldAtConnect[i] < heldAtConnect[j] })
	fx.arm(c.Faults, "initial")
	fx.startFollower()
	t := fx.waitBound(0)
	if t == nil {
		res.inconclusive = "connect: the sync stream was not established in time"
		return
	}
	if !fx.waitFollower(t) {
		res.inconclusive = "initial synchronisation: the follower did not apply the messages sent in time"
		return
	}
	if !phase("post", t, c.Post) {
		return
	}
	if reconnect {
		fx.mu.Lock()
		t.dead = true
		fx.mu.Unlock()
		fx.follower.StopSyncWithLeader()
		offline := [][]Change{c.Offline, bulk("offline")}
		if len(c.Offline) > 0 && excludeKnown && vkit.Known(keyUnbind) {
			// known finding: a broadcast that fails on the old stream removes whatever stream is bound
			// under the member's name when it finishes, i.e. the new one if the follower reconnected
			// meanwhile. Trigger class excluded: the follower reconnects only after the leader has
			// dropped the old stream. The leader's Sync call has returned => the next send on the old
			// stream fails => the first broadcast drops it; RunServer is sequential, so once it has
			// recorded the regions of a second burst the first broadcast (and the removal) is over.
			res.excluded[keyUnbind]++
			select {
			case <-t.done:
			case <-time.After(waitLimit):
				res.inconclusive = "offline: the leader did not finish the old stream in time"
				return
			}
			offline = [][]Change{c.Offline[:1], c.Offline[1:], bulk("offline")}
		}
		for _, chs := range offline {
			if n := report(chs); !leaderAt(n) {
				res.inconclusive = "offline: the leader did not record the reported regions in time"
				return
			}
		}
		if len(offline) == 3 && len(offline[1]) == 0 && len(offline[2]) == 0 {
			// a single change: nothing later to observe; wait for the send to return, then a moment
			old := t
			waitFor(func() bool { fx.mu.Lock(); defer fx.mu.Unlock(); return old.sending == 0 })
			time.Sleep(5 * time.Millisecond)
		}
		fx.arm(c.Faults, "reconnect")
		fx.startFollower()
		if t = fx.waitBound(1); t == nil {
			res.inconclusive = "reconnect: the sync stream was not established in time"
			return
		}
		if !fx.waitFollower(t) {
			res.inconclusive = "reconnect: the follower did not apply the messages sent in time"
			return
		}
		if !phase("post2", t, c.Post2) {
			return
		}
	}
	if c.LeaderRestart {
		if !phase("before-restart", t, c.BeforeRestart) {
			return
		}
		nTaps := func() int { fx.mu.Lock(); defer fx.mu.Unlock(); return len(fx.taps) }
		k := nTaps()
		f0 := fx.follower.VerifNextIndex()
		if err := fx.restartLeader(); err != nil {
			res.inconclusive = "leader restart: " + err.Error()
			return
		}
		l0 := fx.leader.VerifNextIndex()
		res.restarted = true
		if f0 > l0 {
			res.behind = f0 - l0
		}
		// the follower notices the broken stream and opens a new one by itself
		if t = fx.waitBound(k); t == nil {
			res.inconclusive = "leader restart: the follower did not re-establish the sync stream in time"
			return
		}
		if !fx.waitFollower(t) {
			res.inconclusive = "leader restart: the follower did not apply the messages sent in time"
			return
		}
		// one broadcast per change, so that the first ones re-use indexes the follower has seen
		total := 0
		for _, ch := range c.AfterRestart {
			fx.mu.Lock()
			before := t.post
			fx.mu.Unlock()
			n := report([]Change{ch})
			if n == 0 {
				continue
			}
			if l0+uint64(total+n) <= f0 {
				res.reused++
			}
			total += n
			if !waitFor(func() bool { fx.mu.Lock(); defer fx.mu.Unlock(); return t.post >= before+n }) {
				res.inconclusive = "after-restart: the leader did not broadcast the reported regions in time"
				return
			}
		}
		if total > 0 {
			// The follower rewinds to the start index of a broadcast that does not match its own and
			// records every region: after the last broadcast its next index is that message's end.
			// (If that happens to be the index it had before, fall back to counting applied regions.)
			fx.mu.Lock()
			last := t.last
			fx.mu.Unlock()
			want := last.start + uint64(len(last.ids))
			ok := false
			if want == f0 || fx.faulty && len(fx.failAt) > 0 {
				ok = fx.waitFollower(t)
			} else {
				ok = waitFor(func() bool { return fx.follower.VerifNextIndex() == want })
			}
			if !ok {
				res.inconclusive = "after-restart: the follower did not reach the leader's index in time"
				return
			}
		}
	}
	// Every wait above ended with the follower's next index equal to the index after the last message
	// sent to it, which is the leader's next index (except right after a full synchronisation, which
	// leaves the follower at the number of regions received until the first broadcast).
	fx.mu.Lock()
	msgs := append([]*msg(nil), fx.msgs...)
	fx.mu.Unlock()

	// ---- oracle: every region sent is, on the follower, what the leader holds
	lastMsg := map[uint64]*msg{}
	for _, m := range msgs {
		if m.pre && m.stream == 0 && len(m.ids) > 0 {
			res.fullBatches++
		}
		if !m.pre && len(m.ids) > 0 {
			res.broadcasts++
		}
		if m.pre && m.stream > 0 && len(m.ids) > 0 {
			res.catchUp = true
		}
		for _, id := range m.ids {
			lastMsg[id] = m
		}
	}
	res.restartedAt0 = hist == 0 && len(c.Regions) > 0
	ids := make([]uint64, 0, len(lastMsg))
	for id := range lastMsg {
		ids = append(ids, id)
	}
	sort.Slice(ids, func(i, j int) bool { return ids[i] < ids[j] })
	res.sent = len(ids)
	for _, id := range ids {
		want := st.want[id]
		if want == nil {
			res.dropped++
			continue
		}
		res.compared++
		if want.GetLeader() != nil {
			res.withLeader++
		}
		got := fx.followerSrv.bc.GetRegion(id)
		if got == nil {
			res.diffs = append(res.diffs, diff{id, "missing", "the follower does not hold the region"})
			continue
		}
		if !bytes.Equal(got.GetStartKey(), want.GetStartKey()) || !bytes.Equal(got.GetEndKey(), want.GetEndKey()) {
			res.diffs = append(res.diffs, diff{id, "range", fmt.Sprintf("follower [%q,%q), leader [%q,%q)", got.GetStartKey(), got.GetEndKey(), want.GetStartKey(), want.GetEndKey())})
		}
		if peersStr(got.GetMeta().GetPeers()) != peersStr(want.GetMeta().GetPeers()) {
			res.diffs = append(res.diffs, diff{id, "peers", fmt.Sprintf("follower %s, leader %s", peersStr(got.GetMeta().GetPeers()), peersStr(want.GetMeta().GetPeers()))})
		}
		m := lastMsg[id]
		skipLeader := false
		if excludeKnown && m.pre && m.ord >= 2 && vkit.Known(keyFullSyncLeaders) {
			// known finding: full synchronisation pairs the regions of batch >= 2 with the leaders of
			// batch 1. Trigger class excluded: leaders are compared for the first batch only.
			skipLeader = true
			res.excluded[keyFullSyncLeaders]++
		}
		if !skipLeader {
			gl, wl := got.GetLeader(), want.GetLeader()
			if (gl == nil) != (wl == nil) || gl.GetId() != wl.GetId() || gl.GetStoreId() != wl.GetStoreId() {
				res.diffs = append(res.diffs, diff{id, "leader", fmt.Sprintf("follower %s, leader %s (region last sent in %s)", peerStr(gl), peerStr(wl), m.describe())})
			}
		}
		gf := [4]uint64{got.GetBytesWritten(), got.GetKeysWritten(), got.GetBytesRead(), got.GetKeysRead()}
		wf := [4]uint64{want.GetBytesWritten(), want.GetKeysWritten(), want.GetBytesRead(), want.GetKeysRead()}
		if gf != wf {
			res.diffs = append(res.diffs, diff{id, "flow", fmt.Sprintf("follower written/read bytes,keys %v, leader %v (region last sent in %s)", gf, wf, m.describe())})
		}
		// The follower's storage: every region applied is saved; a failed save leaves the storage as it
		// was (and the region out of the change log), nothing more is promised for it. So the storage
		// must hold the leader's meta for every region whose most recent save did not fail.
		if fx.faulty {
			fx.mu.Lock()
			lastFailed := fx.lastSaveFailed[id]
			fx.mu.Unlock()
			if lastFailed {
				res.staleStored++
				continue
			}
			stored := &metapb.Region{}
			ok, err := fx.followerSrv.storage.LoadRegion(id, stored)
			if err != nil || !ok {
				res.diffs = append(res.diffs, diff{id, "storage", fmt.Sprintf("the follower's storage does not hold the region although its last save succeeded (ok=%v err=%v)", ok, err)})
			} else if stored.String() != want.GetMeta().String() {
				res.diffs = append(res.diffs, diff{id, "storage", fmt.Sprintf("the follower's storage holds %s, leader %s", stored.String(), want.GetMeta().String())})
			}
		}
	}
	fx.mu.Lock()
	res.saveFaults = len(fx.failed)
	fx.mu.Unlock()
	// The follower connects with an empty change log (index 0): it has nothing yet, so it has to be
	// given every region the leader holds at that moment, whatever the leader's change log holds
	// (a leader restarted before the first flush of its index is at 0, or at p < 100 after p new
	// records, with a cache full of regions loaded from its storage).
	if len(heldAtConnect) > 0 {
		if hist == 0 && excludeKnown && vkit.Known(keyIndex0) {
			// known finding: such a follower is told it is in sync / is sent the p records only.
			// Trigger class excluded: only what was sent is compared.
			res.excluded[keyIndex0]++
		} else {
			for _, id := range heldAtConnect {
				if lastMsg[id] == nil && st.want[id] != nil && fx.followerSrv.bc.GetRegion(id) == nil {
					res.neverSent++
					res.diffs = append(res.diffs, diff{id, "never-sent", fmt.Sprintf("the leader held the region when the follower (index 0) connected (the leader's change log then: next index %d after %d new records) and never sent it: the follower does not hold it", hist+uint64(preRecords), preRecords)})
				}
			}
		}
	}
	return
}

func (m *msg) describe() string {
	kind := "a broadcast"
	if m.pre {
		kind = fmt.Sprintf("message %d of the initial synchronisation", m.ord)
	}
	return fmt.Sprintf("%s on stream %d: start index %d, %d regions, %d leaders, %d stats", kind, m.stream, m.start, len(m.ids), m.leaders, m.stats)
}

func runSync(c SCase) (vkit.Info, error) {
	var info vkit.Info
	res := execSync(c, true)
	for _, k := range []string{keyFullSyncLeaders, keyReloadLeaders, keyUnbind, keyOverMsgSize, keyIndex0} {
		if res.excluded[k] > 0 {
			info.Exclude(k)
		}
	}
	n := len(c.Regions)
	info.Class(fmt.Sprintf("size=%d", n))
	if res.inconclusive != "" {
		info.Inconclusive = true
		info.Class("inconclusive:" + res.inconclusive)
		return info, nil
	}
	if len(res.diffs) > 0 {
		return info, fmt.Errorf("%d regions sent, %d compared, %d differences; first: %s", res.sent, res.compared, len(res.diffs), res.firstDiff(""))
	}
	full := res.fullBatches > 0
	info.ClassIf(full, "full-sync")
	info.ClassIf(full && res.fullBatches > 1, fmt.Sprintf("full-sync-batches=%d", res.fullBatches))
	info.ClassIf(res.catchUp, "history-catch-up")
	info.ClassIf(res.restartedAt0 && len(c.Pre) == 0, "leader-at-index-0-with-regions")
	info.ClassIf(res.restartedAt0 && len(c.Pre) > 0 && len(c.Pre) < 100, "leader-at-index-0-with-regions+p<100-records")
	info.ClassIf(res.broadcasts > 0, "broadcast")
	info.ClassIf(c.Reconnect && res.excluded[keyReloadLeaders] == 0, "reconnect")
	info.ClassIf(res.sent == 0, "nothing-sent")
	info.ClassIf(res.dropped > 0, "merged-away")
	info.ClassIf(!c.RegionStorage, "follower-default-storage")
	info.ClassIf(res.saveFaults > 0, "follower-save-fault")
	info.ClassIf(c.Enc%4 != 0, "follower-encryption-at-rest")
	info.ClassIf(res.exLeader > 0, fmt.Sprintf("ex-leader-follower-term=%d", c.ExTerm))
	info.ClassIf(res.restarted, "leader-restart")
	switch {
	case res.maxBytes > msgSize:
		info.Class("largest-response>8MiB")
	case res.maxBytes >= 4<<20:
		info.Class("largest-response=4-8MiB")
	case res.maxBytes >= 1<<20:
		info.Class("largest-response=1-4MiB")
	case res.maxBytes >= 64<<10:
		info.Class("largest-response=64KiB-1MiB")
	}
	info.ClassIf(c.Bulk >= 1000, "follower-behind>=1000-records")
	info.ClassIf(c.TargetBytes > msgSize && c.PadRecords > 100, "catch-up-backlog>8MiB")
	info.ClassIf(res.restarted && res.behind == 0, "leader-restart-index-behind=0")
	info.ClassIf(res.restarted && res.behind > 0 && res.behind <= 100, "leader-restart-index-behind=1..100")
	info.ClassIf(res.restarted && res.behind > 100, "leader-restart-index-unrelated")
	info.ClassIf(res.reused > 0, "leader-restart-reused-index-broadcast")
	info.ClassIf(res.saveFaults > 1, "follower-save-faults>1")
	info.ClassIf(res.staleStored > 0, "follower-storage-behind")
	known := 0
	for _, r := range c.Regions {
		if r.Leader >= 0 {
			known++
		}
	}
	switch {
	case n == 0:
	case known == 0:
		info.Class("initial-leaders=none")
	case known == n:
		info.Class("initial-leaders=all")
	default:
		info.Class("initial-leaders=mixed")
	}
	switch {
	case res.compared == 0:
	case res.withLeader == 0:
		info.Class("leaders=none")
	case res.withLeader == res.compared:
		info.Class("leaders=all")
	default:
		info.Class("leaders=mixed")
	}
	info.NonTrivial = full && res.fullBatches > 1 && res.withLeader > 0
	h := fnv.New64a()
	fmt.Fprintf(h, "%+v", c)
	info.Sample = map[string]interface{}{"regions": n, "hist": c.HistIdx, "hist_plus_n": c.HistPlusN, "pre": len(c.Pre), "post": len(c.Post),
		"reconnect": c.Reconnect, "offline": len(c.Offline), "post2": len(c.Post2), "region_storage": c.RegionStorage, "enc": c.Enc, "save_faults": res.saveFaults, "ex_leader_regions": res.exLeader, "ex_term": c.ExTerm, "key_pad": c.KeyPad, "bulk": c.Bulk, "bulk_where": c.BulkWhere, "largest_response": res.maxBytes, "leader_restart": c.LeaderRestart, "before_restart": len(c.BeforeRestart), "after_restart": len(c.AfterRestart),
		"full_sync_batches": res.fullBatches, "regions_sent": res.sent, "with_leader": res.withLeader, "case_fnv64": fmt.Sprintf("%016x", h.Sum64())}
	return info, nil
}
