// C17 — persisted stores and regions are loaded back completely and pruned
// consistently.
//
// Round-trip property: generated histories of save / overwrite / delete (stores
// with weights, regions) are applied to the real core.Storage on top of
// {memory kv, memory kv behind a byte budget, leveldb region storage, etcd kv}
// and to a plain map model. A full load (LoadStores / LoadRegions) must return
// every live item exactly once with its last saved content and nothing that was
// never saved. On the leveldb region storage the model also tracks the unflushed
// batch, so that after flush / close / "crash" the allowed content is known.
// Pruning: LoadRegions(Once) with BasicCluster.CheckAndPutRegion, afterwards
// storage == cache, pairwise non-overlapping, nothing fresh lost.
package c17

import (
	"bytes"
	"context"
	"fmt"
	"math"
	"os"
	"path/filepath"
	"sort"
	"strings"
	"sync"
	"sync/atomic"
	"testing"
	"time"

	"github.com/gogo/protobuf/proto"
	"github.com/pingcap/kvproto/pkg/encryptionpb"
	"github.com/pingcap/kvproto/pkg/metapb"
	"github.com/tikv/pd/server/core"
	"github.com/tikv/pd/server/encryptionkm"
	"github.com/tikv/pd/server/kv"
	"go.etcd.io/etcd/clientv3"
	"pdverif/vkit"
	"pdverif/vkit/etcdfix"
	"pdverif/vkit/faultkv"
	"pgregory.net/rapid"
)

const keyMaxID = "C17/load-id-maxuint64"

// keyRetry: after a pruning load that failed because the removal of an overlapped
// leftover failed, the retry runs into the cache filled by the failed attempt; two
// overlapping leftovers with equal versions then evict each other and both are
// removed from storage while one stays in the cache.
const keyRetry = "C17/retry-after-failed-overlap-delete"

// keyRotate: a key rotation (SetLeadership / tick) whose save of the key dictionary
// fails has already changed the dictionary the key manager serves: regions are then
// encrypted with a data key that was never persisted.
const keyRotate = "C17/rotation-save-failure-serves-unpersisted-key"

// keyRead: LeveldbKV.LoadRange ignores the iterator's error: a read fault of the
// region storage ends the load early and the load reports success.
const keyRead = "C17/leveldb-read-fault-reported-as-complete-load"

func TestMain(m *testing.M)   { vkit.MainWith(m, "C17", encCleanup) }
func TestProp(t *testing.T)   { vkit.RunAll(t) }
func TestReplay(t *testing.T) { vkit.RunReplay(t) }

func init() {
	vkit.Register("stores", vkit.N{Quick: 600, Thorough: 14000}, genStoreCase, runStoreCase)
	vkit.Register("regions", vkit.N{Quick: 900, Thorough: 26000}, genRegionCase, runRegionCase)
	vkit.Register("bulk", vkit.N{Quick: 8, Thorough: 64}, genBulkCase, runRegionCase)
	vkit.Register("sized", vkit.N{Quick: 8, Thorough: 64}, genSizedCase, runRegionCase)
}

// ---------------------------------------------------------------- id pools

// IDSpec describes the pool of ids of a case: pool index i -> id.
type IDSpec struct {
	Mode   string   `json:"mode"` // dense, sparse, top, mixed, random
	Base   uint64   `json:"base,omitempty"`
	Stride uint64   `json:"stride,omitempty"`
	Top    uint64   `json:"top,omitempty"`
	Rand   []uint64 `json:"rand,omitempty"`
}

func (s IDSpec) id(i int) (uint64, bool) {
	u := uint64(i)
	switch s.Mode {
	case "dense":
		return s.Base + u, true
	case "sparse":
		return s.Base + u*s.Stride, true
	case "top":
		return s.Top - u*s.Stride, true
	case "mixed":
		if i%2 == 0 {
			return 1 + u/2, true
		}
		return s.Top - u/2, true
	case "random":
		if i < len(s.Rand) {
			return s.Rand[i], true
		}
		return 0, false
	}
	return 0, false
}

const topZone = uint64(1) << 20

func isTop(id uint64) bool { return id >= math.MaxUint64-topZone }

// pick draws an element of xs with (nearly) equal probability. rapid's integer
// generators and SampledFrom favour small values / early elements heavily (a
// third of all draws hit the first element of a 24-element list), which is
// wanted for shrinking but starves the page-boundary counts; single bits are
// drawn uniformly, and all-zero still shrinks to the first element.
func pick[T any](t *rapid.T, label string, xs []T) T {
	bits := 3
	for n := len(xs) - 1; n > 0; n >>= 1 {
		bits++
	}
	v := 0
	for i := 0; i < bits; i++ {
		v <<= 1
		if rapid.Bool().Draw(t, label) {
			v |= 1
		}
	}
	return xs[v%len(xs)]
}

// genIDs draws an id pool spec for at most pool ids. small: explicit random ids allowed.
func genIDs(t *rapid.T, pool int, small bool) (IDSpec, bool) {
	top := uint64(math.MaxUint64)
	excl := false
	if vkit.Known(keyMaxID) {
		top--
		excl = true
	}
	modes := []string{"dense", "dense", "sparse", "sparse", "top", "top", "mixed"}
	if small {
		modes = append(modes, "random", "random")
	}
	s := IDSpec{Mode: pick(t, "idMode", modes)}
	switch s.Mode {
	case "dense":
		s.Base = rapid.SampledFrom([]uint64{1, 1, 2, 100, 1000, 1<<32 - 50, 1<<63 - 50, 9999999999999999950, 99999999999999950}).Draw(t, "base")
		excl = false
	case "sparse":
		s.Base = rapid.SampledFrom([]uint64{1, 5, 1000}).Draw(t, "base")
		s.Stride = rapid.SampledFrom([]uint64{2, 3, 10, 1000, 1 << 20, 1 << 32, 1 << 48}).Draw(t, "stride")
		excl = false
	case "top":
		s.Top = top
		s.Stride = rapid.SampledFrom([]uint64{1, 1, 2, 1000}).Draw(t, "stride")
	case "mixed":
		s.Top = top
	case "random":
		n := pool
		s.Rand = rapid.SliceOfNDistinct(rapid.Uint64Range(1, top), n, n, rapid.ID[uint64]).Draw(t, "ids")
		excl = false // the bound is lowered, but the value would be hit with negligible probability anyway
	}
	return s, excl
}

// ---------------------------------------------------------------- stores: case

type SBody struct {
	A    int `json:"a"`              // address variant
	St   int `json:"st"`             // state
	NL   int `json:"nl"`             // number of labels
	Same int `json:"same,omitempty"` // overwrite: 1 = save the very object handed to pd last time again
}

type SOp struct {
	K    string  `json:"k"` // new, over, del, weight, check
	Pick int     `json:"pick,omitempty"`
	B    SBody   `json:"b"`
	LW   float64 `json:"lw,omitempty"`
	RW   float64 `json:"rw,omitempty"`
}

type SWeight struct {
	Idx int     `json:"i"`
	LW  float64 `json:"lw"`
	RW  float64 `json:"rw"`
}

type SCase struct {
	Backend string    `json:"backend"` // mem, etcd
	IDs     IDSpec    `json:"ids"`
	N       int       `json:"n"`
	InitW   []SWeight `json:"initw,omitempty"`
	Ops     []SOp     `json:"ops"`
	ExclMax bool      `json:"exclmax,omitempty"`
}

var storeCounts = []int{0, 1, 2, 50, 99, 100, 101, 150, 199, 200, 201, 250, 299, 300, 301, 350}

func genWeight(t *rapid.T, label string) float64 {
	if rapid.IntRange(0, 2).Draw(t, label+"Kind") == 0 {
		return rapid.Float64Range(0, 1e6).Draw(t, label)
	}
	return rapid.SampledFrom([]float64{0, 0.5, 1, 2, 0.001, 3.14159, 100, 1e10, 1e-7, 0.1}).Draw(t, label)
}

func genStoreCase(t *rapid.T) SCase {
	var c SCase
	c.Backend = "mem"
	if vkit.Thorough() && rapid.IntRange(0, 39).Draw(t, "etcd") == 0 {
		c.Backend = "etcd"
	}
	c.N = pick(t, "n", storeCounts)
	if c.Backend == "etcd" {
		c.N = rapid.SampledFrom([]int{0, 1, 99, 100, 101, 199, 200, 201}).Draw(t, "nEtcd")
	}
	nOps := rapid.IntRange(0, 14).Draw(t, "nOps")
	news := 0
	for i := 0; i < nOps; i++ {
		var op SOp
		op.K = pick(t, "kind", []string{"new", "new", "new", "over", "over", "over", "del", "del", "del", "weight", "weight", "weight", "check"})
		op.Pick = rapid.IntRange(0, 1000).Draw(t, "pick")
		switch op.K {
		case "new", "over":
			op.B = SBody{A: rapid.IntRange(0, 9).Draw(t, "a"), St: rapid.IntRange(0, 2).Draw(t, "st"), NL: rapid.IntRange(0, 3).Draw(t, "nl"),
				Same: pick(t, "same", []int{0, 0, 1})}
			if op.K == "new" {
				news++
			}
		case "weight":
			op.LW, op.RW = genWeight(t, "lw"), genWeight(t, "rw")
		}
		c.Ops = append(c.Ops, op)
	}
	c.IDs, c.ExclMax = genIDs(t, c.N+news, true)
	if c.N > 0 {
		nw := rapid.IntRange(0, 4).Draw(t, "nInitW")
		for i := 0; i < nw; i++ {
			c.InitW = append(c.InitW, SWeight{Idx: rapid.IntRange(0, c.N-1).Draw(t, "wIdx"), LW: genWeight(t, "ilw"), RW: genWeight(t, "irw")})
		}
	}
	return c
}

// ---------------------------------------------------------------- stores: runner

func buildStore(id uint64, seq int, b SBody) *metapb.Store {
	s := &metapb.Store{
		Id:            id,
		Address:       fmt.Sprintf("tikv-%d-%d:20160", b.A, seq),
		State:         metapb.StoreState(b.St % 3),
		Version:       "4.0.0",
		LastHeartbeat: int64(seq) * 1000,
	}
	for i := 0; i < b.NL; i++ {
		s.Labels = append(s.Labels, &metapb.StoreLabel{Key: []string{"zone", "rack", "host"}[i], Value: fmt.Sprintf("v%d", (b.A+i)%4)})
	}
	return s
}

type weights struct{ lw, rw float64 }

func runStoreCase(c SCase) (info vkit.Info, err error) {
	defer dedupe(&info)
	if c.ExclMax {
		info.Exclude(keyMaxID)
	}
	info.Class("backend=" + c.Backend)
	info.Class("ids=" + c.IDs.Mode)
	var base kv.Base
	switch c.Backend {
	case "mem":
		base = kv.NewMemoryKV()
	case "etcd":
		cl, err := getEtcd()
		if err != nil {
			info.Inconclusive = true
			info.Class("etcd-unavailable")
			return info, nil
		}
		base = kv.NewEtcdKVBase(cl, nextRoot())
	default:
		return info, fmt.Errorf("bad backend %q", c.Backend)
	}
	fk := faultkv.New(base)
	fk.KeepLog = true
	st := core.NewStorage(fk)

	live := map[uint64]*metapb.Store{} // id -> last saved meta
	wts := map[uint64]weights{}        // id -> saved weights (never reset by a store save)
	var liveIdx []int                  // pool indices of live stores, ascending
	nextPool, seq := 0, 0
	multiPage, hasTop := false, false

	// heldS: the objects handed to SaveStore (pd's cache owns them); the model keeps its own copies
	heldS := map[uint64]*metapb.Store{}
	saveStore := func(obj *metapb.Store) error {
		want := proto.Clone(obj).(*metapb.Store)
		if err := st.SaveStore(obj); err != nil {
			return err
		}
		if !proto.Equal(obj, want) {
			return fmt.Errorf("SaveStore modified the caller's store object: before %v, after %v", want, obj)
		}
		live[want.GetId()] = want
		heldS[want.GetId()] = obj
		return nil
	}
	saveNew := func(b SBody) (uint64, error) {
		id, ok := c.IDs.id(nextPool)
		if !ok {
			return 0, nil
		}
		seq++
		if err := saveStore(buildStore(id, seq, b)); err != nil {
			return 0, err
		}
		liveIdx = append(liveIdx, nextPool)
		nextPool++
		if isTop(id) {
			hasTop = true
		}
		return id, nil
	}
	check := func(when string) error {
		fk.TakeLog()
		var got []*core.StoreInfo
		if err := st.LoadStores(func(s *core.StoreInfo) { got = append(got, s) }); err != nil {
			return fmt.Errorf("%s: LoadStores failed: %v", when, err)
		}
		ranges := 0
		for _, e := range fk.TakeLog() {
			if e.Kind == "range" {
				ranges++
			}
		}
		if ranges >= 2 {
			multiPage = true
		}
		seen := map[uint64]bool{}
		for i, s := range got {
			id := s.GetID()
			if seen[id] {
				return fmt.Errorf("%s: store %d returned more than once by LoadStores (position %d of %d)", when, id, i, len(got))
			}
			seen[id] = true
			want, ok := live[id]
			if !ok {
				return fmt.Errorf("%s: LoadStores returned store %d which is not a live saved store (never saved or deleted)", when, id)
			}
			if !proto.Equal(s.GetMeta(), want) {
				return fmt.Errorf("%s: store %d loaded as %v, last saved %v", when, id, s.GetMeta(), want)
			}
			w, ok := wts[id]
			if !ok {
				w = weights{1, 1}
			}
			if s.GetLeaderWeight() != w.lw || s.GetRegionWeight() != w.rw {
				return fmt.Errorf("%s: store %d loaded with weights (%v,%v), saved (%v,%v)", when, id, s.GetLeaderWeight(), s.GetRegionWeight(), w.lw, w.rw)
			}
		}
		if len(got) != len(live) {
			for _, pi := range liveIdx {
				id, _ := c.IDs.id(pi)
				if !seen[id] {
					return fmt.Errorf("%s: live store %d (pool index %d) not returned by LoadStores: %d returned, %d live", when, id, pi, len(got), len(live))
				}
			}
			return fmt.Errorf("%s: %d stores returned, %d live", when, len(got), len(live))
		}
		return nil
	}

	for i := 0; i < c.N; i++ {
		if _, err := saveNew(SBody{A: i % 7, St: i % 3, NL: i % 4}); err != nil {
			return info, fmt.Errorf("initial save %d: %v", i, err)
		}
	}
	for _, w := range c.InitW {
		if w.Idx >= c.N {
			continue
		}
		id, _ := c.IDs.id(w.Idx)
		if err := st.SaveStoreWeight(id, w.LW, w.RW); err != nil {
			return info, fmt.Errorf("initial weight: %v", err)
		}
		wts[id] = weights{w.LW, w.RW}
	}
	if err := check(fmt.Sprintf("after initial %d stores", c.N)); err != nil {
		return info, err
	}
	for i, op := range c.Ops {
		when := fmt.Sprintf("after op %d (%s)", i, op.K)
		switch op.K {
		case "new":
			if _, err := saveNew(op.B); err != nil {
				return info, fmt.Errorf("op %d: %v", i, err)
			}
		case "over":
			if len(liveIdx) == 0 {
				continue
			}
			id, _ := c.IDs.id(liveIdx[op.Pick%len(liveIdx)])
			if h := heldS[id]; op.B.Same == 1 && h != nil {
				if !proto.Equal(h, live[id]) {
					return info, fmt.Errorf("op %d: the store object handed to SaveStore earlier has been modified: saved as %v, now %v", i, live[id], h)
				}
				if err := saveStore(h); err != nil {
					return info, fmt.Errorf("op %d: %v", i, err)
				}
				info.Class("resave-same-object")
			} else {
				seq++
				if err := saveStore(buildStore(id, seq, op.B)); err != nil {
					return info, fmt.Errorf("op %d: %v", i, err)
				}
			}
			info.Class("overwrite")
		case "del":
			if len(liveIdx) == 0 {
				continue
			}
			k := op.Pick % len(liveIdx)
			id, _ := c.IDs.id(liveIdx[k])
			if err := st.DeleteStore(&metapb.Store{Id: id}); err != nil {
				return info, fmt.Errorf("op %d: %v", i, err)
			}
			delete(live, id)
			delete(heldS, id)
			liveIdx = append(liveIdx[:k:k], liveIdx[k+1:]...)
			info.Class("delete")
		case "weight":
			if len(liveIdx) == 0 {
				continue
			}
			id, _ := c.IDs.id(liveIdx[op.Pick%len(liveIdx)])
			if err := st.SaveStoreWeight(id, op.LW, op.RW); err != nil {
				return info, fmt.Errorf("op %d: %v", i, err)
			}
			wts[id] = weights{op.LW, op.RW}
			info.Class("weight")
		case "check":
		}
		last := i == len(c.Ops)-1
		if op.K == "check" || last || i%3 == 2 {
			if err := check(when); err != nil {
				return info, err
			}
		}
	}
	info.ClassIf(multiPage, "multi-page")
	info.ClassIf(hasTop, "top-of-range-ids")
	info.NonTrivial = multiPage || hasTop
	return info, nil
}

// ---------------------------------------------------------------- regions: case

type RBody struct {
	S    int    `json:"s"`    // start slot
	Span int    `json:"span"` // end slot = S+Span
	V    uint64 `json:"v"`    // epoch version
	C    uint64 `json:"c"`    // epoch conf_ver
	P    int    `json:"p"`    // peers
	Keep bool   `json:"keep,omitempty"`
	Same int    `json:"same,omitempty"` // overwrite: 1 = re-save the very object that was handed to pd last time, unchanged; 2 = a clone of that object with conf_ver+1
}

type ROp struct {
	K    string `json:"k"` // new, over, del, delabs, resave, flush, reopen, crash, check, faultflush, faultfill, rekey, standby, takeover
	Pick int    `json:"pick,omitempty"`
	B    RBody  `json:"b"`
	Rk   *Rekey `json:"rk,omitempty"`
}

// Rekey: pd is restarted with another data-encryption-method (a new key manager over
// the same etcd), becomes leader (SetLeadership) with a fault on the save of the key
// dictionary, and goes on saving regions with that key manager whatever was returned.
type Rekey struct {
	Method int    `json:"m"`               // 0 off, 1..3 aes128/192/256-ctr
	Fault  string `json:"f,omitempty"`     // "", failbefore, lostack, notleader
	Retry  bool   `json:"retry,omitempty"` // SetLeadership once more without fault (the next campaign)
}

type BigSlot struct {
	Slot int `json:"slot"`
	Pad  int `json:"pad"`
}

type RCase struct {
	Backend string    `json:"backend"` // mem, budget, leveldb, etcd
	IDs     IDSpec    `json:"ids"`
	N       int       `json:"n"`
	Slots   int       `json:"slots"`
	VMixed  bool      `json:"vmixed,omitempty"`
	Big     []BigSlot `json:"big,omitempty"`
	KeyPad  int       `json:"keypad,omitempty"` // every key is padded by KeyPad/2 .. KeyPad*3/2 bytes (by slot)
	Ops     []ROp     `json:"ops"`
	BudgetW int       `json:"budgetw,omitempty"` // budget = heaviest window of this many consecutive items
	Slack   int       `json:"slack,omitempty"`
	Prune   bool      `json:"prune,omitempty"`
	Enc     int       `json:"enc,omitempty"` // encryption at rest: 0 off, 1..3 aes128/192/256-ctr
	Load    LoadPlan  `json:"load"`
	ExclMax bool      `json:"exclmax,omitempty"`
}

// LoadPlan: how the pruning load (LoadRegionsOnce, the entry point of
// LoadClusterInfo and of the region syncer) is driven.
type LoadPlan struct {
	// Fault makes the first call fail part-way; it is retried with the fault gone.
	//  delete : leveldb, the removal of an overlapped/stale leftover fails (handle closed underneath)
	//  corrupt: leveldb, one stored record cannot be decoded (restored before the retry)
	//  range  : memory kv, LoadRange fails from the At-th call on until the page size is exhausted
	//  read   : leveldb, the handle is closed underneath before the call (every read fails)
	Fault string `json:"fault,omitempty"`
	At    int    `json:"at,omitempty"`
	Conc  int    `json:"conc,omitempty"` // leveldb: this many goroutines call LoadRegionsOnce together
}

func genLoadPlan(t *rapid.T, backend string) LoadPlan {
	var p LoadPlan
	switch backend {
	case "leveldb":
		switch pick(t, "loadPlan", []string{"", "", "delete", "delete", "corrupt", "corrupt", "conc", "conc", "read"}) {
		case "read":
			p.Fault = "read"
		case "delete":
			p.Fault = "delete"
		case "corrupt":
			p.Fault = "corrupt"
		case "conc":
			p.Conc = pick(t, "conc", []int{2, 3})
		}
	case "mem", "budget":
		if pick(t, "loadPlan", []bool{true, false, false}) {
			p.Fault = "range"
		}
	}
	if p.Fault != "" {
		p.At = rapid.IntRange(0, 400).Draw(t, "faultAt")
	}
	return p
}

var (
	regionCounts = []int{0, 1, 2, 50, 99, 100, 101, 199, 200, 201, 350}
	budgetCounts = []int{0, 1, 99, 100, 101, 155, 156, 157, 199, 200, 201, 311, 312, 313, 313, 350, 350, 467, 468, 469, 469, 624, 625, 626, 626, 700, 700}
	bulkCounts   = []int{9999, 10000, 10001, 10150, 5000, 5001, 12500}
)

func genRBody(t *rapid.T, slots int) RBody {
	return RBody{
		S:    rapid.IntRange(0, slots-1).Draw(t, "s"),
		Span: rapid.SampledFrom([]int{1, 1, 1, 2, 2, 3, 5}).Draw(t, "span"),
		V:    uint64(rapid.IntRange(1, 4).Draw(t, "v")),
		C:    uint64(rapid.IntRange(1, 3).Draw(t, "c")),
		P:    rapid.IntRange(1, 3).Draw(t, "p"),
		Keep: rapid.Bool().Draw(t, "keep"),
		Same: pick(t, "same", []int{0, 0, 1, 2}),
	}
}

func genROps(t *rapid.T, c *RCase, maxOps int) int {
	kinds := []string{"new", "new", "new", "new", "over", "over", "over", "del", "del", "del", "delabs", "resave", "check"}
	if c.Backend == "leveldb" {
		kinds = append(kinds, "flush", "flush", "reopen", "crash", "crash", "faultflush", "faultflush", "faultfill")
	}
	if c.Backend != "etcd" {
		kinds = append(kinds, "rekey", "rekey")
	}
	if c.Backend == "mem" || c.Backend == "budget" {
		// two members over one etcd and one shared region storage
		kinds = append(kinds, "standby", "takeover", "takeover")
	}
	nOps := rapid.IntRange(0, maxOps).Draw(t, "nOps")
	news := 0
	for i := 0; i < nOps; i++ {
		op := ROp{K: pick(t, "kind", kinds), Pick: rapid.IntRange(0, 1000).Draw(t, "pick")}
		switch op.K {
		case "standby":
			op.Rk = &Rekey{Method: pick(t, "sbMethod", []int{0, 1, 2, 3})}
		case "takeover":
			op.Rk = &Rekey{Fault: pick(t, "toFault", []string{"", "", "failbefore", "lostack", "notleader"}),
				Retry: pick(t, "toRetry", []bool{false, false, true})}
		case "rekey":
			op.Rk = &Rekey{Method: pick(t, "rkMethod", []int{0, 1, 2, 3, 1, 3}),
				Fault: pick(t, "rkFault", []string{"", "failbefore", "failbefore", "lostack", "notleader"}),
				Retry: pick(t, "rkRetry", []bool{false, false, true})}
		case "new", "over", "resave", "faultfill":
			op.B = genRBody(t, c.Slots)
			if op.K == "new" {
				news++
			}
		}
		c.Ops = append(c.Ops, op)
	}
	if (c.Backend == "mem" || c.Backend == "budget") && maxOps >= 10 && pick(t, "twoMembers", []bool{true, false, false}) {
		// a second member starts, the leader rotates its data key and saves, the second member takes over
		script := []ROp{
			{K: "standby", Rk: &Rekey{Method: pick(t, "sbMethod", []int{0, 1, 2, 3})}},
			{K: "rekey", Rk: &Rekey{Method: pick(t, "rkMethod", []int{1, 2, 3})}},
			{K: "new", B: genRBody(t, c.Slots)},
			{K: "takeover", Rk: &Rekey{}},
		}
		news++
		at := rapid.IntRange(0, len(c.Ops)).Draw(t, "scriptAt")
		ops := append([]ROp(nil), c.Ops[:at]...)
		ops = append(ops, script...)
		c.Ops = append(ops, c.Ops[at:]...)
	}
	return news
}

func genBig(t *rapid.T, c *RCase) {
	if rapid.IntRange(0, 2).Draw(t, "hasBig") != 0 {
		return
	}
	n := rapid.IntRange(1, 3).Draw(t, "nBig")
	for i := 0; i < n; i++ {
		c.Big = append(c.Big, BigSlot{Slot: rapid.IntRange(1, c.Slots).Draw(t, "bigSlot"),
			Pad: rapid.SampledFrom([]int{100, 1000, 5000, 20000}).Draw(t, "pad")})
	}
}

func genRegionCase(t *rapid.T) RCase {
	var c RCase
	backs := []string{"mem", "mem", "budget", "budget", "budget", "leveldb", "leveldb", "leveldb", "leveldb"}
	c.Backend = pick(t, "backend", backs)
	if vkit.Thorough() && rapid.IntRange(0, 49).Draw(t, "etcd") == 0 {
		c.Backend = "etcd"
	}
	switch c.Backend {
	case "budget":
		c.N = pick(t, "n", budgetCounts)
		c.BudgetW = pick(t, "budgetW", []int{156, 156, 312, 625})
		c.Slack = rapid.SampledFrom([]int{0, 0, 1, 500}).Draw(t, "slack")
	case "etcd":
		c.N = rapid.SampledFrom([]int{0, 1, 50, 101, 201}).Draw(t, "n")
	default:
		c.N = pick(t, "n", regionCounts)
	}
	c.Slots = c.N + rapid.IntRange(0, 3).Draw(t, "extraSlots")
	if c.Slots < 4 {
		c.Slots = 4
	}
	c.VMixed = rapid.Bool().Draw(t, "vmixed")
	genBig(t, &c)
	news := genROps(t, &c, 20)
	c.IDs, c.ExclMax = genIDs(t, c.N+news, true)
	if c.Backend == "budget" && c.N >= 200 && pick(t, "lateBig", []bool{true, true, true, false}) {
		// a heavy item late in the id order: the first pages fit a larger page size, a later one does not,
		// so the page size is halved after part of the regions has been processed
		lo := 2*c.BudgetW + 1
		if lo > c.N-1 {
			lo = c.N - 1
		}
		if lo < c.N/2 {
			lo = c.N / 2
		}
		slot := rapid.IntRange(lo, c.N).Draw(t, "lateSlot")
		if c.IDs.Mode == "top" {
			slot = c.N - slot // ids descend with the pool index: late in id order = early slots
			if slot < 1 {
				slot = 1
			}
		}
		c.Big = append(c.Big, BigSlot{Slot: slot, Pad: pick(t, "latePad", []int{20000, 40000})})
	}
	c.Enc = pick(t, "enc", []int{0, 0, 0, 1, 2, 3})
	c.Prune = rapid.IntRange(0, 3).Draw(t, "prune") != 0
	if c.Prune {
		c.Load = genLoadPlan(t, c.Backend)
	}
	return c
}

func genBulkCase(t *rapid.T) RCase {
	var c RCase
	c.Backend = pick(t, "backend", []string{"mem", "mem", "mem", "budget", "leveldb"})
	c.N = pick(t, "n", bulkCounts)
	if c.Backend == "budget" {
		c.BudgetW = rapid.SampledFrom([]int{1250, 2500, 5000}).Draw(t, "budgetW")
		c.Slack = rapid.SampledFrom([]int{0, 1}).Draw(t, "slack")
	}
	c.Slots = c.N + 2
	c.VMixed = rapid.Bool().Draw(t, "vmixed")
	genBig(t, &c)
	news := genROps(t, &c, 6)
	c.IDs, c.ExclMax = genIDs(t, c.N+news, false)
	c.Enc = pick(t, "enc", []int{0, 0, 1, 3})
	c.Prune = rapid.Bool().Draw(t, "prune")
	if c.Prune {
		c.Load = genLoadPlan(t, c.Backend)
	}
	return c
}

// sizedShapes: (regions, key pad) for the leveldb size dimension; the bytes of the
// first full page (up to 10000 records of key + marshalled meta, two keys per record)
// land below 1 MiB, between 1 and 4 MiB, and above 4 MiB.
var sizedShapes = [][2]int{
	{900, 64}, {2200, 64}, // < 1 MiB
	{5000, 100}, {3000, 400}, {3000, 600}, {5000, 300}, // 1-4 MiB
	{2200, 1024}, {3000, 1024}, {5000, 500}, {2100, 2048}, {3000, 2048}, {1500, 3000}, {10050, 250}, {2500, 1024}, {4000, 700}, {2050, 1100}, // > 4 MiB
}

// genSizedCase: leveldb region storage with thousands of regions whose keys are
// long enough that one page of the load is a few MiB.
func genSizedCase(t *rapid.T) RCase {
	var c RCase
	c.Backend = "leveldb"
	sh := pick(t, "shape", sizedShapes)
	c.N, c.KeyPad = sh[0], sh[1]
	c.Slots = c.N + 2
	c.VMixed = rapid.Bool().Draw(t, "vmixed")
	news := genROps(t, &c, 4)
	c.IDs, c.ExclMax = genIDs(t, c.N+news, false)
	c.Enc = pick(t, "enc", []int{0, 0, 0, 2})
	c.Prune = rapid.Bool().Draw(t, "prune")
	return c
}

// ---------------------------------------------------------------- regions: fixture

func slotKey(c *RCase, slot int, isEnd bool) []byte {
	if slot <= 0 && !isEnd {
		return []byte{}
	}
	if slot >= c.Slots {
		if isEnd {
			return []byte{}
		}
		slot = c.Slots - 1
	}
	k := fmt.Sprintf("k%07d", slot)
	for _, b := range c.Big {
		if b.Slot == slot {
			return []byte(k + strings.Repeat("p", b.Pad))
		}
	}
	if c.KeyPad > 0 {
		k += strings.Repeat("q", c.KeyPad/2+(slot*7919)%(c.KeyPad+1))
	}
	return []byte(k)
}

func buildRegion(c *RCase, id uint64, seq int, b RBody) *metapb.Region {
	s := b.S
	if s < 0 {
		s = 0
	}
	if s > c.Slots-1 {
		s = c.Slots - 1
	}
	span := b.Span
	if span < 1 {
		span = 1
	}
	r := &metapb.Region{
		Id:          id,
		StartKey:    slotKey(c, s, false),
		EndKey:      slotKey(c, s+span, true),
		RegionEpoch: &metapb.RegionEpoch{ConfVer: b.C, Version: b.V},
	}
	p := b.P
	if p < 1 {
		p = 1
	}
	for k := 0; k < p; k++ {
		// peer ids carry the save sequence number: every saved version is distinguishable
		r.Peers = append(r.Peers, &metapb.Peer{Id: uint64(seq)*8 + uint64(k) + 1, StoreId: uint64(k) + 1})
	}
	return r
}

type rfix struct {
	km      *encryptionkm.KeyManager
	backend string
	fk      *faultkv.KV
	rs      *core.RegionStorage
	dir     string
}

func tmpBase() string {
	if fi, err := os.Stat("/dev/shm"); err == nil && fi.IsDir() {
		return "/dev/shm"
	}
	return os.TempDir()
}

func (f *rfix) openRS() error {
	// The context is cancelled at once: it only drives the background flush
	// goroutine (a timer that calls FlushRegion 3 s after the last save). Flushes
	// are explicit operations of the history, so that the case stays a pure
	// function of its data.
	ctx, cancel := context.WithCancel(context.Background())
	rs, err := core.NewRegionStorage(ctx, f.dir, f.km)
	cancel()
	if err != nil {
		return err
	}
	f.rs = rs
	return nil
}

// storage returns a fresh core.Storage over the fixture (Storage is stateless but
// for the "regions loaded once" flag, which must be new for every LoadRegionsOnce).
func (f *rfix) storage() *core.Storage { return f.storageWith(f.km) }

// storageWith: the same storage seen through another key manager (a restarted pd).
func (f *rfix) storageWith(km *encryptionkm.KeyManager) *core.Storage {
	if f.backend == "leveldb" {
		st := core.NewStorage(f.fk, core.WithRegionStorage(f.rs), core.WithEncryptionKeyManager(km))
		st.SwitchToRegionStorage()
		return st
	}
	return core.NewStorage(f.fk, core.WithEncryptionKeyManager(km))
}

func (f *rfix) cleanup() {
	if f.rs != nil {
		f.rs.Close()
		f.rs = nil
	}
	if f.dir != "" {
		os.RemoveAll(f.dir)
	}
}

// ---------------------------------------------------------------- regions: model + runner

type rmodel struct {
	leveldb bool
	vers    map[uint64][]*metapb.Region // every version ever saved, in order
	live    map[uint64]*metapb.Region   // last saved and not deleted
	disk    map[uint64]*metapb.Region   // predicted durable content
	batch   map[uint64]*metapb.Region   // leveldb: unflushed saves
	cnt     int                         // leveldb: saves since the last flush
	// doubt: a SaveRegion that returned an error (the automatic flush it triggered
	// failed) is not acknowledged: the version may or may not become durable. It is
	// the last operation on that id (a later save or delete clears it).
	doubt map[uint64]*metapb.Region
	// delKeepsBatch: the behaviour recorded as finding keyDelBatch (a delete does not purge the batch)
	delKeepsBatch bool
}

func (m *rmodel) flush() {
	for id, r := range m.batch {
		m.disk[id] = r
	}
	m.batch = map[uint64]*metapb.Region{}
	m.cnt = 0
}

// saveFailed: SaveRegion returned an error. What the code does: the region is in
// the batch, the counter is unchanged, the flush is retried by the next save/flush.
func (m *rmodel) saveFailed(r *metapb.Region) {
	id := r.GetId()
	m.vers[id] = append(m.vers[id], r)
	m.batch[id] = r
	m.doubt[id] = r
}

func (m *rmodel) save(r *metapb.Region) {
	id := r.GetId()
	m.vers[id] = append(m.vers[id], r)
	m.live[id] = r
	delete(m.doubt, id)
	if !m.leveldb {
		m.disk[id] = r
		return
	}
	m.batch[id] = r
	m.cnt++
	if m.cnt == 100 { // defaultBatchSize: the 100th save since the last flush writes the batch out
		m.flush()
	}
}

// keyDelBatch (owned by C06): while it is known, Storage.DeleteRegion on the region
// storage leaves a still-buffered save of the id in the batch, and the next flush
// writes the region back (a leftover, pruned by the next load). Once repaired, a
// delete also cancels the buffered save: save, delete, flush => not returned.
const keyDelBatch = "C06/region-storage-delete-ignores-unflushed-save"

func (m *rmodel) del(id uint64) {
	delete(m.live, id)
	delete(m.doubt, id)
	delete(m.disk, id)
	if !m.delKeepsBatch {
		delete(m.batch, id) // the buffered save is cancelled too (the flush counter is not touched)
	}
}

func (m *rmodel) versionOf(r *metapb.Region) int {
	for i, v := range m.vers[r.GetId()] {
		if proto.Equal(v, r) {
			return i
		}
	}
	return -1
}

func sortedIDs(m map[uint64]*metapb.Region) []uint64 {
	ids := make([]uint64, 0, len(m))
	for id := range m {
		ids = append(ids, id)
	}
	sort.Slice(ids, func(i, j int) bool { return ids[i] < ids[j] })
	return ids
}

func cutb(b []byte) []byte {
	if len(b) > 16 {
		return b[:16]
	}
	return b
}

func short(r *metapb.Region) string {
	if r == nil {
		return "<nil>"
	}
	cut := func(b []byte) string {
		if len(b) > 12 {
			return fmt.Sprintf("%s..(%d bytes)", b[:12], len(b))
		}
		return string(b)
	}
	return fmt.Sprintf("{id %d [%q,%q) ver %d conf %d peers %d firstPeer %d}", r.GetId(), cut(r.GetStartKey()), cut(r.GetEndKey()),
		r.GetRegionEpoch().GetVersion(), r.GetRegionEpoch().GetConfVer(), len(r.GetPeers()), r.GetPeers()[0].GetId())
}

func runRegionCase(c RCase) (info vkit.Info, err error) {
	defer dedupe(&info)
	if c.ExclMax {
		info.Exclude(keyMaxID)
	}
	info.Class("backend=" + c.Backend)
	info.Class("ids=" + c.IDs.Mode)
	if c.Slots < 1 {
		return info, fmt.Errorf("bad case: slots %d", c.Slots)
	}
	f := &rfix{backend: c.Backend}
	defer f.cleanup()
	usesEnc := c.Enc > 0
	for _, op := range c.Ops {
		if (op.K == "rekey" || op.K == "standby" || op.K == "takeover") && op.Rk != nil {
			usesEnc = true
		}
	}
	var ev *encEnv
	if usesEnc {
		var e error
		if ev, e = getEnv(); e != nil || ev == nil {
			info.Inconclusive = true
			info.Class("key-manager-unavailable")
			return info, nil
		}
		if e := ev.resetKeys(); e != nil {
			info.Inconclusive = true
			return info, nil
		}
	}
	if c.Enc > 0 {
		enc := c.Enc
		if enc > 3 {
			enc = 3
		}
		km, e := ev.newKM(enc)
		if e == nil {
			e = ev.setLeadership(km, "")
		}
		if e != nil {
			info.Inconclusive = true
			info.Class("key-manager-unavailable")
			return info, nil
		}
		f.km = km
		info.Class("encryption=" + encMethods[enc])
	}
	switch c.Backend {
	case "mem", "budget", "leveldb":
		f.fk = faultkv.New(kv.NewMemoryKV())
	case "etcd":
		cl, e := getEtcd()
		if e != nil {
			info.Inconclusive = true
			info.Class("etcd-unavailable")
			return info, nil
		}
		f.fk = faultkv.New(kv.NewEtcdKVBase(cl, nextRoot()))
	default:
		return info, fmt.Errorf("bad backend %q", c.Backend)
	}
	f.fk.KeepLog = c.Backend != "leveldb"
	if c.Backend == "leveldb" {
		d, e := os.MkdirTemp(tmpBase(), "c17-ldb-")
		if e != nil {
			info.Inconclusive = true
			return info, nil
		}
		f.dir = d
		if e := f.openRS(); e != nil {
			return info, fmt.Errorf("cannot open region storage: %v", e)
		}
	}
	m := &rmodel{leveldb: c.Backend == "leveldb", vers: map[uint64][]*metapb.Region{}, live: map[uint64]*metapb.Region{},
		disk: map[uint64]*metapb.Region{}, batch: map[uint64]*metapb.Region{}, doubt: map[uint64]*metapb.Region{},
		delKeepsBatch: vkit.Known(keyDelBatch)}
	st := f.storage()

	var liveIdx, deadIdx []int // pool indices; liveIdx ascending by time of (re)insertion, deadIdx = deleted/lost
	nextPool, seq := 0, 0
	multiPage, halved, halvedLate, hasTop, leftoverSeen := false, false, false, false, false
	pruned := 0

	removeIdx := func(s []int, k int) []int { return append(s[:k:k], s[k+1:]...) }
	indexOf := func(s []int, v int) int {
		for i, x := range s {
			if x == v {
				return i
			}
		}
		return -1
	}
	poolOf := map[uint64]int{} // id -> pool index
	held := map[uint64]*metapb.Region{}
	keyOf := map[uint64]uint64{}       // region id -> id of the data key of its last acknowledged save
	var other *encryptionkm.KeyManager // the second member's key manager (no background loop: it can be stale)
	otherMethod, leaderMethod := 0, c.Enc
	// promote: an unacknowledged save turned out durable: it is the current version now
	promote := func(id uint64, r *metapb.Region) {
		if _, wasLive := m.live[id]; !wasLive {
			pi := poolOf[id]
			if k := indexOf(deadIdx, pi); k >= 0 {
				deadIdx = removeIdx(deadIdx, k)
			}
			liveIdx = append(liveIdx, pi)
		}
		m.live[id] = r
		m.disk[id] = r
		delete(m.doubt, id)
		delete(held, id)
	}
	// breakDB makes every leveldb write fail (the handle is closed underneath);
	// healDB installs a working handle on the same directory.
	breakDB := func() error { return f.rs.LeveldbKV.DB.Close() }
	healDB := func() error {
		h, e := kv.NewLeveldbKV(f.dir)
		if e != nil {
			return e
		}
		f.rs.LeveldbKV = h
		return nil
	}
	// held: the object handed to pd by the last acknowledged SaveRegion of an id (pd's
	// cache owns such objects and saves them again); the model keeps its own copies and
	// never compares a load with an object pd has seen.
	// saveObj hands obj to SaveRegion. want is the model's own copy of the same content,
	// made before the call. Saving is read-only for the caller.
	saveObj := func(obj, want *metapb.Region) error {
		id := want.GetId()
		if !proto.Equal(obj, want) {
			return fmt.Errorf("harness: object to save %s differs from the model copy %s before the call", short(obj), short(want))
		}
		if e := st.SaveRegion(obj); e != nil {
			return e
		}
		if !proto.Equal(obj, want) {
			return fmt.Errorf("SaveRegion modified the caller's region object: before the call %s, after it %s (keys %x|%x -> %x|%x)", short(want), short(obj), cutb(want.StartKey), cutb(want.EndKey), cutb(obj.StartKey), cutb(obj.EndKey))
		}
		m.save(want)
		held[id] = obj
		keyOf[id] = 0
		if f.km != nil {
			if kid, _, e := f.km.GetCurrentKey(); e == nil {
				keyOf[id] = kid // the data key this record was encrypted with (0: plaintext)
			}
		}
		if isTop(id) {
			hasTop = true
		}
		return nil
	}
	// checkKeys: every data key a stored live region was encrypted with must be in the
	// dictionary a brand-new key manager loads from etcd.
	checkKeys := func(when string) error {
		if ev == nil {
			return nil
		}
		var fresh *encryptionkm.KeyManager
		done := map[uint64]bool{}
		for _, id := range sortedIDs(m.live) {
			kid := keyOf[id]
			if kid == 0 || done[kid] {
				continue
			}
			done[kid] = true
			if fresh == nil {
				var e error
				if fresh, e = ev.newKM(0); e != nil {
					return fmt.Errorf("%s: a brand-new key manager cannot be created from etcd: %v", when, e)
				}
			}
			if _, e := fresh.GetKey(kid); e != nil {
				return fmt.Errorf("%s: region %d (and maybe others) was saved under data key %d, which is no longer in the key dictionary stored in etcd: %v", when, id, kid, e)
			}
		}
		return nil
	}
	save := func(id uint64, b RBody) error {
		seq++
		obj := buildRegion(&c, id, seq, b)
		return saveObj(obj, proto.Clone(obj).(*metapb.Region))
	}
	// checkHeld: after a flush / close the objects pd was given are still what they were
	checkHeld := func(when string) error {
		for _, id := range sortedIDs(held) {
			want, ok := m.live[id]
			if !ok {
				continue
			}
			if !proto.Equal(held[id], want) {
				return fmt.Errorf("%s: the region object handed to SaveRegion earlier has been modified: saved as %s, now %s (keys %x|%x -> %x|%x)", when, short(want), short(held[id]), cutb(want.StartKey), cutb(want.EndKey), cutb(held[id].StartKey), cutb(held[id].EndKey))
			}
		}
		return nil
	}

	// setBudget: the byte budget (the simulated message size limit) is derived from
	// what is stored at that moment: the heaviest window of BudgetW consecutive (by
	// key) items, so that a page of BudgetW items always fits and larger pages fail
	// whenever they are heavier. For the pruning load, which removes items while it
	// iterates (windows shift), the BudgetW heaviest items are taken instead.
	setBudget := func(pruning bool) {
		if c.Backend != "budget" {
			return
		}
		w := c.BudgetW
		if w < 156 {
			w = 156
		}
		dump := faultkv.Dump(f.fk.Base())
		keys := make([]string, 0, len(dump))
		for k := range dump {
			if strings.HasPrefix(k, "raft/r/") {
				keys = append(keys, k)
			}
		}
		sort.Strings(keys)
		sizes := make([]int, len(keys))
		for i, k := range keys {
			sizes[i] = len(k) + len(dump[k])
		}
		best := 0
		if pruning {
			sort.Sort(sort.Reverse(sort.IntSlice(sizes)))
			for i := 0; i < len(sizes) && i < w; i++ {
				best += sizes[i]
			}
		} else {
			sum := 0
			for i := range sizes {
				sum += sizes[i]
				if i >= w {
					sum -= sizes[i-w]
				}
				if sum > best {
					best = sum
				}
			}
		}
		f.fk.RangeBytes = best + c.Slack
		if f.fk.RangeBytes <= 0 {
			f.fk.RangeBytes = 1
		}
	}

	// load performs a full load with a collecting callback.
	load := func(when string) ([]*metapb.Region, error) {
		setBudget(false)
		f.fk.TakeLog()
		var got []*metapb.Region
		lst := f.storage()
		if usesEnc {
			// end to end: the full load is done as a restarted pd would do it, with a
			// brand-new key manager that knows only what is in etcd
			fresh, e := ev.newKM(0)
			if e != nil {
				return nil, fmt.Errorf("%s: a brand-new key manager cannot be created from etcd: %v", when, e)
			}
			lst = f.storageWith(fresh)
		}
		e := lst.LoadRegions(func(ri *core.RegionInfo) []*core.RegionInfo {
			got = append(got, ri.GetMeta())
			return nil
		})
		if e != nil {
			return nil, fmt.Errorf("%s: LoadRegions failed (%d regions returned before the error): %v", when, len(got), e)
		}
		if f.fk.KeepLog {
			lims := rangeLimits(f.fk.TakeLog())
			if len(lims) >= 2 {
				multiPage = multiPage || pagesAfterHalving(lims) >= 2
				if lims[len(lims)-1] < 10000 {
					halved = true
				}
				for i := 2; i < len(lims); i++ {
					// two calls with the same limit: the first one succeeded; then a smaller limit: halved after progress
					if lims[i] < lims[i-1] && lims[i-1] == lims[i-2] {
						halvedLate = true
					}
				}
			}
		} else if len(got) >= 10000 {
			multiPage = true
		}
		return got, nil
	}

	// verify compares a load with the model. Live items: exactly once, last saved
	// content. Items that are not live: never on the default backends; on the
	// region storage only the predicted leftover (saved, deleted while the save
	// was unflushed, flushed afterwards).
	verify := func(when string, got []*metapb.Region) error {
		seen := make(map[uint64]bool, len(got))
		for i, g := range got {
			id := g.GetId()
			if seen[id] {
				return fmt.Errorf("%s: region %d returned more than once by a full load (position %d of %d)", when, id, i, len(got))
			}
			seen[id] = true
			if len(m.vers[id]) == 0 {
				return fmt.Errorf("%s: load returned region %s which was never saved", when, short(g))
			}
			d, inDoubt := m.doubt[id]
			if want, ok := m.live[id]; ok {
				switch {
				case proto.Equal(g, want):
					if inDoubt { // the unacknowledged save did not become durable: allowed
						m.disk[id] = want
						delete(m.doubt, id)
					}
				case inDoubt && proto.Equal(g, d):
					promote(id, d)
				default:
					return fmt.Errorf("%s: region %d loaded as %s (saved version #%d of %d), last acknowledged save %s", when, id, short(g), m.versionOf(g), len(m.vers[id]), short(want))
				}
				continue
			}
			if inDoubt && proto.Equal(g, d) {
				promote(id, d)
				continue
			}
			if !m.leveldb {
				return fmt.Errorf("%s: deleted region %s returned by a full load", when, short(g))
			}
			pred, ok := m.disk[id]
			if !ok {
				return fmt.Errorf("%s: deleted region %s returned by a full load although no save of it was unflushed when it was deleted", when, short(g))
			}
			if !proto.Equal(g, pred) {
				return fmt.Errorf("%s: leftover of deleted region %d loaded as %s (saved version #%d), expected the unflushed version %s", when, id, short(g), m.versionOf(g), short(pred))
			}
			leftoverSeen = true
		}
		for _, id := range sortedIDs(m.live) {
			if !seen[id] {
				return fmt.Errorf("%s: live region %s (its save was acknowledged and a later flush/close returned without error) not returned by a full load (%d returned, %d live)", when, short(m.live[id]), len(got), len(m.live))
			}
		}
		for _, id := range sortedIDs(m.doubt) {
			if !seen[id] { // never acknowledged, not durable: allowed
				delete(m.disk, id)
				delete(m.doubt, id)
			}
		}
		return nil
	}
	check := func(when string) error {
		got, e := load(when)
		if e != nil {
			return e
		}
		return verify(when, got)
	}
	// durable: the model state in which everything live is on disk (default backends always; leveldb after flush/close)
	flushAndCheck := func(when string) error {
		if m.leveldb {
			if e := st.Flush(); e != nil {
				return fmt.Errorf("%s: flush failed: %v", when, e)
			}
			m.flush()
			if e := checkHeld(when); e != nil {
				return e
			}
		}
		return check(when)
	}

	for i := 0; i < c.N; i++ {
		id, ok := c.IDs.id(nextPool)
		if !ok {
			break
		}
		v := uint64(2)
		if c.VMixed {
			v = 1 + uint64(i%3)
		}
		if e := save(id, RBody{S: i % c.Slots, Span: 1, V: v, C: 1, P: 1 + i%3}); e != nil {
			return info, fmt.Errorf("initial save %d: %v", i, e)
		}
		poolOf[id] = nextPool
		liveIdx = append(liveIdx, nextPool)
		nextPool++
	}
	if e := flushAndCheck(fmt.Sprintf("after initial %d regions", c.N)); e != nil {
		return info, e
	}

	for i, op := range c.Ops {
		when := fmt.Sprintf("after op %d (%s)", i, op.K)
		needCheck := false
		switch op.K {
		case "new":
			id, ok := c.IDs.id(nextPool)
			if !ok {
				continue
			}
			if e := save(id, op.B); e != nil {
				return info, fmt.Errorf("op %d: %v", i, e)
			}
			poolOf[id] = nextPool
			liveIdx = append(liveIdx, nextPool)
			nextPool++
		case "over":
			if len(liveIdx) == 0 {
				continue
			}
			id, _ := c.IDs.id(liveIdx[op.Pick%len(liveIdx)])
			b := op.B
			h := held[id]
			var e error
			switch {
			case b.Same == 1 && h != nil:
				// the very object pd was given last time is saved again, unchanged
				e = saveObj(h, proto.Clone(m.live[id]).(*metapb.Region))
				info.Class("resave-same-object")
			case b.Same == 2 && h != nil:
				// a clone of the object pd was given, conf_ver + 1 (what the cache does on a conf change)
				obj := proto.Clone(h).(*metapb.Region)
				obj.RegionEpoch.ConfVer++
				want := proto.Clone(m.live[id]).(*metapb.Region)
				want.RegionEpoch.ConfVer++
				e = saveObj(obj, want)
				info.Class("resave-clone-of-saved-object")
			case b.Keep:
				// conf change: same range and version, conf_ver + 1, new peers
				seq++
				want := proto.Clone(m.live[id]).(*metapb.Region)
				want.RegionEpoch.ConfVer++
				want.Peers = nil
				for k := 0; k < b.P || k < 1; k++ {
					want.Peers = append(want.Peers, &metapb.Peer{Id: uint64(seq)*8 + uint64(k) + 1, StoreId: uint64(k) + 1})
				}
				e = saveObj(proto.Clone(want).(*metapb.Region), want)
			default:
				e = save(id, b)
			}
			if e != nil {
				return info, fmt.Errorf("op %d: %v", i, e)
			}
			info.Class("overwrite")
		case "del":
			if len(liveIdx) == 0 {
				continue
			}
			// counted from the most recent save: small picks hit items whose save is still unflushed
			k := len(liveIdx) - 1 - op.Pick%len(liveIdx)
			id, _ := c.IDs.id(liveIdx[k])
			if e := st.DeleteRegion(&metapb.Region{Id: id}); e != nil {
				return info, fmt.Errorf("op %d: %v", i, e)
			}
			delete(held, id)
			if _, unflushed := m.batch[id]; unflushed {
				info.Class("delete-while-unflushed")
			}
			m.del(id)
			deadIdx = append(deadIdx, liveIdx[k])
			liveIdx = removeIdx(liveIdx, k)
			info.Class("delete")
		case "delabs":
			// delete something that is not live: a deleted id (maybe with a leftover) or a never used id
			var id uint64
			if len(deadIdx) > 0 {
				id, _ = c.IDs.id(deadIdx[op.Pick%len(deadIdx)])
			} else {
				var ok bool
				if id, ok = c.IDs.id(nextPool); !ok {
					continue
				}
			}
			if e := st.DeleteRegion(&metapb.Region{Id: id}); e != nil {
				return info, fmt.Errorf("op %d: %v", i, e)
			}
			m.del(id)
		case "resave":
			if len(deadIdx) == 0 {
				continue
			}
			k := op.Pick % len(deadIdx)
			id, _ := c.IDs.id(deadIdx[k])
			if e := save(id, op.B); e != nil {
				return info, fmt.Errorf("op %d: %v", i, e)
			}
			liveIdx = append(liveIdx, deadIdx[k])
			deadIdx = removeIdx(deadIdx, k)
			info.Class("resave-after-delete")
		case "flush":
			if e := flushAndCheck(when); e != nil {
				return info, e
			}
			info.Class("flush")
		case "reopen":
			if !m.leveldb {
				needCheck = true
				break
			}
			if e := st.Close(); e != nil {
				return info, fmt.Errorf("op %d: close failed: %v", i, e)
			}
			f.rs = nil
			m.flush()
			if e := checkHeld(when + ", after Close"); e != nil {
				return info, e
			}
			held = map[uint64]*metapb.Region{} // the process is gone, so is its cache
			if e := f.openRS(); e != nil {
				return info, fmt.Errorf("op %d: reopen failed: %v", i, e)
			}
			st = f.storage()
			info.Class("close-reopen")
			needCheck = true
		case "crash":
			if !m.leveldb {
				needCheck = true
				break
			}
			// stop of the process: the leveldb handle goes away, the unflushed batch is lost
			lost := len(m.batch)
			if e := f.rs.LeveldbKV.Close(); e != nil {
				return info, fmt.Errorf("op %d: closing the leveldb handle failed: %v", i, e)
			}
			f.rs = nil
			m.batch = map[uint64]*metapb.Region{}
			m.doubt = map[uint64]*metapb.Region{}
			held = map[uint64]*metapb.Region{}
			m.cnt = 0
			// after the restart the durable content is what the server knows: an item
			// is absent or holds the version of its last flushed save
			var keep []int
			for _, pi := range liveIdx {
				id, _ := c.IDs.id(pi)
				if d, ok := m.disk[id]; ok {
					m.live[id] = d
					keep = append(keep, pi)
				} else {
					delete(m.live, id)
					deadIdx = append(deadIdx, pi)
				}
			}
			liveIdx = keep
			if e := f.openRS(); e != nil {
				return info, fmt.Errorf("op %d: reopen after crash failed: %v", i, e)
			}
			st = f.storage()
			info.Class("crash")
			info.ClassIf(lost > 0, "crash-lost-unflushed")
			needCheck = true
		case "faultflush":
			// transient storage fault: the leveldb write of a flush fails; afterwards the
			// fault goes away. An error returned = nothing may be lost, the batch stays pending.
			if !m.leveldb {
				break
			}
			if e := breakDB(); e != nil {
				return info, fmt.Errorf("op %d: cannot close the leveldb handle: %v", i, e)
			}
			ferr := st.Flush()
			if e := healDB(); e != nil {
				return info, fmt.Errorf("op %d: cannot reopen leveldb: %v", i, e)
			}
			if ferr == nil {
				// reported as successful: then everything saved must be durable (decided by the next load)
				m.flush()
				info.Class("flush-under-fault-returned-nil")
			}
			info.Class("flush-write-fault")
			info.ClassIf(len(m.batch) > 0, "flush-write-fault-with-pending-batch")
		case "faultfill":
			// the same fault hits the automatic flush of the 100th batched save: saves of
			// live regions go on under the fault until one returns an error (that save is
			// not acknowledged; every earlier acknowledged one must survive).
			if !m.leveldb || len(liveIdx) == 0 {
				break
			}
			if e := breakDB(); e != nil {
				return info, fmt.Errorf("op %d: cannot close the leveldb handle: %v", i, e)
			}
			failed := 0
			extra := 0
			if op.B.Keep {
				extra = 1 // one more save after the first failure: the flush is retried and fails again
			}
			for j := 0; j < 101 && failed <= extra; j++ {
				id, _ := c.IDs.id(liveIdx[(op.Pick+j)%len(liveIdx)])
				old := m.live[id]
				seq++
				r := proto.Clone(old).(*metapb.Region)
				r.RegionEpoch.ConfVer++
				r.Peers = []*metapb.Peer{{Id: uint64(seq)*8 + 1, StoreId: 1}}
				obj := proto.Clone(r).(*metapb.Region)
				e := st.SaveRegion(obj)
				if !proto.Equal(obj, r) {
					return info, fmt.Errorf("op %d: SaveRegion (returned %v) modified the caller's region object: before %s, after %s", i, e, short(r), short(obj))
				}
				if e != nil {
					m.saveFailed(r)
					failed++
					delete(held, id)
				} else {
					m.save(r)
					held[id] = obj
				}
			}
			if e := healDB(); e != nil {
				return info, fmt.Errorf("op %d: cannot reopen leveldb: %v", i, e)
			}
			info.ClassIf(failed > 0, "autoflush-write-fault")
		case "standby":
			// a second member starts now: its key manager loads the dictionary from etcd and
			// has no background loop, so it does not follow later changes
			if op.Rk == nil || ev == nil || m.leveldb {
				break
			}
			mth := op.Rk.Method
			if mth < 0 || mth > 3 {
				mth = 0
			}
			km, e := ev.newKM(mth)
			if e != nil {
				return info, fmt.Errorf("op %d: NewKeyManager(%s) failed: %v", i, encMethods[mth], e)
			}
			other, otherMethod = km, mth
			info.Class("second-member-started")
		case "rekey", "takeover":
			if op.Rk == nil || ev == nil {
				break
			}
			takeover := op.K == "takeover"
			if takeover && (other == nil || m.leveldb) {
				break
			}
			rk := *op.Rk
			if takeover {
				rk.Method = otherMethod
			}
			if rk.Method < 0 || rk.Method > 3 {
				rk.Method = 0
			}
			// pd restarts: the region storage is closed (flushed) first
			if m.leveldb {
				if e := st.Close(); e != nil {
					return info, fmt.Errorf("op %d: close failed: %v", i, e)
				}
				f.rs = nil
				m.flush()
				if e := checkHeld(when + ", after Close"); e != nil {
					return info, e
				}
			}
			held = map[uint64]*metapb.Region{}
			exists, curMethod, e := ev.persisted()
			if e != nil {
				return info, fmt.Errorf("op %d: the key dictionary in etcd cannot be loaded by a brand-new key manager: %v", i, e)
			}
			var km2 *encryptionkm.KeyManager
			if takeover {
				km2 = other // created earlier in the case, possibly stale
			} else if km2, e = ev.newKM(rk.Method); e != nil {
				return info, fmt.Errorf("op %d: NewKeyManager(%s) failed: %v", i, encMethods[rk.Method], e)
			}
			fault := rk.Fault
			saveFails := fault == "failbefore" || fault == "notleader"
			if saveFails && exists && curMethod != rk.Method && vkit.Known(keyRotate) {
				// known finding: exactly this class (the save of a needed rotation over an existing dictionary fails) is left out
				info.Exclude(keyRotate)
				fault, saveFails = "", false
			}
			checkServed := func(what string, serr error) error {
				id, _, e := km2.GetCurrentKey()
				if e != nil {
					return fmt.Errorf("op %d: after %s (returned %v) GetCurrentKey fails: %v", i, what, serr, e)
				}
				if id == 0 {
					return nil
				}
				fresh, e := ev.newKM(0)
				if e != nil {
					return fmt.Errorf("op %d: after %s a brand-new key manager cannot be created from etcd: %v", i, what, e)
				}
				if _, e := fresh.GetKey(id); e != nil {
					return fmt.Errorf("op %d: after %s with method %s over a dictionary with current method %s (returned: %v) the key manager serves current key id %d, which is not in the dictionary stored in etcd (%v): regions saved from now on cannot be decrypted after a restart",
						i, what, encMethods[rk.Method], encMethods[curMethod], serr, id, e)
				}
				return nil
			}
			serr := ev.setLeadership(km2, fault)
			if e := checkServed("SetLeadership with fault '"+fault+"'", serr); e != nil {
				return info, e
			}
			if serr != nil && fault == "" {
				return info, fmt.Errorf("op %d: SetLeadership failed without a fault: %v", i, serr)
			}
			if rk.Retry {
				serr2 := ev.setLeadership(km2, "")
				if serr2 != nil {
					return info, fmt.Errorf("op %d: SetLeadership retried without a fault failed: %v", i, serr2)
				}
				if e := checkServed("the retried SetLeadership", serr2); e != nil {
					return info, e
				}
			}
			if takeover {
				// the former leader stays alive as the second member, with what it knows now
				other, otherMethod = f.km, leaderMethod
				if other == nil {
					otherMethod = 0
				}
				info.Class("takeover")
				info.ClassIf(curMethod != rk.Method, "takeover-rotation-needed")
			}
			f.km, leaderMethod = km2, rk.Method
			if m.leveldb {
				if e := f.openRS(); e != nil {
					return info, fmt.Errorf("op %d: reopen failed: %v", i, e)
				}
			}
			st = f.storage()
			if e := checkKeys(when); e != nil {
				return info, e
			}
			info.ClassIf(!takeover, "rekey")
			info.ClassIf(!takeover && curMethod != rk.Method, "rekey-rotation-needed")
			info.ClassIf(saveFails, "rekey-key-save-failed")
			info.ClassIf(saveFails && curMethod != rk.Method, "rekey-key-save-failed-while-rotation-needed")
			info.ClassIf(fault == "lostack", "rekey-key-save-lost-ack")
			needCheck = true
		case "check":
			needCheck = true
		}
		if needCheck {
			if m.leveldb && (op.K == "check") {
				// an intermediate load without flush: what is on disk is a subset story; only
				// "nothing never saved, nothing twice, content is a saved version" can be stated
				got, e := load(when)
				if e != nil {
					return info, e
				}
				seen := map[uint64]bool{}
				for _, g := range got {
					if seen[g.GetId()] {
						return info, fmt.Errorf("%s: region %d returned more than once", when, g.GetId())
					}
					seen[g.GetId()] = true
					if m.versionOf(g) < 0 {
						return info, fmt.Errorf("%s: load returned %s which is not a saved version", when, short(g))
					}
				}
				for _, id := range sortedIDs(m.disk) {
					if !seen[id] {
						return info, fmt.Errorf("%s: region %d was flushed and not deleted since, but is not returned", when, id)
					}
				}
			} else if e := check(when); e != nil {
				return info, e
			}
		} else if !m.leveldb && (i%4 == 3) && c.N < 2000 {
			if e := check(when); e != nil {
				return info, e
			}
		}
	}
	if e := flushAndCheck("final load"); e != nil {
		return info, e
	}
	pageBytesClass := ""
	if c.KeyPad > 0 {
		// bytes of the first page of that load: up to 10000 records in id order
		ids := sortedIDs(m.disk)
		if len(ids) > 10000 {
			ids = ids[:10000]
		}
		total := 0
		for _, id := range ids {
			total += len("raft/r/") + 20 + m.disk[id].Size()
		}
		switch {
		case total < 1<<20:
			pageBytesClass = "<1MiB"
		case total <= 4<<20:
			pageBytesClass = "1-4MiB"
		default:
			pageBytesClass = ">4MiB"
		}
	}

	// ------------------------------------------------------------ pruning
	if c.Prune {
		pre, e := load("pre-prune load")
		if e != nil {
			return info, e
		}
		bc := core.NewBasicCluster()
		setBudget(true)
		pst := f.storage() // one Storage object for all calls: its "regions loaded once" flag is part of what is tested
		var (
			cbMu      sync.Mutex
			delivered = map[uint64]int{} // deliveries during the current call(s)
			cbCalls   int
			armed     bool // delete fault: close the handle when overlaps are about to be removed
			fired     bool
			returned  int32
			slowFirst bool
		)
		cb := func(r *core.RegionInfo) []*core.RegionInfo {
			cbMu.Lock()
			delivered[r.GetID()]++
			n := cbCalls
			cbCalls++
			wait := slowFirst && n == 0
			cbMu.Unlock()
			if wait {
				// scheduling aid only: give the other callers a chance to return early if they ever do
				for i := 0; i < 30 && atomic.LoadInt32(&returned) == 0; i++ {
					time.Sleep(100 * time.Microsecond)
				}
			}
			ov := bc.CheckAndPutRegion(r)
			if len(ov) > 0 && armed && !fired && n >= c.Load.At%(len(pre)+1) {
				fired = true
				f.rs.LeveldbKV.DB.Close()
			}
			return ov
		}
		resetDelivered := func() {
			cbMu.Lock()
			delivered = map[uint64]int{}
			cbMu.Unlock()
		}
		var firstErr error
		mid := pre // what is stored when the call that returns nil starts
		switch {
		case c.Load.Conc >= 2 && m.leveldb:
			slowFirst = true
			type res struct {
				err error
				ids map[uint64]bool
			}
			out := make([]res, c.Load.Conc)
			var wg sync.WaitGroup
			for g := 0; g < c.Load.Conc; g++ {
				wg.Add(1)
				go func(g int) {
					defer wg.Done()
					err := pst.LoadRegionsOnce(cb)
					ids := map[uint64]bool{}
					for _, r := range bc.GetMetaRegions() {
						ids[r.GetId()] = true
					}
					atomic.AddInt32(&returned, 1)
					out[g] = res{err, ids}
				}(g)
			}
			wg.Wait()
			final := map[uint64]bool{}
			for _, r := range bc.GetMetaRegions() {
				final[r.GetId()] = true
			}
			for g, o := range out {
				if o.err != nil {
					return info, fmt.Errorf("prune: concurrent LoadRegionsOnce call %d of %d failed: %v", g, c.Load.Conc, o.err)
				}
				if len(o.ids) != len(final) {
					return info, fmt.Errorf("prune: concurrent LoadRegionsOnce call %d of %d returned nil while the load was not complete: the cache held %d regions then, %d when all calls had returned", g, c.Load.Conc, len(o.ids), len(final))
				}
				for id := range final {
					if !o.ids[id] {
						return info, fmt.Errorf("prune: concurrent LoadRegionsOnce call %d of %d returned nil while region %d was not loaded yet", g, c.Load.Conc, id)
					}
				}
			}
			info.Class(fmt.Sprintf("load-once-concurrent-%d", c.Load.Conc))
		default:
			var corruptID uint64
			injected := false
			switch {
			case c.Load.Fault == "read" && m.leveldb && vkit.Known(keyRead):
				info.Exclude(keyRead) // known finding: the read fault is left out
			case c.Load.Fault == "read" && m.leveldb:
				// read fault: the call must not report a complete load
				f.rs.LeveldbKV.DB.Close()
				fired, injected = true, true
			case c.Load.Fault == "delete" && m.leveldb:
				armed = true
			case c.Load.Fault == "corrupt" && m.leveldb && len(pre) > 0:
				// one record that cannot be decoded: it carries encryption meta, the storage has no keys
				victim := pre[c.Load.At%len(pre)]
				bad := proto.Clone(victim).(*metapb.Region)
				bad.EncryptionMeta = &encryptionpb.EncryptionMeta{KeyId: 7, Iv: make([]byte, 16)}
				raw, _ := proto.Marshal(bad)
				corruptID = victim.GetId()
				if e := f.rs.LeveldbKV.Save(fmt.Sprintf("raft/r/%020d", corruptID), string(raw)); e != nil {
					return info, fmt.Errorf("prune: cannot inject the bad record: %v", e)
				}
				injected = true
			case c.Load.Fault == "range" && !m.leveldb && c.Backend != "etcd":
				nRange := 0
				at := c.Load.At % 4
				f.fk.SetGate(func(kind, key string) error {
					if kind != "range" {
						return nil
					}
					nRange++
					if nRange > at {
						injected = true
						return faultkv.ErrInjected
					}
					return nil
				})
			}
			firstErr = pst.LoadRegionsOnce(cb)
			// the fault goes away
			if fired {
				if e := healDB(); e != nil {
					return info, fmt.Errorf("prune: cannot reopen leveldb: %v", e)
				}
			}
			if corruptID != 0 {
				good, _ := proto.Marshal(pre[c.Load.At%len(pre)])
				if e := f.rs.LeveldbKV.Save(fmt.Sprintf("raft/r/%020d", corruptID), string(good)); e != nil {
					return info, fmt.Errorf("prune: cannot restore the record: %v", e)
				}
			}
			f.fk.SetGate(nil)
			armed = false
			if firstErr != nil {
				if !fired && !injected {
					return info, fmt.Errorf("prune: LoadRegionsOnce(CheckAndPutRegion) failed without a fault: %v", firstErr)
				}
				info.Class("load-once-failed-then-retried:" + c.Load.Fault)
				// retry on the same Storage: a call that returns nil must have completed the load
				mid, e = load("load between the failed LoadRegionsOnce and its retry")
				if e != nil {
					return info, e
				}
				resetDelivered()
				if e := pst.LoadRegionsOnce(cb); e != nil {
					return info, fmt.Errorf("prune: LoadRegionsOnce retried after the fault (%s) had gone still fails: %v", c.Load.Fault, e)
				}
			}
		}
		post, e := load("post-prune load")
		if e != nil {
			return info, e
		}
		why := ""
		if firstErr != nil {
			why = fmt.Sprintf(" (first LoadRegionsOnce failed on the injected %s fault: %v; the retry returned nil)", c.Load.Fault, firstErr)
		}
		// the call(s) that returned nil delivered every region stored at that time exactly once
		// (a region that the same pass removed from storage before its turn need not be delivered)
		stillStored := make(map[uint64]bool, len(post))
		for _, r := range post {
			stillStored[r.GetId()] = true
		}
		for _, r := range mid {
			n := delivered[r.GetId()]
			if n > 1 || (n == 0 && stillStored[r.GetId()]) {
				return info, fmt.Errorf("prune%s: region %d was stored (and %v afterwards) but was delivered %d times by the LoadRegionsOnce call(s) that returned nil", why, r.GetId(), map[bool]string{true: "still is", false: "is not"}[stillStored[r.GetId()]], n)
			}
		}
		knownRetry := fired && firstErr != nil && vkit.Known(keyRetry)
		if knownRetry {
			// known finding: cache and storage may disagree after this retry; the delivery oracle above still holds
			info.Exclude(keyRetry)
		} else if e := checkPruned(pre, post, bc); e != nil {
			return info, fmt.Errorf("prune%s: %v", why, e)
		}
		for _, id := range sortedCount(delivered) {
			if delivered[id] > 1 {
				return info, fmt.Errorf("prune%s: region %d delivered %d times by the LoadRegionsOnce call(s) that returned nil", why, id, delivered[id])
			}
		}
		pruned = len(pre) - len(post)
		// "once": a further call returns nil and leaves cache and storage as they are
		if e := pst.LoadRegionsOnce(cb); e != nil {
			return info, fmt.Errorf("prune: a further LoadRegionsOnce after a successful one failed: %v", e)
		}
		post2, e := load("load after a second LoadRegionsOnce")
		if e != nil {
			return info, e
		}
		if e := sameRegions(post2, post); e != nil {
			return info, fmt.Errorf("prune: storage changed by a further LoadRegionsOnce: %v", e)
		}
		if !knownRetry {
			if e := sameRegions(bc.GetMetaRegions(), post); e != nil {
				return info, fmt.Errorf("prune: cache and storage differ after a further LoadRegionsOnce: %v", e)
			}
		}
		if m.leveldb {
			// the removals must be durable as well
			if e := st.Close(); e != nil {
				return info, fmt.Errorf("prune: close failed: %v", e)
			}
			f.rs = nil
			if e := f.openRS(); e != nil {
				return info, fmt.Errorf("prune: reopen failed: %v", e)
			}
			again, e := load("post-prune load after close and reopen")
			if e != nil {
				return info, e
			}
			if e := sameRegions(again, post); e != nil {
				return info, fmt.Errorf("prune: storage after close and reopen differs from storage right after the pruning load: %v", e)
			}
		}
	}

	bigPage := false
	if c.KeyPad > 0 {
		info.Class("first-page-bytes:" + pageBytesClass)
		bigPage = pageBytesClass != "<1MiB"
	}
	info.ClassIf(multiPage, "multi-page")
	info.ClassIf(halved, "page-size-halved")
	info.ClassIf(halvedLate, "page-size-halved-after-progress")
	info.ClassIf(hasTop, "top-of-range-ids")
	info.ClassIf(pruned > 0, "pruned>=1")
	info.ClassIf(leftoverSeen, "leftover-resurrected")
	info.ClassIf(len(c.Big) > 0, "large-keys")
	info.ClassIf(c.N >= 5000, "bulk")
	info.NonTrivial = multiPage || hasTop || pruned > 0 || bigPage
	if info.NonTrivial && (c.N >= 1000 || len(c.IDs.Rand) > 40) {
		info.Sample = map[string]interface{}{"backend": c.Backend, "n": c.N, "ids": c.IDs.Mode, "ops": len(c.Ops), "prune": c.Prune, "big": c.Big,
			"digest": caseDigest(&c)}
	}
	return info, nil
}

func sortedCount(m map[uint64]int) []uint64 {
	ids := make([]uint64, 0, len(m))
	for id := range m {
		ids = append(ids, id)
	}
	sort.Slice(ids, func(i, j int) bool { return ids[i] < ids[j] })
	return ids
}

// dedupe keeps every class label once per case (the histogram counts cases).
func dedupe(info *vkit.Info) {
	sort.Strings(info.Classes)
	out := info.Classes[:0]
	for i, c := range info.Classes {
		if i == 0 || c != info.Classes[i-1] {
			out = append(out, c)
		}
	}
	info.Classes = out
}

// caseDigest makes samples of big cases distinct without storing them.
func caseDigest(c *RCase) string {
	var b bytes.Buffer
	fmt.Fprintf(&b, "%v|%d|%d|%v|%v|%d|%d|%v|%v|%v|%d|%d", c.IDs, c.N, c.Slots, c.VMixed, c.Big, c.BudgetW, c.Slack, c.Prune, c.Ops, c.Load, c.Enc, c.KeyPad)
	h := uint64(14695981039346656037)
	for _, x := range b.Bytes() {
		h ^= uint64(x)
		h *= 1099511628211
	}
	return fmt.Sprintf("%016x", h)
}

// rangeLimits extracts the limit argument of every LoadRange call in the log.
func rangeLimits(log []faultkv.Event) []int {
	var out []int
	for _, e := range log {
		if e.Kind != "range" {
			continue
		}
		lim := 0
		if i := strings.LastIndexByte(e.Value, '|'); i >= 0 {
			fmt.Sscanf(e.Value[i+1:], "%d", &lim)
		}
		out = append(out, lim)
	}
	return out
}

// pagesAfterHalving counts the calls issued with the final (smallest) limit.
func pagesAfterHalving(lims []int) int {
	n := 0
	last := lims[len(lims)-1]
	for _, l := range lims {
		if l == last {
			n++
		}
	}
	return n
}

func sameRegions(a, b []*metapb.Region) error {
	am := map[uint64]*metapb.Region{}
	for _, r := range a {
		if _, dup := am[r.GetId()]; dup {
			return fmt.Errorf("region %d twice", r.GetId())
		}
		am[r.GetId()] = r
	}
	if len(a) != len(b) {
		return fmt.Errorf("%d regions vs %d", len(a), len(b))
	}
	for _, r := range b {
		o, ok := am[r.GetId()]
		if !ok {
			return fmt.Errorf("region %d only on one side", r.GetId())
		}
		if !proto.Equal(o, r) {
			return fmt.Errorf("region %d differs: %s vs %s", r.GetId(), short(o), short(r))
		}
	}
	return nil
}

func overlap(a, b *metapb.Region) bool {
	// [s,e) with empty e = +inf
	return (len(a.EndKey) == 0 || bytes.Compare(a.EndKey, b.StartKey) > 0) &&
		(len(b.EndKey) == 0 || bytes.Compare(b.EndKey, a.StartKey) > 0)
}

// checkPruned: after LoadRegions(CheckAndPutRegion) the storage (post) and the
// cache describe the same set, which is a non-overlapping subset of what was
// stored before (pre), and no region that was strictly newer than everything it
// overlapped with has been dropped.
func checkPruned(pre, post []*metapb.Region, bc *core.BasicCluster) error {
	cache := bc.GetMetaRegions()
	if err := sameRegions(cache, post); err != nil {
		ci := map[uint64]bool{}
		for _, r := range cache {
			ci[r.GetId()] = true
		}
		for _, r := range post {
			if !ci[r.GetId()] {
				return fmt.Errorf("storage still holds %s which is not in the cache after the load (cache %d regions, storage %d): %v", short(r), len(cache), len(post), err)
			}
		}
		return fmt.Errorf("cache and storage differ after the load (cache %d regions, storage %d): %v", len(cache), len(post), err)
	}
	if bc.GetRegionCount() != len(post) {
		return fmt.Errorf("cache count %d, storage %d", bc.GetRegionCount(), len(post))
	}
	prem := map[uint64]*metapb.Region{}
	for _, r := range pre {
		prem[r.GetId()] = r
	}
	for _, r := range post {
		o, ok := prem[r.GetId()]
		if !ok {
			return fmt.Errorf("region %s appeared in storage during the load", short(r))
		}
		if !proto.Equal(o, r) {
			return fmt.Errorf("region %d changed in storage during the load: %s -> %s", r.GetId(), short(o), short(r))
		}
	}
	// pairwise non-overlapping: sort by start key and compare neighbours
	s := append([]*metapb.Region(nil), post...)
	sort.Slice(s, func(i, j int) bool {
		if c := bytes.Compare(s[i].StartKey, s[j].StartKey); c != 0 {
			return c < 0
		}
		return s[i].GetId() < s[j].GetId()
	})
	for i := 0; i+1 < len(s); i++ {
		if overlap(s[i], s[i+1]) {
			return fmt.Errorf("regions %s and %s overlap after the load", short(s[i]), short(s[i+1]))
		}
	}
	// nothing fresh lost: sweep over pre sorted by start key
	kept := map[uint64]bool{}
	for _, r := range post {
		kept[r.GetId()] = true
	}
	p := append([]*metapb.Region(nil), pre...)
	sort.Slice(p, func(i, j int) bool {
		if c := bytes.Compare(p[i].StartKey, p[j].StartKey); c != 0 {
			return c < 0
		}
		return p[i].GetId() < p[j].GetId()
	})
	for i, r := range p {
		if kept[r.GetId()] {
			continue
		}
		// r was pruned: some overlapping stored region must have a version >= r's
		just := false
		for j := 0; j < len(p) && !just; j++ {
			if j == i {
				continue
			}
			if len(r.EndKey) != 0 && bytes.Compare(p[j].StartKey, r.EndKey) >= 0 {
				break // sorted by start: nothing further can overlap
			}
			if overlap(r, p[j]) && p[j].GetRegionEpoch().GetVersion() >= r.GetRegionEpoch().GetVersion() {
				just = true
			}
		}
		if !just {
			return fmt.Errorf("region %s was removed from storage by the load although no stored region overlapping it had an equal or newer version", short(r))
		}
	}
	return nil
}

// ---------------------------------------------------------------- etcd (per-process fixture of vkit/etcdfix)

var rootCtr int64

func nextRoot() string { return fmt.Sprintf("/c17/%d", atomic.AddInt64(&rootCtr, 1)) }

func getEtcd() (*clientv3.Client, error) {
	f, err := etcdfix.Get()
	if err != nil {
		return nil, err
	}
	return f.Raw, nil
}

// ---------------------------------------------------------------- known finding probes

// TestFinding_LoadIDMaxUint64: items with id 2^64-1 are never returned by a full
// load (exclusive end key path(MaxUint64); "last id + 1" would overflow as well).
func TestFinding_LoadIDMaxUint64(t *testing.T) {
	st := core.NewStorage(kv.NewMemoryKV())
	ids := []uint64{1, math.MaxUint64 - 1, math.MaxUint64}
	for i, id := range ids {
		if err := st.SaveStore(&metapb.Store{Id: id, Address: fmt.Sprintf("s%d", i)}); err != nil {
			t.Fatalf("save store: %v", err)
		}
		if err := st.SaveRegion(&metapb.Region{Id: id, StartKey: []byte{byte('a' + i)}, EndKey: []byte{byte('b' + i)},
			RegionEpoch: &metapb.RegionEpoch{ConfVer: 1, Version: 1}, Peers: []*metapb.Peer{{Id: 1, StoreId: 1}}}); err != nil {
			t.Fatalf("save region: %v", err)
		}
	}
	var stores, regions []uint64
	if err := st.LoadStores(func(s *core.StoreInfo) { stores = append(stores, s.GetID()) }); err != nil {
		t.Fatalf("LoadStores: %v", err)
	}
	if err := st.LoadRegions(func(r *core.RegionInfo) []*core.RegionInfo { regions = append(regions, r.GetID()); return nil }); err != nil {
		t.Fatalf("LoadRegions: %v", err)
	}
	has := func(s []uint64, id uint64) bool {
		for _, x := range s {
			if x == id {
				return true
			}
		}
		return false
	}
	missS, missR := !has(stores, math.MaxUint64), !has(regions, math.MaxUint64)
	// the single-item reads see them, so they are stored but not loaded
	var one metapb.Store
	okS, _ := st.LoadStore(math.MaxUint64, &one)
	var oneR metapb.Region
	okR, _ := st.LoadRegion(math.MaxUint64, &oneR)
	vkit.Finding(t, keyMaxID, missS || missR,
		fmt.Sprintf("saved stores and regions with ids %v on the memory backend; LoadStores returned %v, LoadRegions returned %v; LoadStore(2^64-1) found=%v LoadRegion(2^64-1) found=%v", ids, stores, regions, okS, okR))
}

// TestFinding_RetryAfterFailedOverlapDelete: two overlapping leftovers with equal
// versions; the first LoadRegionsOnce fails when it removes the overlapped one
// (storage write fault); the retry (same cache, as in the server, where the syncer
// and LoadClusterInfo share the BasicCluster) returns nil, and afterwards the cache
// holds one region while the storage holds none.
func TestFinding_RetryAfterFailedOverlapDelete(t *testing.T) {
	dir, err := os.MkdirTemp(tmpBase(), "c17-probe-")
	if err != nil {
		t.Skip(err)
	}
	defer os.RemoveAll(dir)
	f := &rfix{backend: "leveldb", fk: faultkv.New(kv.NewMemoryKV()), dir: dir}
	if err := f.openRS(); err != nil {
		t.Fatalf("open: %v", err)
	}
	defer func() {
		if f.rs != nil {
			f.rs.Close()
		}
	}()
	st := f.storage()
	for id := uint64(1); id <= 2; id++ {
		r := &metapb.Region{Id: id, StartKey: []byte("a"), EndKey: []byte("b"), RegionEpoch: &metapb.RegionEpoch{ConfVer: 1, Version: 1},
			Peers: []*metapb.Peer{{Id: 10 + id, StoreId: 1}}}
		if err := st.SaveRegion(r); err != nil {
			t.Fatalf("save: %v", err)
		}
	}
	if err := st.Flush(); err != nil {
		t.Fatalf("flush: %v", err)
	}
	bc := core.NewBasicCluster()
	broke := false
	cb := func(r *core.RegionInfo) []*core.RegionInfo {
		ov := bc.CheckAndPutRegion(r)
		if len(ov) > 0 && !broke {
			broke = true
			f.rs.LeveldbKV.DB.Close()
		}
		return ov
	}
	err1 := st.LoadRegionsOnce(cb)
	h, err := kv.NewLeveldbKV(dir)
	if err != nil {
		t.Fatalf("reopen: %v", err)
	}
	f.rs.LeveldbKV = h
	err2 := st.LoadRegionsOnce(cb)
	var stored []uint64
	f.storage().LoadRegions(func(r *core.RegionInfo) []*core.RegionInfo { stored = append(stored, r.GetID()); return nil })
	var cached []uint64
	for _, r := range bc.GetMetaRegions() {
		cached = append(cached, r.GetId())
	}
	sort.Slice(cached, func(i, j int) bool { return cached[i] < cached[j] })
	same := len(stored) == len(cached)
	for i := range stored {
		if same && stored[i] != cached[i] {
			same = false
		}
	}
	vkit.Finding(t, keyRetry, err1 != nil && err2 == nil && !same,
		fmt.Sprintf("regions 1 and 2, both [a,b) version 1, flushed to the leveldb region storage; first LoadRegionsOnce(CheckAndPutRegion) with the removal of the overlapped region failing: %v; retry after the fault had gone: %v; afterwards storage ids %v, cache ids %v", err1, err2, stored, cached))
}

// TestFinding_RotationSaveFailureServesUnpersistedKey: a dictionary with an aes128
// key exists; pd restarts with data-encryption-method aes256 (new key manager) and
// becomes leader; the save of the rotated dictionary fails; the key manager
// nevertheless serves the new key, regions saved through it cannot be decrypted by
// a key manager created from etcd (a restarted pd).
func TestFinding_RotationSaveFailureServesUnpersistedKey(t *testing.T) {
	ev, err := getEnv()
	if err != nil || ev == nil {
		t.Skipf("etcd fixture unavailable: %v", err)
	}
	if err := ev.resetKeys(); err != nil {
		t.Skip(err)
	}
	km1, err := ev.newKM(1)
	if err == nil {
		err = ev.setLeadership(km1, "")
	}
	if err != nil {
		t.Skipf("first key manager: %v", err)
	}
	id1, _, _ := km1.GetCurrentKey()
	km2, err := ev.newKM(3)
	if err != nil {
		t.Skipf("second key manager: %v", err)
	}
	serr := ev.setLeadership(km2, "failbefore")
	id2, _, _ := km2.GetCurrentKey()
	fresh, err := ev.newKM(0)
	if err != nil {
		t.Skipf("fresh key manager: %v", err)
	}
	_, kerr := fresh.GetKey(id2)
	// end to end: a region saved by the member with km2, loaded by a restarted pd
	base := kv.NewMemoryKV()
	region := &metapb.Region{Id: 1, StartKey: []byte("a"), EndKey: []byte("b"), RegionEpoch: &metapb.RegionEpoch{ConfVer: 1, Version: 1},
		Peers: []*metapb.Peer{{Id: 2, StoreId: 1}}}
	serr2 := core.NewStorage(base, core.WithEncryptionKeyManager(km2)).SaveRegion(region)
	n := 0
	lerr := core.NewStorage(base, core.WithEncryptionKeyManager(fresh)).LoadRegions(func(r *core.RegionInfo) []*core.RegionInfo { n++; return nil })
	ev.resetKeys()
	vkit.Finding(t, keyRotate, serr != nil && id2 != 0 && id2 != id1 && kerr != nil && serr2 == nil && lerr != nil,
		fmt.Sprintf("dictionary with aes128 current key %d; new key manager with method aes256, SetLeadership with the key-dictionary txn failing returned: %v; it now serves current key %d; a key manager created from etcd: GetKey(%d) -> %v; SaveRegion through the first returned %v, LoadRegions through the second returned %d regions and: %v", id1, serr, id2, id2, kerr, serr2, n, lerr))
}

// TestFinding_LeveldbReadFaultReportedAsCompleteLoad: 300 regions flushed to the
// leveldb region storage; (a) the handle is closed underneath, (b) a block of the
// table file is corrupted: LoadRegions returns nil although it delivered only a part
// (or nothing) of what is stored (LeveldbKV.LoadRange never looks at iter.Error()).
func TestFinding_LeveldbReadFaultReportedAsCompleteLoad(t *testing.T) {
	dir, err := os.MkdirTemp(tmpBase(), "c17-probe-")
	if err != nil {
		t.Skip(err)
	}
	defer os.RemoveAll(dir)
	f := &rfix{backend: "leveldb", fk: faultkv.New(kv.NewMemoryKV()), dir: dir}
	if err := f.openRS(); err != nil {
		t.Fatalf("open: %v", err)
	}
	defer func() {
		if f.rs != nil {
			f.rs.Close()
		}
	}()
	st := f.storage()
	for id := uint64(1); id <= 300; id++ {
		r := &metapb.Region{Id: id, StartKey: []byte(fmt.Sprintf("k%04d", id)), EndKey: []byte(fmt.Sprintf("k%04d", id+1)),
			RegionEpoch: &metapb.RegionEpoch{ConfVer: 1, Version: 1}, Peers: []*metapb.Peer{{Id: id*10 + 1, StoreId: 1}}}
		if err := st.SaveRegion(r); err != nil {
			t.Fatalf("save: %v", err)
		}
	}
	if err := st.Flush(); err != nil {
		t.Fatalf("flush: %v", err)
	}
	count := func() (int, error) {
		n := 0
		err := f.storage().LoadRegions(func(r *core.RegionInfo) []*core.RegionInfo { n++; return nil })
		return n, err
	}
	// (a) closed handle
	f.rs.LeveldbKV.DB.Close()
	nA, errA := count()
	h, err := kv.NewLeveldbKV(dir)
	if err != nil {
		t.Fatalf("reopen: %v", err)
	}
	f.rs.LeveldbKV = h
	nOK, errOK := count()
	// (b) corrupted table block: close, reopen (journal -> table), close, damage, reopen
	f.rs.Close()
	f.rs = nil
	nB, errB, damaged := -1, error(nil), false
	if err := f.openRS(); err == nil {
		f.rs.Close()
		f.rs = nil
		files, _ := filepath.Glob(filepath.Join(dir, "*.ldb"))
		for _, fn := range files {
			if b, e := os.ReadFile(fn); e == nil && len(b) > 2000 {
				for i := len(b) / 2; i < len(b)/2+16; i++ {
					b[i] ^= 0xff
				}
				damaged = os.WriteFile(fn, b, 0o644) == nil
			}
		}
		if damaged && f.openRS() == nil {
			nB, errB = count()
		}
	}
	repA := errA == nil && nA < 300
	repB := damaged && nB >= 0 && errB == nil && nB < 300
	vkit.Finding(t, keyRead, nOK == 300 && errOK == nil && (repA || repB),
		fmt.Sprintf("300 regions flushed to the leveldb region storage; with the handle closed underneath LoadRegions returned %d regions and error %v; with a healthy handle %d regions and %v; with 16 bytes of the table file damaged %d regions and error %v", nA, errA, nOK, errOK, nB, errB))
}
