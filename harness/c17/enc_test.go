package c17

// Encryption at rest as a configuration dimension: in a generated fraction of the
// cases the fixture's storage gets a real encryptionkm.KeyManager (file master key,
// data key created through a campaigned election.Leadership on the per-process
// embedded etcd of vkit/etcdfix), method aes128/192/256-ctr. One key manager per
// method and process; each keeps the key dictionary it loaded when it created its
// data key (no watcher), so its current key has its own method.

import (
	"fmt"
	"os"
	"path/filepath"
	"strings"
	"sync"

	"github.com/tikv/pd/pkg/encryption"
	"github.com/tikv/pd/server/election"
	"github.com/tikv/pd/server/encryptionkm"
	"pdverif/vkit/etcdfix"
)

var encMethods = []string{"", "aes128-ctr", "aes192-ctr", "aes256-ctr"}

var (
	kmOnce sync.Once
	kms    [4]*encryptionkm.KeyManager
	kmErr  error
	kmDir  string
)

func encCleanup() {
	etcdfix.Close()
	if kmDir != "" {
		os.RemoveAll(kmDir)
	}
}

// keyManager returns the process-wide key manager of a method (1..3). An error means
// the etcd fixture could not be set up: inconclusive, never a violation.
func keyManager(enc int) (*encryptionkm.KeyManager, error) {
	kmOnce.Do(func() {
		f, err := etcdfix.Get()
		if err != nil {
			kmErr = err
			return
		}
		client, err := f.NewClient(&etcdfix.Hooks{})
		if err != nil {
			kmErr = err
			return
		}
		dir, err := os.MkdirTemp("", "c17-master-key")
		if err != nil {
			kmErr = err
			return
		}
		kmDir = dir
		kf := filepath.Join(dir, "master.key")
		if err := os.WriteFile(kf, []byte(strings.Repeat("7d", 32)+"\n"), 0o600); err != nil {
			kmErr = err
			return
		}
		ls := election.NewLeadership(client, f.Root()+"/leader", "c17")
		if err := ls.Campaign(3600, "c17"); err != nil {
			kmErr = fmt.Errorf("campaign: %v", err)
			return
		}
		for i := 1; i <= 3; i++ {
			cfg := &encryption.Config{DataEncryptionMethod: encMethods[i],
				MasterKey: encryption.MasterKeyConfig{Type: "file", MasterKeyFileConfig: encryption.MasterKeyFileConfig{FilePath: kf}}}
			if err := cfg.Adjust(); err != nil {
				kmErr = err
				return
			}
			km, err := encryptionkm.NewKeyManager(client, cfg)
			if err != nil {
				kmErr = err
				return
			}
			if err := km.SetLeadership(ls); err != nil {
				kmErr = err
				return
			}
			id, key, err := km.GetCurrentKey()
			if err != nil || key == nil {
				kmErr = fmt.Errorf("key manager %s has no current key (id %d, %v)", encMethods[i], id, err)
				return
			}
			kms[i] = km
		}
	})
	if kmErr != nil {
		return nil, kmErr
	}
	return kms[enc], nil
}
