package c17

// Encryption at rest as a dimension of the region cases, with key-manager
// GENERATIONS: every case starts from an empty key dictionary in the per-process
// etcd (vkit/etcdfix); a key manager is a real encryptionkm.KeyManager (file master
// key) that gets its data key through SetLeadership with a process-wide campaigned
// election.Leadership. The leadership's client is hooked, so the leader-guarded txn
// that saves the key dictionary can be failed (fail-before / lost-ack), and the
// leader key can be overwritten out of band (the txn then does not succeed).

import (
	"fmt"
	"os"
	"path/filepath"
	"strings"
	"sync"

	"github.com/tikv/pd/pkg/encryption"
	"github.com/tikv/pd/server/election"
	"github.com/tikv/pd/server/encryptionkm"
	"pdverif/vkit/etcdfix"
)

var encMethods = []string{"plaintext", "aes128-ctr", "aes192-ctr", "aes256-ctr"}

type encEnv struct {
	fix       *etcdfix.Fixture
	hooks     *etcdfix.Hooks
	ls        *election.Leadership
	leaderKey string
	keyFile   string
	dir       string
}

var (
	envOnce sync.Once
	env     *encEnv
	envErr  error
)

func encCleanup() {
	etcdfix.Close()
	if env != nil && env.dir != "" {
		os.RemoveAll(env.dir)
	}
}

// getEnv sets up (once per process) etcd, the master key file and the leadership.
// An error means the fixture could not be set up: inconclusive, never a violation.
func getEnv() (*encEnv, error) {
	envOnce.Do(func() {
		f, err := etcdfix.Get()
		if err != nil {
			envErr = err
			return
		}
		e := &encEnv{fix: f, hooks: &etcdfix.Hooks{}}
		client, err := f.NewClient(e.hooks)
		if err != nil {
			envErr = err
			return
		}
		dir, err := os.MkdirTemp("", "c17-master-key")
		if err != nil {
			envErr = err
			return
		}
		e.dir = dir
		e.keyFile = filepath.Join(dir, "master.key")
		if err := os.WriteFile(e.keyFile, []byte(strings.Repeat("7d", 32)+"\n"), 0o600); err != nil {
			envErr = err
			return
		}
		e.leaderKey = "/c17/leader"
		e.ls = election.NewLeadership(client, e.leaderKey, "c17")
		if err := e.ls.Campaign(7200, "c17"); err != nil {
			envErr = fmt.Errorf("campaign: %v", err)
			return
		}
		env = e
	})
	return env, envErr
}

// resetKeys removes the key dictionary: a case starts like a fresh cluster.
func (e *encEnv) resetKeys() error {
	return e.fix.DeleteRaw(encryptionkm.EncryptionKeysPath, false)
}

// newKM is what a (re)started PD does: a key manager with the configured method,
// loaded from etcd only.
func (e *encEnv) newKM(method int) (*encryptionkm.KeyManager, error) {
	cfg := &encryption.Config{DataEncryptionMethod: encMethods[method],
		MasterKey: encryption.MasterKeyConfig{Type: "file", MasterKeyFileConfig: encryption.MasterKeyFileConfig{FilePath: e.keyFile}}}
	if err := cfg.Adjust(); err != nil {
		return nil, err
	}
	return encryptionkm.NewKeyManager(e.fix.Raw, cfg)
}

// setLeadership calls SetLeadership with a fault on the save of the key dictionary:
// "" none, "failbefore" the txn is not sent, "lostack" it is applied but an error is
// returned, "notleader" the leader key holds another value (the txn does not succeed).
func (e *encEnv) setLeadership(km *encryptionkm.KeyManager, fault string) error {
	switch fault {
	case "failbefore", "lostack":
		act := etcdfix.FailBefore
		if fault == "lostack" {
			act = etcdfix.LostAck
		}
		e.hooks.Set(func(ev *etcdfix.Event) etcdfix.Action {
			if ev.Method == "Txn" && ev.Write {
				for _, k := range ev.Keys {
					if k == encryptionkm.EncryptionKeysPath {
						return act
					}
				}
			}
			return etcdfix.Proceed
		}, nil)
		defer e.hooks.Set(nil, nil)
	case "notleader":
		if err := e.fix.PutRaw(e.leaderKey, "somebody-else"); err != nil {
			return fmt.Errorf("harness: %v", err)
		}
		// afterwards the member is elected again (the record has to sit on the lease of a campaign of e.ls:
		// guarded transactions compare the record's lease as well as its value)
		defer func() {
			e.fix.DeleteRaw(e.leaderKey, false)
			e.ls.Campaign(7200, "c17")
		}()
	}
	return km.SetLeadership(e.ls)
}

// persisted reports what a brand-new key manager finds in etcd: whether a dictionary
// exists and the method of its current key (0 = none / encryption off).
func (e *encEnv) persisted() (exists bool, method int, err error) {
	_, _, _, exists = e.fix.GetRaw(encryptionkm.EncryptionKeysPath)
	km, err := e.newKM(0)
	if err != nil {
		return exists, 0, err
	}
	_, key, err := km.GetCurrentKey()
	if err != nil {
		return exists, 0, err
	}
	if key != nil {
		method = int(key.Method) - 1 // PLAINTEXT=1, AES128_CTR=2, ...
	}
	return exists, method, nil
}
