// Package tsofix is the shared fixture of C01 and C02: 1-3 PD members (member.Member +
// tso.AllocatorManager with a global allocator, built the way Server.startServer does)
// on one root of the per-process embedded etcd, a virtual clock with per-member
// offsets (packages server/tso and server/election are built through the clock overlay),
// an etcd interceptor for faults and harness-owned schedules, and the history oracle.
//
// One runner executes a case and collects violations tagged with the property they
// belong to ("C01": uniqueness / real-time order / 18-bit logical / no grant without a
// valid lease; "C02": stored bound monotone, grant strictly below the stored bound).
package tsofix

import (
	"context"
	"encoding/binary"
	"fmt"
	"path"
	"sort"
	"strings"
	"sync"
	"sync/atomic"
	"time"
	"unsafe"

	"github.com/pingcap/kvproto/pkg/pdpb"
	"github.com/tikv/pd/server/config"
	"github.com/tikv/pd/server/election"
	"github.com/tikv/pd/server/member"
	"github.com/tikv/pd/server/tso"
	"go.etcd.io/etcd/clientv3"
	"pdverif/vkit"
	"pdverif/vkit/etcdfix"
	"pdverif/vkit/gate"
)

// Cfg is the generated configuration of a case.
type Cfg struct {
	Members        int     `json:"members"`
	SaveMs         int64   `json:"save_ms"`
	UpdMs          int64   `json:"upd_ms"`
	MaxGapMs       int64   `json:"maxgap_ms"`
	TTL            int64   `json:"ttl_s"`
	UpdaterOnSleep bool    `json:"updater_on_sleep,omitempty"`
	Offsets        []int64 `json:"offsets_ms,omitempty"` // initial per-member clock offsets
	// FaultAt > 0: the FaultAt-th write txn of the whole history (all members) fails with FaultKind
	// ("before" = not applied, "lostack" = applied, error returned). Used by fault enumeration.
	FaultAt   int    `json:"fault_at,omitempty"`
	FaultKind string `json:"fault_kind,omitempty"`
}

// Task is one participant of a scheduled race.
type Task struct {
	K     string `json:"k"` // update, settso, gen, init
	Rel   string `json:"rel,omitempty"`
	Count uint32 `json:"count,omitempty"`
}

// Op is one step of a case.
type Op struct {
	K     string `json:"k"`
	M     int    `json:"m"`
	Count uint32 `json:"count,omitempty"`
	Rel   string `json:"rel,omitempty"`
	D     int64  `json:"d_ms,omitempty"`
	Fail  string `json:"fail,omitempty"`
	G     int    `json:"g,omitempty"`
	R     int    `json:"r,omitempty"`
	Sched []int  `json:"sched,omitempty"`
	Tasks []Task `json:"tasks,omitempty"`
	// race: decisions "fail"/"lostack" applied to the n-th released Txn (0 = none)
	FailAt int `json:"fail_at,omitempty"`
	// campaign: a request of this count arrives between the successful campaign and Initialize
	Mid uint32 `json:"mid,omitempty"`
	// race: tasks are also parked right AFTER every etcd RPC returned (interleavings between an RPC's
	// completion and the caller's next in-memory action)
	After bool `json:"after,omitempty"`
}

// Case is a generated history.
type Case struct {
	Cfg Cfg  `json:"cfg"`
	Ops []Op `json:"ops"`
}

// NoExclude disables the exclusion of known-finding trigger classes (used by the
// deterministic finding probes, which must reproduce exactly those classes).
var NoExclude bool

func known(key string) bool { return !NoExclude && vkit.Known(key) }

// Violation is one oracle failure.
type Violation struct {
	Prop string
	Msg  string
}

func (v Violation) Error() string { return v.Prop + ": " + v.Msg }

// ---------------------------------------------------------------- process-level state

type slot struct {
	hooks  *etcdfix.Hooks
	client *clientv3.Client
}

var (
	slotsOnce sync.Once
	slots     []*slot
	slotsErr  error

	// virtual clock. clockNow is the monotonic time line shared by all members (what
	// lease deadlines are measured on: Go compares them by monotonic readings, so
	// wall-clock jumps do not move them); clockOff is the wall-clock offset of the member
	// whose code is executing. server/election reads the monotonic line, server/tso
	// the wall clock.
	clockNow  int64
	clockOff  int64
	sleepHook atomic.Value // func(time.Duration)
)

// The virtual clock hands out time values WITH a monotonic reading, like time.Now()
// does: the monotonic part follows the shared time line, the wall part is time line +
// the executing member's wall offset. Code that compares such values with Sub/After/Before
// therefore sees the monotonic line (unaffected by wall-clock steps), code that goes
// through UnixNano sees the wall clock — exactly the distinction real processes live with.
// (A clock that returned plain time.Unix values could not tell the two apart.)
func vnow() time.Time {
	return mkTime(atomic.LoadInt64(&clockNow)+atomic.LoadInt64(&clockOff), atomic.LoadInt64(&clockNow))
}
func vmono() time.Time { return mkTime(atomic.LoadInt64(&clockNow), atomic.LoadInt64(&clockNow)) }

// timeRepr mirrors the layout of time.Time (wall, ext, loc); stable since Go 1.9.
type timeRepr struct {
	wall uint64
	ext  int64
	loc  *time.Location
}

var (
	refOnce sync.Once
	refTime time.Time // a real time.Now() value: carries a monotonic reading
	refWall int64     // its wall clock in Unix nanoseconds
)

// mkTime builds a time value whose wall clock is wallNs (Unix ns) and whose monotonic
// reading is refTime's reading + (monoNs - refWall).
func mkTime(wallNs, monoNs int64) time.Time {
	refOnce.Do(func() {
		refTime = time.Now()
		refWall = refTime.UnixNano()
	})
	t := refTime.Add(time.Duration(monoNs - refWall)) // shifts wall and monotonic together
	r := (*timeRepr)(unsafe.Pointer(&t))
	if r.wall>>63 == 0 {
		// no monotonic reading (should not happen for a value derived from time.Now())
		return time.Unix(0, wallNs)
	}
	// now move the wall part alone by (wallNs - monoNs)
	const nsecMask = 1<<30 - 1
	sec := int64(r.wall >> 30 & (1<<33 - 1))
	nsec := int64(r.wall & nsecMask)
	total := sec*1e9 + nsec + (wallNs - monoNs)
	if total < 0 || total/1e9 >= 1<<33 {
		return time.Unix(0, wallNs)
	}
	r.wall = 1<<63 | uint64(total/1e9)<<30 | uint64(total%1e9)
	return t
}

func vsleep(d time.Duration) {
	if f, ok := sleepHook.Load().(func(time.Duration)); ok && f != nil {
		f(d)
		return
	}
	atomic.AddInt64(&clockNow, int64(d))
}

func getSlots() ([]*slot, *etcdfix.Fixture, error) {
	f, err := etcdfix.Get()
	if err != nil {
		return nil, nil, err
	}
	slotsOnce.Do(func() {
		tso.SetVerifClock(vnow, vsleep)
		election.SetVerifClock(vmono, vsleep)
		for i := 0; i < 3; i++ {
			h := &etcdfix.Hooks{}
			c, err := f.NewClient(h)
			if err != nil {
				slotsErr = err
				return
			}
			slots = append(slots, &slot{hooks: h, client: c})
		}
	})
	return slots, f, slotsErr
}

// ---------------------------------------------------------------- world

type grant struct {
	m       int
	gen     int
	phys    int64
	logical int64
	count   int64
	lo, hi  uint64 // composed values of the first and last timestamp of the range
	start   int64  // stamps (global atomic counter) of request start and response
	end     int64
}

type mem struct {
	idx    int
	gen    int
	mb     *member.Member
	am     *tso.AllocatorManager
	alloc  tso.Allocator
	cancel context.CancelFunc
	offset int64 // ms
	leader bool  // model: holds the leader record
	inited bool  // model: Initialize succeeded since the last campaign
	expire int64 // virtual nanos when the lease expires locally
	dead   bool  // crashed object (zombie): every grant must fail
	lastG  *grant
}

type world struct {
	mu           sync.Mutex
	c            Case
	f            *etcdfix.Fixture
	sl           []*slot
	root         string
	tsKey        string
	ldKey        string
	base         int64 // virtual nanos of the shared base clock
	cur          int   // member whose clock is installed
	mems         []*mem
	holder       int   // model: index of the member holding the leader record, -1 none
	B            int64 // tracked stored bound (nanos), 0 = none
	grants       []*grant
	viol         []Violation
	failNext     [3]string
	afterGate    bool
	lostAck      [3]bool
	writeSeq     int // write txns seen so far (sequential part of the history)
	sched        *gate.Sched
	raceTxn      int
	raceFailAt   int
	raceFailKind string
	stamp        int64
	inSleep      int32
	info         *vkit.Info
	only         string // violations of the other property are not recorded: they must not cut the history short
	bChanged     bool
	handover     int
	acceptedSet  int
	overflow     int
	backstep     bool
	bursts       int
	failedSaves  int
	reordered    bool
	held         [3]*heldTxn // per member slot: a window save that is on its way to etcd and has not arrived yet
}

// heldTxn is one write Txn of a member's etcd client that was sent and is still under way: the caller
// (UpdateTSO or SetTSO, on its own goroutine) waits for the answer, the request reaches etcd when rel is closed.
type heldTxn struct {
	caught  bool
	arrived chan struct{} // closed when the Txn reached the hook
	rel     chan struct{} // closed to let it go on to etcd
	done    chan error    // result of the allocator call
}

func (w *world) violate(prop, format string, a ...interface{}) {
	w.mu.Lock()
	if len(w.viol) < 20 && (prop == w.only || prop == "C03") {
		w.viol = append(w.viol, Violation{prop, fmt.Sprintf(format, a...)})
	}
	w.mu.Unlock()
}

func (w *world) setClock(m int) {
	w.cur = m
	atomic.StoreInt64(&clockNow, w.base)
	atomic.StoreInt64(&clockOff, w.mems[m].offset*int64(time.Millisecond))
}

func (w *world) install() {
	for si := range w.sl {
		si := si
		w.sl[si].hooks.Set(func(ev *etcdfix.Event) etcdfix.Action {
			if ev.Method == "Txn" && ev.Write {
				w.mu.Lock()
				h := w.held[si]
				if h != nil && !h.caught {
					h.caught = true
					w.mu.Unlock()
					close(h.arrived)
					<-h.rel
					return etcdfix.Proceed
				}
				w.mu.Unlock()
			}
			if sc := w.sched; sc != nil {
				if err := sc.Enter(ev.Method, fmt.Sprint(si)); err != nil {
					return etcdfix.FailBefore
				}
				if ev.Method == "Txn" && ev.Write {
					w.mu.Lock()
					w.raceTxn++
					hit := w.raceFailAt != 0 && w.raceTxn == w.raceFailAt
					kind := w.raceFailKind
					w.mu.Unlock()
					if hit {
						if kind == "lostack" {
							return etcdfix.LostAck
						}
						return etcdfix.FailBefore
					}
				}
				return etcdfix.Proceed
			}
			if ev.Method == "Txn" && ev.Write {
				w.mu.Lock()
				fk := w.failNext[si]
				w.failNext[si] = ""
				w.writeSeq++
				if w.c.Cfg.FaultAt != 0 && w.writeSeq == w.c.Cfg.FaultAt {
					fk = w.c.Cfg.FaultKind
				}
				w.mu.Unlock()
				switch fk {
				case "before":
					return etcdfix.FailBefore
				case "lostack":
					return etcdfix.LostAck
				}
			}
			return etcdfix.Proceed
		}, func(ev *etcdfix.Event) {
			if sc := w.sched; sc != nil && w.afterGate {
				defer sc.Enter("after-"+ev.Method, fmt.Sprint(si))
			}
			if ev.Method != "Txn" {
				return
			}
			if ev.Write && (!ev.Applied || ev.Err != nil) {
				w.mu.Lock()
				w.failedSaves++
				if ev.Applied && ev.Err != nil {
					w.lostAck[si] = true
				}
				w.mu.Unlock()
			}
			if !ev.Applied {
				return
			}
			for k, v := range ev.Puts {
				if !strings.HasSuffix(k, "/timestamp") || !strings.HasPrefix(k, w.root+"/") || len(v) != 8 {
					continue
				}
				nv := int64(binary.BigEndian.Uint64([]byte(v)))
				w.mu.Lock()
				old := w.B
				if nv < old {
					if len(w.viol) < 20 && w.only == "C02" {
						w.viol = append(w.viol, Violation{"C02", fmt.Sprintf("stored time-window bound decreased: %s -> %s (by member slot %d)", fmtT(old), fmtT(nv), si)})
					}
				}
				if nv != old && old != 0 {
					w.bChanged = true
				}
				w.B = nv
				w.mu.Unlock()
			}
		})
	}
}

func fmtT(n int64) string {
	if n == 0 {
		return "none"
	}
	return time.Unix(0, n).UTC().Format("15:04:05.000000")
}

func compose(p, l int64) uint64 { return uint64(p)<<18 | uint64(l)&0x3FFFF }

// recordGrant checks one successful response against the history oracle.
func (w *world) recordGrant(m *mem, ts pdpb.Timestamp, count uint32, start, end int64, sequential bool) {
	w.mu.Lock()
	defer w.mu.Unlock()
	add := func(p, f string, a ...interface{}) {
		if p == "C01-order" {
			// disjointness / real-time order is C01's clause; "the first timestamp after a take-over is
			// larger than everything granted before" is also the consequence clause of C02
			p = w.only
		}
		if len(w.viol) < 20 && p == w.only {
			w.viol = append(w.viol, Violation{p, fmt.Sprintf(f, a...)})
		}
	}
	who := fmt.Sprintf("member %d.g%d", m.idx, m.gen)
	p, l, n := ts.GetPhysical(), ts.GetLogical(), int64(count)
	if l < 0 || l >= 1<<18 {
		add("C01", "%s returned logical %d which does not fit 18 bits (physical %d, count %d)", who, l, p, n)
		return
	}
	if l < n {
		add("C01", "%s returned logical %d for count %d: the range would start at logical %d <= 0", who, l, n, l-n+1)
		return
	}
	g := &grant{m: m.idx, gen: m.gen, phys: p, logical: l, count: n, lo: compose(p, l-n+1), hi: compose(p, l), start: start, end: end}
	// C02-I2: strictly below the stored bound
	if p*int64(time.Millisecond) >= w.B {
		add("C02", "%s granted physical %s but the durably stored bound is %s (grant must be strictly below)", who, fmtT(p*int64(time.Millisecond)), fmtT(w.B))
	}
	// C01-(4): no grant without a valid lease
	nowM := w.base
	if sequential {
		switch {
		case m.dead:
			add("C01", "%s granted a timestamp after it crashed / lost its lease", who)
		case !m.leader:
			add("C01", "%s granted a timestamp although it does not hold the leadership", who)
			// (a grant between a won campaign and the end of the allocator's initialisation is judged by the order and
			// window clauses below only: the property does not forbid it as such)
		case nowM > m.expire:
			add("C01", "%s granted a timestamp although its lease expired locally %s ago", who, time.Duration(nowM-m.expire))
		}
	}
	// C01-(2),(3): disjoint and ordered in real time
	for i := len(w.grants) - 1; i >= 0; i-- {
		o := w.grants[i]
		if g.lo <= o.hi && o.lo <= g.hi {
			add("C01-order", "ranges overlap: %s got [%d..%d] (phys %d logical %d count %d), earlier member %d.g%d got [%d..%d]", who, g.lo, g.hi, p, l, n, o.m, o.gen, o.lo, o.hi)
			break
		}
		if o.end < g.start && o.hi >= g.lo {
			add("C01-order", "real-time order broken: %s got [%d..%d] (phys %d logical %d) although the earlier completed response of member %d.g%d was [%d..%d] (phys %d logical %d)", who, g.lo, g.hi, p, l, o.m, o.gen, o.lo, o.hi, o.phys, o.logical)
			break
		}
		if g.end < o.start && g.hi >= o.lo {
			add("C01-order", "real-time order broken (later request got smaller values)")
			break
		}
		if sequential && len(w.grants)-i > 64 {
			break // sequential histories are totally ordered: older grants are covered transitively
		}
	}
	w.grants = append(w.grants, g)
	m.lastG = g
}

func (w *world) next() int64 { return atomic.AddInt64(&w.stamp, 1) }

// newMember builds Member + AllocatorManager + global allocator like Server.startServer.
func (w *world) newMember(i, gen int, offset int64) *mem {
	cfg := config.NewConfig()
	cfg.TSOSaveInterval.Duration = time.Duration(w.c.Cfg.SaveMs) * time.Millisecond
	cfg.TSOUpdatePhysicalInterval.Duration = time.Duration(w.c.Cfg.UpdMs) * time.Millisecond
	cfg.AdvertiseClientUrls = fmt.Sprintf("http://127.0.0.1:%d", 20000+i)
	cfg.AdvertisePeerUrls = fmt.Sprintf("http://127.0.0.1:%d", 21000+i)
	mb := member.NewMember(w.f.Etcd, w.sl[i].client, uint64(100+i))
	mb.MemberInfo(cfg, fmt.Sprintf("pd%d", i), w.root)
	gap := time.Duration(w.c.Cfg.MaxGapMs) * time.Millisecond
	am := tso.NewAllocatorManager(mb, w.root, cfg, func() time.Duration { return gap })
	ctx, cancel := context.WithCancel(context.Background())
	am.SetUpAllocator(ctx, tso.GlobalDCLocation, mb.GetLeadership())
	al, _ := am.GetAllocator(tso.GlobalDCLocation)
	return &mem{idx: i, gen: gen, mb: mb, am: am, alloc: al, cancel: cancel, offset: offset}
}

// Run executes a case and returns run information and the violations found.
// Stats of one execution.
type Stats struct {
	Writes int // write txns issued in the sequential part
	Grants int
}

// Run executes a case (see RunX).
func Run(c Case, only string) (vkit.Info, []Violation) {
	info, viol, _ := RunX(c, only)
	return info, viol
}

// RunX executes a case and returns run information, the violations found and statistics.
func RunX(c Case, only string) (vkit.Info, []Violation, Stats) {
	var info vkit.Info
	sl, f, err := getSlots()
	if err != nil {
		info.Inconclusive = true
		return info, nil, Stats{}
	}
	root := f.Root()
	w := &world{c: c, f: f, sl: sl, root: root, tsKey: path.Join(root, "timestamp"), ldKey: path.Join(root, "leader"),
		base: time.Date(2021, 6, 1, 12, 0, 0, 0, time.UTC).UnixNano(), holder: -1, info: &info, only: only}
	w.install()
	sleepHook.Store(func(d time.Duration) { w.onSleep(d) })
	defer func() {
		for i := range w.held {
			w.release(i)
		}
		sleepHook.Store(func(d time.Duration) { atomic.AddInt64(&clockNow, int64(d)) })
		for _, s := range sl {
			s.hooks.Set(nil, nil)
		}
		for _, m := range w.mems {
			m.cancel()
		}
		f.DeleteRaw(root, true)
	}()
	n := c.Cfg.Members
	if n < 1 {
		n = 1
	}
	if n > 3 {
		n = 3
	}
	for i := 0; i < n; i++ {
		off := int64(0)
		if i < len(c.Cfg.Offsets) {
			off = c.Cfg.Offsets[i]
		}
		w.mems = append(w.mems, w.newMember(i, 0, off))
	}
	for step, op := range c.Ops {
		m := w.mems[((op.M%n)+n)%n]
		w.setClock(m.idx)
		w.step(step, op, m)
		if len(w.viol) > 0 {
			break
		}
		for i, la := range w.lostAck {
			if !la {
				continue
			}
			w.lostAck[i] = false
			// known finding C02/lost-ack-stale-window: a member that goes on after a save whose
			// ack was lost keeps a stale copy of the stored bound and may later store a smaller
			// one. While that finding is open such a member steps down at once (as the server
			// does after a failed UpdateTSO), so that the search continues behind it.
			if i < len(w.mems) && known("C02/lost-ack-stale-window") {
				if x := w.mems[i]; x.leader && !x.dead {
					w.stepDown(x)
					info.Exclude("C02/lost-ack-stale-window")
				}
			}
		}
		// cross-check the tracked bound with etcd
		if real := w.readB(); real != w.B {
			w.violate("C02", "after op %d (%s): etcd holds bound %s but the applied-txn log says %s", step, op.K, fmtT(real), fmtT(w.B))
			break
		}
	}
	for i := range w.held {
		w.release(i)
	}
	info.ClassIf(w.handover > 0, "handover")
	info.ClassIf(w.handover > 1, "handover>=2")
	info.ClassIf(w.acceptedSet > 0, "accepted-settso")
	info.ClassIf(w.overflow > 0, "logical-limit")
	info.ClassIf(w.backstep, "clock-backstep")
	info.ClassIf(w.bursts > 0, "burst")
	info.ClassIf(w.failedSaves > 0, "failed-save")
	info.ClassIf(w.bChanged, "bound-changed")
	info.ClassIf(w.reordered, "race-interleaved")
	info.ClassIf(len(w.grants) >= 2, "grants>=2")
	for i := range w.viol {
		w.viol[i].Msg = fmt.Sprintf("%s [root %s]", w.viol[i].Msg, root)
	}
	return info, w.viol, Stats{Writes: w.writeSeq, Grants: len(w.grants)}
}

// NonTrivialC01 / NonTrivialC02 implement the rules of DESIGN.md.
func NonTrivialC01(info vkit.Info) bool {
	has := func(c string) bool {
		for _, x := range info.Classes {
			if x == c {
				return true
			}
		}
		return false
	}
	return has("grants>=2") && (has("handover") || has("accepted-settso") || has("clock-backstep") || has("logical-limit") || has("burst"))
}

func NonTrivialC02(info vkit.Info) bool {
	has := func(c string) bool {
		for _, x := range info.Classes {
			if x == c {
				return true
			}
		}
		return false
	}
	return has("bound-changed") && (has("handover") || has("failed-save") || has("accepted-settso") || has("race-interleaved"))
}

func (w *world) readB() int64 {
	var max int64
	for k, v := range w.f.PrefixRaw(w.root + "/") {
		if strings.HasSuffix(k, "/timestamp") && len(v) == 8 {
			if n := int64(binary.BigEndian.Uint64([]byte(v))); n > max {
				max = n
			}
		}
	}
	return max
}

// onSleep is the virtual sleep: advances the base clock and, optionally, lets the
// "background updater" of the executing member run as its ticker would have.
func (w *world) onSleep(d time.Duration) {
	if w.sched != nil || w.bursts < 0 {
		atomic.AddInt64(&clockNow, int64(d))
		return
	}
	w.base += int64(d)
	atomic.AddInt64(&clockNow, int64(d))
	if w.c.Cfg.UpdaterOnSleep && atomic.CompareAndSwapInt32(&w.inSleep, 0, 1) {
		m := w.mems[w.cur]
		if m.alloc.IsInitialize() {
			m.alloc.UpdateTSO()
		}
		atomic.StoreInt32(&w.inSleep, 0)
	}
}

func (w *world) gen(m *mem, count uint32, sequential bool) error {
	start := w.next()
	ts, err := m.am.HandleTSORequest(tso.GlobalDCLocation, count)
	end := w.next()
	if err != nil {
		return err
	}
	w.recordGrant(m, ts, count, start, end, sequential)
	return nil
}

// target resolves a relative SetTSO target into a composed uint64 timestamp.
func (w *world) target(m *mem, rel string) uint64 {
	save := time.Duration(w.c.Cfg.SaveMs) * time.Millisecond
	gap := w.c.Cfg.MaxGapMs
	var p, l int64
	if m.lastG != nil {
		p, l = m.lastG.phys, m.lastG.logical
	} else {
		p = (w.base + m.offset*int64(time.Millisecond)) / int64(time.Millisecond)
	}
	bms := w.B / int64(time.Millisecond)
	switch rel {
	case "same-1":
		return compose(p, maxi(l-1, 0))
	case "same":
		return compose(p, l)
	case "same+1":
		return compose(p, l+1)
	case "same+big":
		return compose(p, 1<<18-2)
	case "-1ms":
		return compose(p-1, l)
	case "+1ms":
		return compose(p+1, 0)
	case "edge-2":
		return compose(bms-2, 0)
	case "edge-1":
		return compose(bms-1, 0)
	case "edge":
		return compose(bms, 0)
	case "edge+1":
		return compose(bms+1, 0)
	case "+save":
		return compose(p+save.Milliseconds(), 3)
	case "+1h":
		return compose(p+3600_000, 0)
	case "gap-1":
		return compose(p+gap-1, 0)
	case "gap":
		return compose(p+gap, 0)
	case "past":
		return compose(p-3600_000, 5)
	}
	return compose(p+10, 0)
}

func maxi(a, b int64) int64 {
	if a > b {
		return a
	}
	return b
}

// stepDown does what campaignLeader's defers do.
func (w *world) stepDown(m *mem) {
	m.am.ResetAllocatorGroup(tso.GlobalDCLocation)
	m.mb.ResetLeader()
	if w.holder == m.idx && m.leader {
		w.holder = -1
	}
	m.leader, m.inited = false, false
}

// hold starts a window update of member m on its own goroutine and parks
// the write Txn it sends: the request is under way. Later ops run while it is; it arrives at "release", before the
// next op of the same member that needs the allocator's update mutex, inside that member's next initialisation
// (the initialisation waits for the mutex), or at the end of the case.
func (w *world) hold(op Op, m *mem) {
	if m.dead || !m.leader || !m.inited || w.held[m.idx] != nil {
		return
	}
	h := &heldTxn{arrived: make(chan struct{}), rel: make(chan struct{}), done: make(chan error, 1)}
	w.mu.Lock()
	w.held[m.idx] = h
	w.mu.Unlock()
	// (only the update tick is held: a manual reset keeps the timestamp lock while it saves, so the member could
	// neither step down nor answer requests while its save is under way)
	al := m.alloc
	go func() { h.done <- al.UpdateTSO() }()
	select {
	case <-h.arrived:
		w.info.Class("save-under-way")
	case <-h.done:
		// no save was needed
		w.mu.Lock()
		w.held[m.idx] = nil
		w.mu.Unlock()
	}
}

// release lets the parked save of slot i reach etcd and waits for the allocator call to return.
func (w *world) release(i int) {
	w.mu.Lock()
	h := w.held[i]
	w.held[i] = nil
	w.mu.Unlock()
	if h == nil {
		return
	}
	close(h.rel)
	select {
	case <-h.done:
	case <-time.After(30 * time.Second):
		w.info.Inconclusive = true
	}
	if w.holder != i {
		w.info.Class("save-arrived-after-step-down")
	}
}

func (w *world) step(step int, op Op, m *mem) {
	if w.held[m.idx] != nil {
		switch op.K {
		case "update", "settso", "burst", "race", "hold":
			// these need the allocator's update mutex, which the waiting call holds
			w.release(m.idx)
		}
	}
	switch op.K {
	case "hold":
		w.hold(op, m)
	case "release":
		w.release(m.idx)
	case "campaign":
		if m.dead {
			return
		}
		if m.leader {
			return // a member that holds leadership does not campaign again
		}
		before := w.holder
		err := m.mb.CampaignLeader(w.c.Cfg.TTL)
		if err != nil {
			w.info.Class("campaign-refused")
			return
		}
		if before != -1 {
			w.violate("C03", "op %d: member %d campaigned successfully while member %d still holds the leader record", step, m.idx, before)
			return
		}
		w.holder = m.idx
		m.leader = true
		m.expire = w.base + w.c.Cfg.TTL*int64(time.Second)
		if op.Mid > 0 {
			// a request that reaches the member after its campaign succeeded and before the allocator is
			// initialized (the Tso handler is not gated on anything else): refused, or granted in order
			if err := w.gen(m, op.Mid, true); err != nil {
				w.info.Class("gen-before-init-refused")
			} else {
				w.info.Class("gen-before-init-granted")
			}
			if len(w.viol) > 0 {
				return
			}
		}
		if strings.HasPrefix(op.Fail, "init-") {
			w.mu.Lock()
			w.failNext[m.idx] = strings.TrimPrefix(op.Fail, "init-")
			w.mu.Unlock()
		}
		var ierr error
		if w.held[m.idx] != nil {
			// the save of an earlier term is still under way: the initialisation waits for the allocator's
			// update mutex, the delayed request arrives now
			ic := make(chan error, 1)
			go func() { ic <- m.alloc.Initialize(0) }()
			w.release(m.idx)
			ierr = <-ic
			w.info.Class("save-arrived-in-next-term")
		} else {
			ierr = m.alloc.Initialize(0)
		}
		if err := ierr; err != nil {
			// as server.campaignLeader does: it returns BEFORE it registers ResetAllocatorGroup, so a failed
			// initialization only gives the leadership up and leaves the allocator's memory as it is
			w.info.Class("init-failed")
			m.mb.ResetLeader()
			if w.holder == m.idx {
				w.holder = -1
			}
			m.leader, m.inited = false, false
			return
		}
		m.inited = true
		w.handover++
	case "gen":
		if err := w.gen(m, op.Count, true); err != nil {
			if op.Count >= 1<<18-2 || strings.Contains(err.Error(), "maximum number of retries") {
				w.overflow++
			}
			w.info.Class("gen-error")
		} else if op.Count > 1<<17 {
			w.overflow++
		}
	case "update":
		if m.dead || !m.alloc.IsInitialize() {
			return
		}
		if err := m.alloc.UpdateTSO(); err != nil {
			w.info.Class("update-error")
			if op.Fail == "stepdown" {
				w.stepDown(m)
			}
		}
	case "settso":
		if m.dead {
			return
		}
		t := w.target(m, op.Rel)
		if err := m.alloc.SetTSO(t); err == nil {
			w.acceptedSet++
			w.info.Class("settso-ok:" + op.Rel)
		} else {
			w.info.Class("settso-refused")
		}
	case "clock":
		if op.D < 0 {
			w.backstep = true
		}
		m.offset += op.D
		w.info.Class("clock-member")
	case "clockall":
		// D > 0: time passes for everybody; D < 0: every wall clock is set back
		if op.D < 0 {
			w.backstep = true
			for _, x := range w.mems {
				x.offset += op.D
			}
		} else {
			w.base += op.D * int64(time.Millisecond)
		}
	case "nearexpire":
		// time passes until D ms before the lease of m runs out locally
		if m.leader && !m.dead && w.base < m.expire-op.D*int64(time.Millisecond) {
			w.base = m.expire - op.D*int64(time.Millisecond)
			w.info.Class("near-expiry")
		}
	case "resign":
		if m.dead {
			return
		}
		w.stepDown(m)
		w.info.Class("resign")
	case "crash":
		// the process stops (or is paused for longer than its lease): its local clock is
		// past the lease, and the etcd side of the lease is gone. The object stays around
		// as a zombie on which every later grant must fail.
		if m.dead {
			return
		}
		if m.leader && w.base <= m.expire {
			w.base = m.expire + int64(time.Millisecond) // the lease runs out while the process is stopped
		}
		if m.leader {
			if _, _, lease, ok := w.f.GetRaw(w.ldKey); ok && lease != 0 {
				w.f.RevokeRaw(lease)
			} else {
				w.f.DeleteRaw(w.ldKey, false)
			}
			if w.holder == m.idx {
				w.holder = -1
			}
		}
		m.dead = true
		w.info.Class("crash")
	case "restart":
		// new objects with the same identity; the predecessor must have lost the lease first
		if !m.dead {
			w.step(step, Op{K: "crash", M: op.M}, m)
		}
		m.cancel()
		nm := w.newMember(m.idx, m.gen+1, op.D)
		w.mems[m.idx] = nm
		w.info.Class("restart")
	case "fail":
		w.mu.Lock()
		w.failNext[m.idx] = op.Fail
		w.mu.Unlock()
		w.info.Class("fault-" + op.Fail)
	case "losekey":
		// the leader record disappears or is overwritten out of band while the member's
		// local lease is still valid: guarded saves must now fail (C02-I3)
		if op.Fail == "overwrite" {
			// nobody can campaign any more; the old leader keeps its local lease, may keep
			// granting below the stored bound, but can no longer extend the window
			w.f.PutRaw(w.ldKey, "someone-else")
			w.holder = 99
			w.info.Class("losekey-overwrite")
			return
		}
		w.f.DeleteRaw(w.ldKey, false)
		w.holder = -1
		for _, x := range w.mems {
			if x.leader {
				// model: it still believes in its lease; its grants stay legal only because the
				// real protocol cannot lose the key before the conservative local deadline —
				// this op is therefore followed by local expiry of that member.
				if w.base <= x.expire {
					w.base = x.expire + int64(time.Millisecond)
				}
			}
		}
		w.info.Class("losekey")
	case "burst":
		w.burst(step, op, m)
	case "race":
		w.race(step, op, m)
	}
}

// pendingLostAck: a lost-ack fault armed by an earlier "fail" op would fire inside a
// burst/race, where the other tasks go on after it (trigger class of the known finding).
func (w *world) pendingLostAck(m *mem) {
	w.mu.Lock()
	defer w.mu.Unlock()
	if w.failNext[m.idx] == "lostack" && known("C02/lost-ack-stale-window") {
		w.failNext[m.idx] = "before"
		w.info.Exclude("C02/lost-ack-stale-window")
	}
}

// burst: G goroutines x R requests on one member under the real scheduler, racing
// with an UpdateTSO loop (and, unless excluded, SetTSO calls); one shared clock.
func (w *world) burst(step int, op Op, m *mem) {
	if m.dead || !m.alloc.IsInitialize() {
		return
	}
	w.pendingLostAck(m)
	w.bursts++
	old := w.bursts
	w.bursts = -1 // makes onSleep a pure clock advance
	defer func() { w.bursts = old }()
	var wg sync.WaitGroup
	stop := make(chan struct{})
	var upd sync.WaitGroup
	upd.Add(1)
	go func() {
		defer upd.Done()
		for {
			select {
			case <-stop:
				return
			default:
			}
			atomic.AddInt64(&clockNow, int64(time.Millisecond))
			m.alloc.UpdateTSO()
			time.Sleep(20 * time.Microsecond)
		}
	}()
	withSet := op.Rel != "" && !known("C02/update-races-with-reset")
	if op.Rel != "" && !withSet {
		w.info.Exclude("C02/update-races-with-reset")
	}
	if withSet {
		upd.Add(1)
		go func() {
			defer upd.Done()
			for i := 0; i < 3; i++ {
				w.mu.Lock()
				t := w.target(m, op.Rel)
				w.mu.Unlock()
				if m.alloc.SetTSO(t) == nil {
					w.mu.Lock()
					w.acceptedSet++
					w.mu.Unlock()
				}
				time.Sleep(50 * time.Microsecond)
			}
		}()
	}
	for g := 0; g < op.G; g++ {
		wg.Add(1)
		go func() {
			defer wg.Done()
			for r := 0; r < op.R; r++ {
				cnt := op.Count
				if cnt == 0 {
					cnt = 1
				}
				w.gen(m, cnt, false)
			}
		}()
	}
	wg.Wait()
	close(stop)
	upd.Wait()
	w.base = atomic.LoadInt64(&clockNow)
}

// race: tasks on one member released under a generated schedule at etcd-RPC granularity.
func (w *world) race(step int, op Op, m *mem) {
	if m.dead || !m.alloc.IsInitialize() {
		return
	}
	hasUpd, hasSet := false, false
	for _, t := range op.Tasks {
		hasUpd = hasUpd || t.K == "update"
		hasSet = hasSet || t.K == "settso"
	}
	if hasUpd && hasSet && known("C02/update-races-with-reset") {
		w.info.Exclude("C02/update-races-with-reset")
		return
	}
	w.pendingLostAck(m)
	sc := gate.New()
	if op.Fail == "lostack" && op.FailAt != 0 && known("C02/lost-ack-stale-window") {
		// inside a race the other tasks go on after the lost ack: same trigger class
		op.Fail = "before"
		w.info.Exclude("C02/lost-ack-stale-window")
	}
	w.mu.Lock()
	w.raceTxn, w.raceFailAt, w.raceFailKind = 0, op.FailAt, op.Fail
	w.mu.Unlock()
	w.afterGate = op.After
	w.sched = sc
	steppedDown := false
	for i, t := range op.Tasks {
		t := t
		if t.K == "stepdown" {
			steppedDown = true
		}
		sc.Go(i+1, func() {
			switch t.K {
			case "stepdown":
				// what the leader loop does when it leaves campaignLeader after serving: the leadership is given
				// up first (deferred last), the allocator group is reset afterwards
				m.mb.ResetLeader()
				m.am.ResetAllocatorGroup(tso.GlobalDCLocation)
			case "update":
				// the allocator daemon's tick: it looks at the leadership first
				if m.am != nil && !m.mb.IsLeader() && steppedDown {
					return
				}
				m.alloc.UpdateTSO()
			case "settso":
				w.mu.Lock()
				tgt := w.target(m, t.Rel)
				w.mu.Unlock()
				if m.alloc.SetTSO(tgt) == nil {
					w.mu.Lock()
					w.acceptedSet++
					w.mu.Unlock()
				}
			case "gen":
				for k := 0; k < 2; k++ {
					sc.Enter("gen", "")
					w.gen(m, t.Count, false)
				}
			}
		})
	}
	ok := sc.Run(op.Sched, nil)
	sc.Disable()
	if !sc.Wait(60 * time.Second) {
		ok = false
	}
	w.sched = nil
	w.afterGate = false
	w.base = atomic.LoadInt64(&clockNow)
	if steppedDown {
		if w.holder == m.idx && m.leader {
			w.holder = -1
		}
		m.leader, m.inited = false, false
		w.info.Class("race-with-stepdown")
	}
	if !ok {
		w.info.Inconclusive = true
		return
	}
	// interleaved = some task was released between two releases of another task
	seen := map[string]int{}
	var order []string
	for _, tr := range sc.Trace {
		id := strings.SplitN(tr, ":", 2)[0]
		if len(order) == 0 || order[len(order)-1] != id {
			order = append(order, id)
		}
		seen[id]++
	}
	if len(order) > len(seen) {
		w.reordered = true
	}
	sort.Strings(order)
	w.info.Class("race")
}
