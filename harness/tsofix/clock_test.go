package tsofix

import (
	"testing"
	"time"
)

func TestMkTime(t *testing.T) {
	base := time.Date(2021, 6, 1, 12, 0, 0, 0, time.UTC).UnixNano()
	a := mkTime(base, base)
	b := mkTime(base+int64(time.Hour), base) // wall +1h, same monotonic reading
	c := mkTime(base+int64(time.Second), base+int64(time.Second))
	if a.UnixNano() != base || b.UnixNano() != base+int64(time.Hour) || c.UnixNano() != base+int64(time.Second) {
		t.Fatalf("wall parts wrong: %d %d %d", a.UnixNano(), b.UnixNano(), c.UnixNano())
	}
	if d := b.Sub(a); d != 0 {
		t.Fatalf("Sub must follow the monotonic reading: got %v, want 0", d)
	}
	if d := c.Sub(a); d != time.Second {
		t.Fatalf("monotonic difference %v, want 1s", d)
	}
	if b.After(a) || !c.After(b) {
		t.Fatalf("After must follow the monotonic reading")
	}
	if got := b.Add(5 * time.Millisecond).UnixNano(); got != base+int64(time.Hour)+int64(5*time.Millisecond) {
		t.Fatalf("Add broke the wall part: %d", got)
	}
}
