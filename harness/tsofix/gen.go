package tsofix

import (
	"pdverif/vkit"
	"pgregory.net/rapid"
)

var counts = []uint32{1, 1, 1, 2, 10, 1000, 1 << 17, 1<<18 - 2, 1<<18 - 1, 1 << 18, 1<<18 + 1, 1 << 20}
var rels = []string{"same-1", "same", "same+1", "same+big", "-1ms", "+1ms", "edge-2", "edge-1", "edge", "edge+1", "+save", "+1h", "gap-1", "gap", "past"}

// GenCase draws a history. mode "c01": sequential ops + bursts; mode "c02": more
// faults, lost leadership and scheduled races.
func GenCase(t *rapid.T, mode string) Case {
	var c Case
	c.Cfg.Members = rapid.IntRange(1, 3).Draw(t, "members")
	c.Cfg.SaveMs = vkit.PickU(t, []int64{5, 50, 3000}, "save")
	c.Cfg.UpdMs = vkit.PickU(t, []int64{1, 50}, "upd")
	c.Cfg.MaxGapMs = vkit.PickU(t, []int64{1000, 24 * 3600 * 1000}, "gap")
	c.Cfg.TTL = vkit.PickU(t, []int64{600, 100000}, "ttl")
	c.Cfg.UpdaterOnSleep = rapid.Bool().Draw(t, "updOnSleep")
	for i := 0; i < c.Cfg.Members; i++ {
		c.Cfg.Offsets = append(c.Cfg.Offsets, vkit.PickU(t, []int64{0, 0, -3600_000, 3600_000, -1, 1, -c.Cfg.SaveMs - 1}, "off"))
	}
	mem := func() int { return rapid.IntRange(0, c.Cfg.Members-1).Draw(t, "m") }
	deltas := []int64{-3600_000, -c.Cfg.SaveMs - 1, -1, 1, 2, 50, c.Cfg.SaveMs, c.Cfg.SaveMs + 1, 3600_000}
	n := rapid.IntRange(5, 40).Draw(t, "nops")
	// start with a leader most of the time
	if rapid.IntRange(0, 9).Draw(t, "start") != 0 {
		m := mem()
		c.Ops = append(c.Ops, Op{K: "campaign", M: m}, Op{K: "gen", M: m, Count: 1})
	}
	cur := 0
	for len(c.Ops) < n {
		k := vkit.Uni(t, 100, "kind")
		m := cur
		if vkit.Uni(t, 4, "sameMember") == 0 {
			m = mem()
		}
		if mode == "enum" && k >= 82 {
			k = k % 20 // sequential histories only: faults and crash points are enumerated by the runner
		}
		if mode != "enum" && k >= 16 && k < 20 && c.Cfg.SaveMs <= 50 {
			// physical time ahead of the wall clock (reset into the future), then sustained logical
			// exhaustion: every tick steps the physical time by 1 ms, and after saveInterval ticks the
			// stored window must have been extended; finally a take-over
			to := mem()
			c.Ops = append(c.Ops, Op{K: "settso", M: m, Rel: vkit.PickU(t, []string{"+1h", "gap-1", "+save"}, "aheadRel")})
			for i := int64(0); i < c.Cfg.SaveMs+3; i++ {
				c.Ops = append(c.Ops, Op{K: "gen", M: m, Count: 1<<17 + 1}, Op{K: "update", M: m})
			}
			c.Ops = append(c.Ops, Op{K: "gen", M: m, Count: 1})
			for i := 0; i < c.Cfg.Members; i++ {
				c.Ops = append(c.Ops, Op{K: "crash", M: i})
			}
			for i := 0; i < c.Cfg.Members; i++ {
				c.Ops = append(c.Ops, Op{K: "restart", M: i, D: vkit.PickU(t, []int64{0, -3600_000, -1}, "roff3")})
			}
			c.Ops = append(c.Ops, Op{K: "campaign", M: to}, Op{K: "gen", M: to, Count: 1})
			cur = to
			continue
		}
		switch {
		case k < 20:
			c.Ops = append(c.Ops, Op{K: "gen", M: m, Count: vkit.PickU(t, counts, "count")})
		case k < 25:
			// manual reset beyond the stored window, grants up there, then a take-over: the successor
			// must still start above everything granted (needs the reset to have extended the window)
			to := mem()
			c.Ops = append(c.Ops, Op{K: "settso", M: m, Rel: vkit.PickU(t, []string{"edge", "edge+1", "+save", "+1h", "gap-1"}, "farRel")},
				Op{K: "gen", M: m, Count: vkit.PickU(t, []uint32{1, 10, 1000}, "c1")})
			how := vkit.PickU(t, []string{"resign", "crash"}, "how2")
			for i := 0; i < c.Cfg.Members; i++ {
				c.Ops = append(c.Ops, Op{K: how, M: i})
			}
			if how == "crash" {
				for i := 0; i < c.Cfg.Members; i++ {
					c.Ops = append(c.Ops, Op{K: "restart", M: i, D: vkit.PickU(t, []int64{0, -3600_000, -1}, "roff2")})
				}
			}
			c.Ops = append(c.Ops, Op{K: "campaign", M: to}, Op{K: "gen", M: to, Count: 1})
			cur = to
		case k < 37:
			c.Ops = append(c.Ops, Op{K: "clockall", D: vkit.PickU(t, []int64{1, 2, 3, 50, c.Cfg.SaveMs}, "tick")}, Op{K: "update", M: m})
		case k < 45:
			op := Op{K: "update", M: m}
			if rapid.Bool().Draw(t, "stepdown") {
				op.Fail = "stepdown"
			}
			c.Ops = append(c.Ops, op)
		case k < 55:
			c.Ops = append(c.Ops, Op{K: "settso", M: m, Rel: vkit.PickU(t, rels, "rel")}, Op{K: "gen", M: m, Count: 1})
		case k < 61:
			c.Ops = append(c.Ops, Op{K: "clock", M: m, D: vkit.PickU(t, deltas, "d")})
		case k < 65:
			c.Ops = append(c.Ops, Op{K: "clockall", D: vkit.PickU(t, deltas, "d")})
		case k < 72:
			// hand-over: the leader steps down or crashes, another member takes over and grants
			to := mem()
			kind := vkit.PickU(t, []string{"resign", "crash", "crash"}, "how")
			for i := 0; i < c.Cfg.Members; i++ {
				c.Ops = append(c.Ops, Op{K: kind, M: i})
			}
			if kind == "crash" {
				for i := 0; i < c.Cfg.Members; i++ {
					c.Ops = append(c.Ops, Op{K: "restart", M: i, D: vkit.PickU(t, []int64{0, -3600_000, 3600_000, -1, -c.Cfg.SaveMs - 1}, "roff")})
				}
			}
			c.Ops = append(c.Ops, Op{K: "campaign", M: to}, Op{K: "gen", M: to, Count: vkit.PickU(t, counts, "count")})
			cur = to
		case k < 75 && mode != "enum":
			// the allocator daemon's window update races with the leader loop's step-down (scheduling points before and
			// after every etcd RPC); then another member leads and grants, then the first one wins again and a request
			// reaches it before its initialization has finished
			other := mem()
			c.Ops = append(c.Ops, Op{K: "clockall", D: vkit.PickU(t, []int64{c.Cfg.SaveMs - 1, c.Cfg.SaveMs + 1, 50}, "tick3")},
				Op{K: "race", M: m, After: true, Tasks: []Task{{K: "update"}, {K: "stepdown"}},
					Sched: rapid.SliceOfN(rapid.IntRange(0, 3), 0, 10).Draw(t, "sdsched")},
				Op{K: "resign", M: other},
				Op{K: "campaign", M: other}, Op{K: "gen", M: other, Count: vkit.PickU(t, counts, "count")},
				Op{K: "clockall", D: vkit.PickU(t, []int64{0, 1, 50}, "tick4")}, Op{K: "update", M: other}, Op{K: "gen", M: other, Count: 1},
				Op{K: "resign", M: other},
				Op{K: "campaign", M: m, Mid: vkit.PickU(t, []uint32{1, 1, 10}, "mid3")}, Op{K: "gen", M: m, Count: 1})
		case k < 76:
			c.Ops = append(c.Ops, Op{K: "campaign", M: m, Mid: vkit.PickU(t, []uint32{0, 0, 1, 10}, "mid")})
		case k < 77:
			// a take-over that fails while the allocator is initialized (the save of the window fails or its
			// answer is lost), somebody else leads and grants, then the first member wins again and a request
			// reaches it before its initialization has finished
			other := mem()
			c.Ops = append(c.Ops, Op{K: "resign", M: m}, Op{K: "resign", M: other},
				Op{K: "campaign", M: m, Fail: vkit.PickU(t, []string{"init-before", "init-before", "init-lostack"}, "initFail")},
				Op{K: "campaign", M: other}, Op{K: "gen", M: other, Count: vkit.PickU(t, counts, "count")},
				Op{K: "clockall", D: vkit.PickU(t, []int64{0, 1, 50}, "tick2")}, Op{K: "update", M: other}, Op{K: "gen", M: other, Count: 1},
				Op{K: "resign", M: other},
				Op{K: "campaign", M: m, Mid: vkit.PickU(t, []uint32{1, 1, 10}, "mid2")}, Op{K: "gen", M: m, Count: 1})
		case k < 79:
			// the lease runs out while a request is waiting for the next physical tick
			c.Ops = append(c.Ops, Op{K: "nearexpire", M: m, D: vkit.PickU(t, []int64{0, 1, 30, 49, 120}, "before")},
				Op{K: "gen", M: m, Count: 1<<18 - 2}, Op{K: "gen", M: m, Count: vkit.PickU(t, []uint32{1, 10, 1 << 17}, "c2")}, Op{K: "gen", M: m, Count: 1})
		case k < 81 && mode != "enum":
			// a window save (update tick) of m is sent and still under way while m steps down (or
			// crashes and restarts), another member serves a whole term above it, and m is elected again; the delayed
			// request reaches etcd at a generated point: at once, during the other term, between the terms, or in
			// m's next term while its initialisation waits
			other := mem()
			at := vkit.Uni(t, 5, "arrive")
			rel := func(i int) {
				if at == i {
					c.Ops = append(c.Ops, Op{K: "release", M: m})
				}
			}
			c.Ops = append(c.Ops, Op{K: "resign", M: other}, Op{K: "campaign", M: m}, Op{K: "gen", M: m, Count: 1},
				Op{K: "clockall", D: vkit.PickU(t, []int64{c.Cfg.SaveMs - 1, c.Cfg.SaveMs + 1, 50}, "tick5")},
				Op{K: "hold", M: m})
			rel(0)
			if vkit.Uni(t, 3, "hcrash") == 0 {
				c.Ops = append(c.Ops, Op{K: "crash", M: m}, Op{K: "restart", M: m})
			} else {
				c.Ops = append(c.Ops, Op{K: "resign", M: m})
			}
			rel(1)
			c.Ops = append(c.Ops, Op{K: "campaign", M: other},
				Op{K: "settso", M: other, Rel: vkit.PickU(t, []string{"+1h", "+save", "edge+1", "gap-1", "+1ms"}, "orel")},
				Op{K: "gen", M: other, Count: vkit.PickU(t, counts, "count")})
			rel(2)
			c.Ops = append(c.Ops, Op{K: "clockall", D: vkit.PickU(t, []int64{0, 1, 50}, "tick6")}, Op{K: "update", M: other}, Op{K: "gen", M: other, Count: 1},
				Op{K: "resign", M: other})
			rel(3)
			// at == 4: the request arrives while m initialises its next term
			c.Ops = append(c.Ops, Op{K: "campaign", M: m}, Op{K: "gen", M: m, Count: 1},
				Op{K: "clockall", D: c.Cfg.SaveMs + 1}, Op{K: "update", M: m}, Op{K: "gen", M: m, Count: 1})
		case k < 82:
			c.Ops = append(c.Ops, Op{K: "resign", M: m})
		case k < 88:
			c.Ops = append(c.Ops, Op{K: "fail", M: m, Fail: vkit.PickU(t, []string{"before", "lostack"}, "fk")})
		case k < 91:
			c.Ops = append(c.Ops, Op{K: "losekey", M: m, Fail: vkit.PickU(t, []string{"overwrite", "delete"}, "lk")},
				Op{K: "clockall", D: c.Cfg.SaveMs + 2}, Op{K: "update", M: m}, Op{K: "gen", M: m, Count: 1})
		case k < 96:
			if mode == "c01" || rapid.Bool().Draw(t, "burstInC02") {
				op := Op{K: "burst", M: m, G: rapid.IntRange(2, 8).Draw(t, "g"), R: vkit.PickU(t, []int{5, 40, 150}, "r"),
					Count: vkit.PickU(t, []uint32{1, 1, 10, 5000, 1 << 16}, "bcount")}
				if rapid.IntRange(0, 2).Draw(t, "burstSet") == 0 {
					op.Rel = vkit.PickU(t, []string{"+1ms", "edge-1", "edge", "edge+1", "+save", "+1h"}, "brel")
				}
				c.Ops = append(c.Ops, op)
				break
			}
			fallthrough
		default:
			op := Op{K: "race", M: m, Sched: rapid.SliceOfN(rapid.IntRange(0, 4), 0, 12).Draw(t, "sched")}
			nt := rapid.IntRange(2, 4).Draw(t, "ntasks")
			for i := 0; i < nt; i++ {
				switch rapid.IntRange(0, 3).Draw(t, "tk") {
				case 0, 1:
					op.Tasks = append(op.Tasks, Task{K: "settso", Rel: vkit.PickU(t, []string{"+1ms", "edge-2", "edge-1", "edge", "edge+1", "+save", "+1h", "same+1"}, "trel")})
				case 2:
					op.Tasks = append(op.Tasks, Task{K: "update"})
				default:
					op.Tasks = append(op.Tasks, Task{K: "gen", Count: vkit.PickU(t, []uint32{1, 10, 1 << 17}, "tcount")})
				}
			}
			if rapid.IntRange(0, 3).Draw(t, "raceFault") == 0 {
				op.FailAt = rapid.IntRange(1, 3).Draw(t, "failAt")
				op.Fail = vkit.PickU(t, []string{"before", "lostack"}, "rfk")
			}
			// make the window nearly used so that an update has to save
			c.Ops = append(c.Ops, Op{K: "clockall", D: c.Cfg.SaveMs - 1}, op, Op{K: "gen", M: m, Count: 1})
		}
	}
	return c
}
