package c20

// Property "forwarded": the refusal rule on both routes a client can take to the PD leader.
//
// ONE live 2-member cluster per process (tests.NewTestCluster, Local TSO off), bootstrapped once
// through the leader. The request programs of property "refusal" (every unary RPC and the Tso /
// RegionHeartbeat / SyncRegions streams x header cluster id {right, right+1, 0, random, missing},
// PutClusterConfig payloads) are sent step by step either directly to the leader or — most steps —
// to the FOLLOWER with the pd-forwarded-host metadata naming the leader
// (grpcutil.BuildForwardContext), which is what the official client does when it cannot reach the
// leader: the follower proxies unary RPCs, Tso and RegionHeartbeat streams to the leader.
//
// Oracle: unchanged. A request whose header carries another cluster id is refused on every route and
// changes nothing (raw dump of the cluster root, wider observables, id probes — all read on the
// leader / through the harness' own etcd client); a right-id request behaves as on the direct route.
// What differs on the forwarded route, classified once from server/grpc_service.go:
//   * unary RPCs: the follower returns the leader's status unchanged (same refusal as direct);
//   * Tso: the follower's proxy returns the leader's status wrapped (errors.WithStack): the caller
//     sees code Unknown with the original "code = FailedPrecondition desc = mismatch cluster id" text;
//   * RegionHeartbeat: as Tso, and the follower learns of the leader's refusal asynchronously and
//     reports it only when it handles the caller's next request (see forwardedWrongHeartbeat); the
//     leader's state decides;
//   * SyncRegions and GetMembers are not forwarded: the follower answers itself (same cluster id,
//     same check); a right-id SyncRegions on the follower may legitimately send nothing.
// No leader changes in this property (programs contain no re-election step).
//
// Address space: every embedded etcd maps ~10 GB and the driver limits a shard to 24 GB, so the
// 1-member server of the other properties and the etcd of "clusterid" are closed before the
// 2-member cluster starts: this property must stay the LAST registered one (init order = file name
// order, hence the file name).

import (
	"context"
	"fmt"
	"os"
	"path/filepath"
	"strings"
	"sync"
	"time"

	"github.com/pingcap/kvproto/pkg/metapb"
	"github.com/pingcap/kvproto/pkg/pdpb"
	"github.com/tikv/pd/server"
	"github.com/tikv/pd/server/config"
	"github.com/tikv/pd/tests"
	"go.etcd.io/etcd/clientv3"
	"google.golang.org/grpc"
	"pdverif/vkit"
	"pdverif/vkit/etcdfix"
	"pgregory.net/rapid"
)

func init() {
	vkit.Register("forwarded", vkit.N{Quick: 48, Thorough: 1600}, genForwarded, runForwarded)
}

func genForwarded(t *rapid.T) RefCase {
	base := genRefusal(t)
	var c RefCase
	for _, st := range base.Steps {
		if st.K == "reelect" {
			continue
		}
		if rapid.IntRange(0, 3).Draw(t, "route") != 0 {
			st.Via = 1
		}
		c.Steps = append(c.Steps, st)
	}
	return c
}

type fwdFix struct {
	lf       *liveFix // the leader seen as a fixture: svr, own etcd client, raw KV, gRPC connection
	fconn    *grpc.ClientConn
	follower *server.Server
	cancel   context.CancelFunc
	dirs     []string
}

var (
	fwdMu      sync.Mutex
	fwdCur     *fwdFix
	fwdFailed  bool
	etcdClosed bool
)

func within(d time.Duration, f func()) bool {
	done := make(chan struct{})
	go func() {
		defer func() { recover() }()
		f()
		close(done)
	}()
	select {
	case <-done:
		return true
	case <-time.After(d):
		return false
	}
}

// closeSharedEtcd closes the per-process etcd of "clusterid" exactly once.
func closeSharedEtcd() {
	if !etcdClosed {
		etcdClosed = true
		etcdfix.Close()
	}
}

func shutdownFwd() {
	fwdMu.Lock()
	defer fwdMu.Unlock()
	if fwdCur == nil {
		return
	}
	x := fwdCur
	fwdCur = nil
	if x.lf.conn != nil {
		x.lf.conn.Close()
	}
	if x.fconn != nil {
		x.fconn.Close()
	}
	if x.lf.own != nil {
		x.lf.own.Close()
	}
	// runs right before the process exits: a graceful stop of two members takes ~10 s and buys
	// nothing; only the data directories have to go
	x.cancel()
	for _, d := range x.dirs {
		os.RemoveAll(d)
	}
}

func getFwd() *fwdFix {
	fwdMu.Lock()
	defer fwdMu.Unlock()
	if fwdCur != nil || fwdFailed {
		return fwdCur
	}
	// give the address space of the other fixtures back first
	shutdownLive()
	closeSharedEtcd()
	ctx, cancel := context.WithCancel(context.Background())
	var cl *tests.TestCluster
	var err error
	x := &fwdFix{cancel: cancel}
	fail := func(why string, a ...interface{}) *fwdFix {
		fmt.Printf("c20 forwarded: %s (inconclusive)\n", fmt.Sprintf(why, a...))
		fwdFailed = true
		if x.lf != nil && x.lf.conn != nil {
			x.lf.conn.Close()
		}
		if x.fconn != nil {
			x.fconn.Close()
		}
		if x.lf != nil && x.lf.own != nil {
			x.lf.own.Close()
		}
		cancel()
		if cl != nil {
			within(20*time.Second, func() { cl.Destroy() })
		}
		for _, d := range x.dirs {
			os.RemoveAll(d)
		}
		return nil
	}
	fwdBase := filepath.Join(os.TempDir(), fmt.Sprintf("verif-c20-fwd-%d", os.Getpid()))
	x.dirs = append(x.dirs, fwdBase)
	ok := within(90*time.Second, func() {
		cl, err = tests.NewTestCluster(ctx, 2, func(conf *config.Config, name string) {
			conf.EnableLocalTSO = false
			conf.Log.Level = "fatal"
			conf.LeaderLease = 10
			// the members' data below one directory of this process
			os.Remove(conf.DataDir)
			conf.DataDir = filepath.Join(fwdBase, name)
		})
		if err == nil {
			for _, s := range cl.GetServers() {
				x.dirs = append(x.dirs, s.GetConfig().DataDir)
			}
			err = cl.RunInitialServers()
		}
	})
	if !ok || err != nil || cl == nil {
		return fail("the 2-member cluster did not start: ok=%v err=%v", ok, err)
	}
	leaderName := ""
	deadline := time.Now().Add(60 * time.Second)
	for leaderName == "" && time.Now().Before(deadline) {
		leaderName = cl.WaitLeader(tests.WithRetryTimes(1), tests.WithWaitInterval(50*time.Millisecond))
		if leaderName == "" {
			time.Sleep(100 * time.Millisecond)
		}
	}
	if leaderName == "" {
		return fail("no PD leader in time")
	}
	var ls, fs *tests.TestServer
	for name, s := range cl.GetServers() {
		if name == leaderName {
			ls = s
		} else {
			fs = s
		}
	}
	if ls == nil || fs == nil {
		return fail("no follower")
	}
	lsvr := ls.GetServer()
	x.follower = fs.GetServer()
	lf := &liveFix{svr: lsvr, kvw: &gateKV{}}
	x.lf = lf
	lf.plan.Store((*faultPlan)(nil))
	dial := func(addr string) (*grpc.ClientConn, error) {
		dctx, dcancel := context.WithTimeout(context.Background(), 15*time.Second)
		defer dcancel()
		return grpc.DialContext(dctx, strings.TrimPrefix(addr, "http://"), grpc.WithInsecure(), grpc.WithBlock())
	}
	if lf.conn, err = dial(lsvr.GetAddr()); err != nil {
		return fail("dial leader: %v", err)
	}
	if x.fconn, err = dial(x.follower.GetAddr()); err != nil {
		return fail("dial follower: %v", err)
	}
	if lf.own, err = clientv3.New(clientv3.Config{Endpoints: []string{lsvr.GetAddr()}, DialTimeout: 15 * time.Second}); err != nil {
		return fail("etcd client: %v", err)
	}
	lf.raw = clientv3.NewKV(lsvr.GetClient())
	// bootstrap through the leader, over the wire
	cli := pdpb.NewPDClient(lf.conn)
	bctx, bcancel := context.WithTimeout(context.Background(), 30*time.Second)
	defer bcancel()
	resp, err := cli.Bootstrap(bctx, &pdpb.BootstrapRequest{
		Header: &pdpb.RequestHeader{ClusterId: lsvr.ClusterID()},
		Store:  &metapb.Store{Id: refStore, Address: "tikv-ref:20160", Version: "5.0.0"},
		Region: &metapb.Region{Id: refRegion, RegionEpoch: &metapb.RegionEpoch{ConfVer: 1, Version: 1},
			Peers: []*metapb.Peer{{Id: refPeer, StoreId: refStore}}},
	})
	if err != nil || resp.GetHeader().GetError() != nil {
		return fail("bootstrap: %v %v", err, resp.GetHeader().GetError())
	}
	lf.refMeta = &metapb.Cluster{Id: lsvr.ClusterID(), MaxPeerCount: uint32(lsvr.GetPersistOptions().GetMaxReplicas())}
	r := &refRun{f: lf, cli: cli, cid: lsvr.ClusterID(), streams: map[string]*rstream{}}
	r.version = 1
	herr := r.heartbeat(RStep{K: "hb"}, "setup")
	r.closeStreams()
	if herr != nil {
		return fail("setup heartbeat: %v", herr)
	}
	deadline = time.Now().Add(10 * time.Second)
	for lsvr.GetRaftCluster() == nil || lsvr.GetRaftCluster().GetRegionSyncer().VerifNextIndex() == 0 {
		if time.Now().After(deadline) {
			return fail("region syncer recorded nothing")
		}
		time.Sleep(2 * time.Millisecond)
	}
	lf.refReady = true
	fwdCur = x
	return x
}

func runForwarded(c RefCase) (vkit.Info, error) {
	var info vkit.Info
	x := getFwd()
	if x == nil {
		info.Inconclusive = true
		return info, nil
	}
	lf := x.lf
	// the roles must still be the ones the fixture was built with
	if lf.svr.IsClosed() || !lf.svr.GetMember().IsLeader() || lf.svr.GetRaftCluster() == nil || x.follower.GetMember().IsLeader() {
		fmt.Printf("c20 forwarded: the leader changed (inconclusive)\n")
		fwdMu.Lock()
		fwdFailed = true
		fwdMu.Unlock()
		info.Inconclusive = true
		return info, nil
	}
	r := &refRun{f: lf, cli: pdpb.NewPDClient(lf.conn), fcli: pdpb.NewPDClient(x.fconn), leader: lf.svr.GetAddr(),
		cid: lf.svr.ClusterID(), streams: map[string]*rstream{}}
	nFwd := 0
	for _, st := range c.Steps {
		if st.Via == 1 {
			nFwd++
			info.Class("forwarded-" + st.K)
		}
	}
	err := runProgram(lf, r, c, &info)
	info.NonTrivial = info.NonTrivial && nFwd > 0
	return info, err
}
