package c20

// Property "bootstrap": concurrent and repeated pdpb Bootstrap requests against a live
// 1-member PD server (real embedded etcd, real leader election, real RaftCluster).
//
// One server per test process. Before every case the server is put back into the
// never-bootstrapped state with exported API only: the raft cluster is stopped, every key
// under the cluster root (<root>/raft, raft/s/*, raft/r/*, raft/status/*) is deleted from the
// server's etcd, the cached stores/regions are replaced by empty ones and the server gets a
// fresh core.Storage (etcd KV + a fresh leveldb region storage, switched the way the leader
// switches it). The pre-state is verified (cluster not running, nothing stored) before the
// case starts; if it cannot be established the fixture is restarted / the case is inconclusive.
//
// The bootstrap txn is intercepted through the public KV field of the server's etcd client
// (every kv.NewSlowLogTxn(client) goes through it): in "gate" mode all requests that get as
// far as the txn are parked there and released in the generated order.

import (
	"context"
	"fmt"
	"os"
	"path"
	"path/filepath"
	"sort"
	"strconv"
	"strings"
	"sync"
	"sync/atomic"
	"time"

	"github.com/gogo/protobuf/proto"
	"github.com/pingcap/kvproto/pkg/metapb"
	"github.com/pingcap/kvproto/pkg/pdpb"
	"github.com/tikv/pd/server"
	"github.com/tikv/pd/server/config"
	"github.com/tikv/pd/server/core"
	"github.com/tikv/pd/server/kv"
	"github.com/tikv/pd/tests"
	"go.etcd.io/etcd/clientv3"
	"google.golang.org/grpc"
	"google.golang.org/grpc/codes"
	"google.golang.org/grpc/status"
	"pdverif/vkit"
	"pdverif/vkit/gate"
	"pgregory.net/rapid"
)

var bootstrapN = vkit.N{Quick: 400, Thorough: 16000}

// ---------------------------------------------------------------- case data

// malformed kinds: each violates exactly one clause of the request validation.
var badKinds = []string{"nostore", "store0", "noregion", "startkey", "endkey", "region0", "nopeers", "twopeers", "peer0", "peerstore"}

// Req is one bootstrap request. Its ids are derived from its position in the case
// (distinct store / region / peer ids for every request).
type Req struct {
	Kind    string `json:"kind"`              // ok | one of badKinds
	WrongID int    `json:"wrongId,omitempty"` // 0 right cluster id; 1 id+1; 2 zero id; 3 no header at all; 4 arbitrary other id
	Labels  int    `json:"labels,omitempty"`  // number of store labels (payload variety)
}

type BootCase struct {
	IDBase  uint64 `json:"idBase"`
	Pre     []Req  `json:"pre,omitempty"`     // refused requests sent one by one before the race
	Reqs    []Req  `json:"reqs"`              // the race: 2..6 concurrent requests
	Mode    string `json:"mode"`              // gate | free
	Sched   []int  `json:"sched,omitempty"`   // gate: release order of the parked bootstrap txns
	Late    []Req  `json:"late,omitempty"`    // fresh requests sent one by one afterwards
	Repeat  bool   `json:"repeat,omitempty"`  // re-send every earlier request afterwards
	Reelect bool   `json:"reelect,omitempty"` // the leader steps down and is re-elected, then requests are repeated
}

func genReq(t *rapid.T, pOK int) Req {
	r := Req{Kind: "ok"}
	if rapid.IntRange(0, 9).Draw(t, "wellformed") >= pOK {
		r.Kind = rapid.SampledFrom(badKinds).Draw(t, "bad")
	}
	if rapid.IntRange(0, 5).Draw(t, "hdr") == 0 {
		r.WrongID = rapid.IntRange(1, 4).Draw(t, "wrongId")
	}
	r.Labels = rapid.IntRange(0, 2).Draw(t, "labels")
	return r
}

func genBoot(t *rapid.T) BootCase {
	c := BootCase{IDBase: rapid.SampledFrom([]uint64{0, 0, 1000, 1 << 32, 1 << 62}).Draw(t, "idBase")}
	npre := rapid.IntRange(0, 3).Draw(t, "npre")
	for i := 0; i < npre; i++ {
		r := genReq(t, 0) // malformed, or at least a wrong id
		if r.Kind == "ok" && r.WrongID == 0 {
			r.WrongID = 1
		}
		c.Pre = append(c.Pre, r)
	}
	k := rapid.IntRange(2, 6).Draw(t, "k")
	for i := 0; i < k; i++ {
		c.Reqs = append(c.Reqs, genReq(t, 6))
	}
	c.Mode = rapid.SampledFrom([]string{"gate", "gate", "gate", "free"}).Draw(t, "mode")
	if c.Mode == "gate" {
		c.Sched = rapid.SliceOfN(rapid.IntRange(0, 5), 0, 8).Draw(t, "sched")
	}
	nlate := rapid.IntRange(0, 2).Draw(t, "nlate")
	for i := 0; i < nlate; i++ {
		c.Late = append(c.Late, genReq(t, 6))
	}
	c.Repeat = rapid.IntRange(0, 2).Draw(t, "repeat") != 0
	c.Reelect = rapid.IntRange(0, 5).Draw(t, "reelect") == 0
	return c
}

// inst is a request instantiated for the running server.
type inst struct {
	spec  Req
	idx   int
	req   *pdpb.BootstrapRequest
	valid bool // well-formed payload AND the right cluster id
	name  string
}

func mkInst(c BootCase, r Req, idx int, cid uint64) *inst {
	base := c.IDBase + uint64(idx)*4
	sid, rid, pid := base+1, base+2, base+3
	store := &metapb.Store{Id: sid, Address: fmt.Sprintf("tikv-%d:20160", idx), Version: "5.0.0", StatusAddress: fmt.Sprintf("tikv-%d:20180", idx)}
	for l := 0; l < r.Labels; l++ {
		store.Labels = append(store.Labels, &metapb.StoreLabel{Key: []string{"zone", "host"}[l], Value: fmt.Sprintf("v%d-%d", idx, l)})
	}
	region := &metapb.Region{Id: rid, RegionEpoch: &metapb.RegionEpoch{ConfVer: 1, Version: 1},
		Peers: []*metapb.Peer{{Id: pid, StoreId: sid}}}
	req := &pdpb.BootstrapRequest{Store: store, Region: region}
	switch r.Kind {
	case "nostore":
		req.Store = nil
	case "store0":
		store.Id = 0
		region.Peers[0].StoreId = 0
	case "noregion":
		req.Region = nil
	case "startkey":
		region.StartKey = []byte("a")
	case "endkey":
		region.EndKey = []byte("z")
	case "region0":
		region.Id = 0
	case "nopeers":
		region.Peers = nil
	case "twopeers":
		region.Peers = append(region.Peers, &metapb.Peer{Id: base + 4, StoreId: sid})
	case "peer0":
		region.Peers[0].Id = 0
	case "peerstore":
		region.Peers[0].StoreId = sid + 1000003
	}
	switch r.WrongID {
	case 0:
		req.Header = &pdpb.RequestHeader{ClusterId: cid}
	case 1:
		req.Header = &pdpb.RequestHeader{ClusterId: cid + 1}
	case 2:
		req.Header = &pdpb.RequestHeader{ClusterId: 0}
	case 3:
		req.Header = nil
	default:
		req.Header = &pdpb.RequestHeader{ClusterId: cid ^ 0x5555}
	}
	return &inst{spec: r, idx: idx, req: req, valid: r.Kind == "ok" && r.WrongID == 0,
		name: fmt.Sprintf("request #%d (%s, wrongId=%d, store %d region %d)", idx, r.Kind, r.WrongID, sid, rid)}
}

// ---------------------------------------------------------------- the intercepting KV

type txnInfo struct {
	puts      map[string]string
	succeeded bool
	err       error
}

type txnHooks struct {
	before func(*txnInfo)
	after  func(*txnInfo)
}

// gateKV replaces the public KV field of the server's etcd client. Only Txn is intercepted.
type gateKV struct {
	clientv3.KV
	hooks atomic.Value // *txnHooks
}

func (g *gateKV) set(h *txnHooks) { g.hooks.Store(h) }

func (g *gateKV) Txn(ctx context.Context) clientv3.Txn {
	return &gateTxn{Txn: g.KV.Txn(ctx), g: g, info: &txnInfo{puts: map[string]string{}}}
}

type gateTxn struct {
	clientv3.Txn
	g    *gateKV
	info *txnInfo
}

func (t *gateTxn) If(cs ...clientv3.Cmp) clientv3.Txn { t.Txn = t.Txn.If(cs...); return t }
func (t *gateTxn) Then(ops ...clientv3.Op) clientv3.Txn {
	for _, op := range ops {
		if op.IsPut() {
			t.info.puts[string(op.KeyBytes())] = string(op.ValueBytes())
		}
	}
	t.Txn = t.Txn.Then(ops...)
	return t
}
func (t *gateTxn) Else(ops ...clientv3.Op) clientv3.Txn { t.Txn = t.Txn.Else(ops...); return t }
func (t *gateTxn) Commit() (*clientv3.TxnResponse, error) {
	h, _ := t.g.hooks.Load().(*txnHooks)
	if h != nil && h.before != nil {
		h.before(t.info)
	}
	resp, err := t.Txn.Commit()
	t.info.err = err
	t.info.succeeded = err == nil && resp.Succeeded
	if h != nil && h.after != nil {
		h.after(t.info)
	}
	return resp, err
}

// ---------------------------------------------------------------- the live server (per process)

type liveFix struct {
	cluster *tests.TestCluster
	cancel  context.CancelFunc
	svr     *server.Server
	orig    *core.Storage
	kvw     *gateKV
	raw     clientv3.KV // reads/deletes that bypass the interception
	cur     *core.Storage
	curDir  string
	cases   int
	broken  bool
	// used by the "refusal" property (refusal_test.go)
	conn     *grpc.ClientConn
	own      *clientv3.Client // the harness' own etcd client (raw dumps of the persisted cluster records)
	refReady bool
	refMeta  *metapb.Cluster // the cluster meta fixed at the refusal fixture's bootstrap (+ accepted config changes)
}

var (
	liveMu       sync.Mutex
	liveCur      *liveFix
	liveFailures int
	liveDirs     []string
)

const (
	liveStartAttempts = 4
	liveMaxFailures   = 3 // after that many failed start-ups every further case is inconclusive at once
)

// a brand-new server (new cluster id, new etcd) every so many cases
var liveRestartEvery = func() int {
	if n, err := strconv.Atoi(os.Getenv("VERIF_C20_RESTART_EVERY")); err == nil && n > 0 {
		return n
	}
	return 400
}()

func getLive() (*liveFix, error) {
	liveMu.Lock()
	defer liveMu.Unlock()
	if liveCur != nil && (liveCur.broken || liveCur.cases >= liveRestartEvery) {
		stopLive(liveCur)
		liveCur = nil
	}
	if liveCur != nil {
		return liveCur, nil
	}
	if liveFailures >= liveMaxFailures {
		return nil, fmt.Errorf("live server start-up failed %d times", liveFailures)
	}
	var last error
	for i := 0; i < liveStartAttempts; i++ {
		f, err := startLive()
		if err == nil {
			liveCur = f
			return f, nil
		}
		last = err
		time.Sleep(time.Duration(300*(i+1)) * time.Millisecond)
	}
	liveFailures++
	return nil, last
}

func startLive() (f *liveFix, err error) {
	ctx, cancel := context.WithCancel(context.Background())
	var cl *tests.TestCluster
	defer func() {
		if r := recover(); r != nil {
			err = fmt.Errorf("panic while starting the server: %v", r)
		}
		if err != nil {
			cancel()
			if cl != nil {
				cl.Destroy()
			}
		}
	}()
	cl, err = tests.NewTestCluster(ctx, 1, func(conf *config.Config, _ string) {
		conf.Log.Level = "fatal"
		conf.LeaderLease = 10 // a starved shard process must not lose its lease in the middle of a case
	})
	if err != nil {
		return nil, err
	}
	f = &liveFix{cluster: cl, cancel: cancel, kvw: &gateKV{}}
	for _, ts := range cl.GetServers() {
		svr := ts.GetServer()
		f.svr = svr
		liveDirs = append(liveDirs, svr.GetConfig().DataDir)
		// install the interception before any server loop uses the client
		svr.AddStartCallback(func() {
			c := svr.GetClient()
			f.kvw.KV = c.KV
			c.KV = f.kvw
		})
	}
	errc := make(chan error, 1)
	go func() {
		defer func() {
			if r := recover(); r != nil {
				errc <- fmt.Errorf("panic: %v", r)
			}
		}()
		errc <- cl.RunInitialServers()
	}()
	select {
	case err = <-errc:
		if err != nil {
			return nil, err
		}
	case <-time.After(60 * time.Second):
		return nil, fmt.Errorf("server did not come up within 60s")
	}
	if !f.waitLeader(40 * time.Second) {
		return nil, fmt.Errorf("no leader within 40s")
	}
	if f.kvw.KV == nil {
		return nil, fmt.Errorf("txn interception was not installed")
	}
	f.orig = f.svr.GetStorage()
	f.raw = clientv3.NewKV(f.svr.GetClient())
	return f, nil
}

func (f *liveFix) waitLeader(d time.Duration) bool {
	deadline := time.Now().Add(d)
	for time.Now().Before(deadline) {
		if !f.svr.IsClosed() && f.svr.GetMember().IsLeader() {
			return true
		}
		time.Sleep(5 * time.Millisecond)
	}
	return false
}

func stopLive(f *liveFix) {
	f.kvw.set(nil)
	if f.conn != nil {
		f.conn.Close()
		f.conn = nil
	}
	if f.own != nil {
		f.own.Close()
		f.own = nil
	}
	done := make(chan struct{})
	go func() {
		defer close(done)
		defer func() { recover() }()
		if rc := f.svr.GetRaftCluster(); rc != nil {
			rc.Stop()
		}
		f.svr.SetStorage(f.orig)
		f.dropStorage()
		f.cluster.Destroy()
		f.cancel()
	}()
	select {
	case <-done:
	case <-time.After(20 * time.Second):
	}
	os.RemoveAll(f.svr.GetConfig().DataDir)
}

func shutdownLive() {
	liveMu.Lock()
	defer liveMu.Unlock()
	if liveCur != nil {
		stopLive(liveCur)
		liveCur = nil
	}
	// data directories of every server this process ever started (also of start-ups that failed half-way)
	for _, d := range liveDirs {
		os.RemoveAll(d)
	}
	liveDirs = nil
}

func (f *liveFix) dropStorage() {
	if f.cur != nil {
		f.cur.Close()
		f.cur = nil
	}
	if f.curDir != "" {
		os.RemoveAll(f.curDir)
		f.curDir = ""
	}
}

func (f *liveFix) ctx() (context.Context, context.CancelFunc) {
	return context.WithTimeout(context.Background(), 10*time.Second)
}

// snapshot reads every key under the cluster root: key -> "modRevision:value".
func (f *liveFix) snapshot() (map[string]string, map[string]string, error) {
	root := f.svr.GetClusterRootPath()
	ctx, cancel := f.ctx()
	defer cancel()
	vals, revs := map[string]string{}, map[string]string{}
	for _, q := range []struct {
		k   string
		opt []clientv3.OpOption
	}{{root, nil}, {root + "/", []clientv3.OpOption{clientv3.WithPrefix()}}} {
		resp, err := f.raw.Get(ctx, q.k, q.opt...)
		if err != nil {
			return nil, nil, err
		}
		for _, kvp := range resp.Kvs {
			vals[string(kvp.Key)] = string(kvp.Value)
			revs[string(kvp.Key)] = fmt.Sprintf("%d/%d", kvp.CreateRevision, kvp.ModRevision)
		}
	}
	return vals, revs, nil
}

// reset puts the server back into the never-bootstrapped state.
func (f *liveFix) reset() error {
	f.kvw.set(nil)
	f.refReady = false
	if !f.waitLeader(30 * time.Second) {
		return fmt.Errorf("server is not leader")
	}
	svr := f.svr
	if rc := svr.GetRaftCluster(); rc != nil {
		rc.Stop()
	}
	root := svr.GetClusterRootPath()
	ctx, cancel := f.ctx()
	defer cancel()
	if _, err := f.raw.Delete(ctx, root); err != nil {
		return err
	}
	if _, err := f.raw.Delete(ctx, root+"/", clientv3.WithPrefix()); err != nil {
		return err
	}
	// fresh storage, as startServer builds it and reloadConfigFromKV switches it
	svr.SetStorage(f.orig)
	f.dropStorage()
	dir := filepath.Join(svr.GetConfig().DataDir, fmt.Sprintf("verif-region-meta-%d", f.cases))
	rs, err := core.NewRegionStorage(svr.Context(), dir, nil)
	if err != nil {
		return err
	}
	st := core.NewStorage(kv.NewEtcdKVBase(svr.GetClient(), svr.GetServerRootPath()), core.WithRegionStorage(rs))
	if svr.GetPersistOptions().IsUseRegionStorage() {
		st.SwitchToRegionStorage()
	}
	f.cur, f.curDir = st, dir
	svr.SetStorage(st)
	// empty cache
	bc := svr.GetBasicCluster()
	bc.Lock()
	bc.Stores = core.NewStoresInfo()
	bc.Regions = core.NewRegionsInfo()
	bc.Unlock()
	// verify the pre-state
	if svr.GetRaftCluster() != nil {
		return fmt.Errorf("raft cluster still running after reset")
	}
	vals, _, err := f.snapshot()
	if err != nil {
		return err
	}
	if len(vals) != 0 {
		return fmt.Errorf("keys left under the cluster root after reset: %d", len(vals))
	}
	if ok, err := st.LoadMeta(&metapb.Cluster{}); err != nil || ok {
		return fmt.Errorf("cluster meta still loadable after reset (%v, %v)", ok, err)
	}
	f.cases++
	return nil
}

// ---------------------------------------------------------------- running a case

type outcome struct {
	ok      bool // a response without error header
	already bool // ALREADY_BOOTSTRAPPED in the response header
	otherHd string
	err     string
	code    codes.Code
	panic   string
	hdrID   uint64
}

func (o outcome) String() string {
	switch {
	case o.panic != "":
		return "panic: " + o.panic
	case o.ok:
		return "success"
	case o.already:
		return "ALREADY_BOOTSTRAPPED"
	case o.otherHd != "":
		return "header error " + o.otherHd
	default:
		return fmt.Sprintf("error(%s) %s", o.code, o.err)
	}
}

func (o outcome) refused() bool {
	return o.panic == "" && !o.ok && o.otherHd == "" && (o.already || o.err != "")
}

func callBootstrap(svr *server.Server, in *inst) (o outcome) {
	defer func() {
		if r := recover(); r != nil {
			o = outcome{panic: fmt.Sprint(r)}
		}
	}()
	ctx, cancel := context.WithTimeout(context.Background(), 60*time.Second)
	defer cancel()
	resp, err := svr.Bootstrap(ctx, proto.Clone(in.req).(*pdpb.BootstrapRequest))
	if err != nil {
		return outcome{err: err.Error(), code: status.Code(err)}
	}
	if resp == nil {
		return outcome{err: "nil response and nil error"}
	}
	if e := resp.GetHeader().GetError(); e != nil {
		if e.GetType() == pdpb.ErrorType_ALREADY_BOOTSTRAPPED {
			return outcome{already: true, hdrID: resp.GetHeader().GetClusterId()}
		}
		return outcome{otherHd: e.String()}
	}
	return outcome{ok: true, hdrID: resp.GetHeader().GetClusterId()}
}

type bootRun struct {
	f       *liveFix
	svr     *server.Server
	cid     uint64
	root    string
	winner  *inst
	all     []*inst
	lastVal map[string]string
	lastRev map[string]string
	mu      sync.Mutex
	commits []string // store keys of bootstrap txns that etcd reported as succeeded
}

// classify checks what holds for the outcome of a request whenever it is sent: a wrong cluster
// id is refused as such, a malformed payload is refused, anything else succeeds or is refused.
func (b *bootRun) classify(in *inst, o outcome, stage string) error {
	if o.panic != "" {
		return fmt.Errorf("%s: %s panicked: %s", stage, in.name, o.panic)
	}
	if envError(o.err) || strings.Contains(o.err, "not leader") {
		return errInconclusive
	}
	if in.spec.WrongID != 0 {
		// refused before anything else: not a payload error, not ALREADY_BOOTSTRAPPED, never a success
		if o.ok || o.already || o.code != codes.FailedPrecondition || !strings.Contains(o.err, "mismatch cluster id") {
			return fmt.Errorf("%s: %s carries a wrong cluster id (server %d) and must be refused as a cluster-id mismatch, got: %v", stage, in.name, b.cid, o)
		}
		return nil
	}
	if in.spec.Kind != "ok" {
		if !o.refused() {
			return fmt.Errorf("%s: malformed %s must be refused, got: %v", stage, in.name, o)
		}
		return nil
	}
	if o.ok {
		if o.hdrID != b.cid {
			return fmt.Errorf("%s: %s succeeded with cluster id %d in the response header, server has %d", stage, in.name, o.hdrID, b.cid)
		}
		return nil
	}
	if !o.refused() {
		return fmt.Errorf("%s: %s neither succeeded nor was refused with an error / ALREADY_BOOTSTRAPPED: %v", stage, in.name, o)
	}
	return nil
}

func protoEq(a, b proto.Message) bool { return proto.Equal(a, b) }

// verify compares everything observable with the oracle's view: nothing stored and nothing
// served before a success; exactly the winner's payload afterwards. If unchanged is true the
// etcd records must also be byte- and revision-identical to the previous verification.
func (b *bootRun) verify(stage string, unchanged bool) error {
	svr := b.svr
	if !b.f.waitLeader(20 * time.Second) {
		return errInconclusive
	}
	vals, revs, err := b.f.snapshot()
	if err != nil {
		return errInconclusive
	}
	st := svr.GetStorage()
	rc := svr.GetRaftCluster()
	ctx, cancel := b.f.ctx()
	defer cancel()
	isb, err := svr.IsBootstrapped(ctx, &pdpb.IsBootstrappedRequest{Header: &pdpb.RequestHeader{ClusterId: b.cid}})
	if err != nil {
		if envError(err.Error()) || strings.Contains(err.Error(), "not leader") {
			return errInconclusive
		}
		return fmt.Errorf("%s: IsBootstrapped failed: %v", stage, err)
	}
	b.mu.Lock()
	commits := append([]string(nil), b.commits...)
	b.mu.Unlock()
	if len(commits) > 1 {
		return fmt.Errorf("%s: %d bootstrap txns were committed by etcd (store keys %v); only one may ever commit", stage, len(commits), commits)
	}
	if b.winner == nil {
		if len(vals) != 0 {
			keys := sortedKeys(vals)
			return fmt.Errorf("%s: no request has succeeded but the cluster root holds %v", stage, keys)
		}
		if rc != nil {
			return fmt.Errorf("%s: no request has succeeded but a raft cluster is served (stores %v)", stage, rc.GetMetaStores())
		}
		if isb.GetBootstrapped() {
			return fmt.Errorf("%s: no request has succeeded but IsBootstrapped says true", stage)
		}
		if ok, err := st.LoadMeta(&metapb.Cluster{}); err != nil || ok {
			return fmt.Errorf("%s: no request has succeeded but cluster meta loads (%v, %v)", stage, ok, err)
		}
		b.lastVal, b.lastRev = vals, revs
		return nil
	}
	w := b.winner
	wantMeta := &metapb.Cluster{Id: b.cid, MaxPeerCount: uint32(svr.GetPersistOptions().GetMaxReplicas())}
	wstore, wregion := w.req.GetStore(), w.req.GetRegion()
	// --- etcd records
	storeKey := path.Join(b.root, "s", fmt.Sprintf("%020d", wstore.GetId()))
	regionKey := path.Join(b.root, "r", fmt.Sprintf("%020d", wregion.GetId()))
	timeKey := path.Join(b.root, "status", "raft_bootstrap_time")
	for k := range vals {
		switch {
		case k == b.root, k == storeKey, k == regionKey:
		case strings.HasPrefix(k, b.root+"/status/"):
		default:
			return fmt.Errorf("%s: unexpected record %s under the cluster root; the winner is %s", stage, k, w.name)
		}
	}
	for _, k := range []string{b.root, storeKey, regionKey, timeKey} {
		if _, ok := vals[k]; !ok {
			return fmt.Errorf("%s: record %s missing after the success of %s (have %v)", stage, k, w.name, sortedKeys(vals))
		}
	}
	var gm metapb.Cluster
	var gs metapb.Store
	var gr metapb.Region
	if err := gm.Unmarshal([]byte(vals[b.root])); err != nil || !protoEq(&gm, wantMeta) {
		return fmt.Errorf("%s: stored cluster meta is %v (err %v), want %v", stage, &gm, err, wantMeta)
	}
	if err := gs.Unmarshal([]byte(vals[storeKey])); err != nil || !protoEq(&gs, wstore) {
		return fmt.Errorf("%s: stored store record is %v (err %v), want the winner's %v", stage, &gs, err, wstore)
	}
	if err := gr.Unmarshal([]byte(vals[regionKey])); err != nil || !protoEq(&gr, wregion) {
		return fmt.Errorf("%s: stored region record is %v (err %v), want the winner's %v", stage, &gr, err, wregion)
	}
	if len(vals[timeKey]) != 8 {
		return fmt.Errorf("%s: bootstrap time record has %d bytes", stage, len(vals[timeKey]))
	}
	// --- through the server's storage
	var lm metapb.Cluster
	if ok, err := st.LoadMeta(&lm); err != nil || !ok || !protoEq(&lm, wantMeta) {
		return fmt.Errorf("%s: LoadMeta gives %v (%v, %v), want %v", stage, &lm, ok, err, wantMeta)
	}
	var ls metapb.Store
	if ok, err := st.LoadStore(wstore.GetId(), &ls); err != nil || !ok || !protoEq(&ls, wstore) {
		return fmt.Errorf("%s: LoadStore(%d) gives %v (%v, %v), want %v", stage, wstore.GetId(), &ls, ok, err, wstore)
	}
	var lr metapb.Region
	if ok, err := st.LoadRegion(wregion.GetId(), &lr); err != nil || !ok || !protoEq(&lr, wregion) {
		return fmt.Errorf("%s: LoadRegion(%d) gives %v (%v, %v), want %v", stage, wregion.GetId(), &lr, ok, err, wregion)
	}
	var loadedStores []*metapb.Store
	if err := st.LoadStores(func(s *core.StoreInfo) { loadedStores = append(loadedStores, s.GetMeta()) }); err != nil {
		return errInconclusive
	}
	if len(loadedStores) != 1 || !protoEq(loadedStores[0], wstore) {
		return fmt.Errorf("%s: LoadStores gives %v, want only the winner's %v", stage, loadedStores, wstore)
	}
	var loadedRegions []*metapb.Region
	if err := st.LoadRegions(func(r *core.RegionInfo) []*core.RegionInfo {
		loadedRegions = append(loadedRegions, r.GetMeta())
		return nil
	}); err != nil {
		return errInconclusive
	}
	if len(loadedRegions) != 1 || !protoEq(loadedRegions[0], wregion) {
		return fmt.Errorf("%s: LoadRegions gives %v, want only the winner's %v", stage, loadedRegions, wregion)
	}
	// --- served
	if rc == nil {
		return fmt.Errorf("%s: %s succeeded but no raft cluster is served", stage, w.name)
	}
	if !isb.GetBootstrapped() {
		return fmt.Errorf("%s: %s succeeded but IsBootstrapped says false", stage, w.name)
	}
	if sm := rc.GetConfig(); !protoEq(sm, wantMeta) {
		return fmt.Errorf("%s: served cluster meta is %v, want %v", stage, sm, wantMeta)
	}
	if ss := rc.GetMetaStores(); len(ss) != 1 || !protoEq(ss[0], wstore) {
		return fmt.Errorf("%s: served stores are %v, want only the winner's %v", stage, ss, wstore)
	}
	if rs := rc.GetMetaRegions(); len(rs) != 1 || !protoEq(rs[0], wregion) {
		return fmt.Errorf("%s: served regions are %v, want only the winner's %v", stage, rs, wregion)
	}
	// --- nothing changed since the previous look
	if unchanged && b.lastVal != nil {
		for _, k := range []string{b.root, storeKey, regionKey, timeKey} {
			if b.lastVal[k] != vals[k] || b.lastRev[k] != revs[k] {
				return fmt.Errorf("%s: record %s changed after the cluster was bootstrapped (revisions %s -> %s)", stage, k, b.lastRev[k], revs[k])
			}
		}
	}
	b.lastVal, b.lastRev = vals, revs
	return nil
}

func sortedKeys(m map[string]string) []string {
	var ks []string
	for k := range m {
		ks = append(ks, k)
	}
	sort.Strings(ks)
	return ks
}

// sequential sends one request on a quiescent server and checks the first-valid-wins rule.
func (b *bootRun) sequential(in *inst, stage string) error {
	had := b.winner
	o := callBootstrap(b.svr, in)
	if err := b.classify(in, o, stage); err != nil {
		return err
	}
	if o.ok {
		if had != nil {
			return fmt.Errorf("%s: %s succeeded although the cluster was already bootstrapped by %s", stage, in.name, had.name)
		}
		b.winner = in
	} else if had == nil && in.valid {
		return fmt.Errorf("%s: well-formed %s on a cluster that is not bootstrapped was refused: %v", stage, in.name, o)
	} else if had == nil && o.already {
		return fmt.Errorf("%s: %s was answered ALREADY_BOOTSTRAPPED but nothing has been bootstrapped", stage, in.name)
	}
	return b.verify(stage+" / after "+in.name, had != nil)
}

func runBoot(c BootCase) (vkit.Info, error) {
	var info vkit.Info
	f, err := getLive()
	if err != nil {
		fmt.Printf("c20: live server unavailable (inconclusive): %v\n", err)
		info.Inconclusive = true
		return info, nil
	}
	if err := f.reset(); err != nil {
		fmt.Printf("c20: reset failed (inconclusive, server will be restarted): %v\n", err)
		f.broken = true
		info.Inconclusive = true
		return info, nil
	}
	info, err = runBootOn(f, c)
	f.kvw.set(nil)
	if err == errInconclusive {
		f.broken = true // start the next case from a brand-new server
		info.Inconclusive = true
		return info, nil
	}
	return info, err
}

func runBootOn(f *liveFix, c BootCase) (vkit.Info, error) {
	var info vkit.Info
	svr := f.svr
	b := &bootRun{f: f, svr: svr, cid: svr.ClusterID(), root: svr.GetClusterRootPath()}
	idx := 0
	mk := func(r Req) *inst {
		in := mkInst(c, r, idx, b.cid)
		idx++
		b.all = append(b.all, in)
		return in
	}
	var sc atomic.Value // *gate.Sched while a gated race is running
	parkedCnt := int32(0)
	f.kvw.set(&txnHooks{
		before: func(ti *txnInfo) {
			if _, isBoot := ti.puts[b.root]; !isBoot {
				return
			}
			if s, _ := sc.Load().(*gate.Sched); s != nil {
				atomic.AddInt32(&parkedCnt, 1)
				s.Enter("bootstrap-txn", "")
			}
		},
		after: func(ti *txnInfo) {
			if _, isBoot := ti.puts[b.root]; !isBoot || !ti.succeeded {
				return
			}
			var sk []string
			for k := range ti.puts {
				if strings.HasPrefix(k, b.root+"/s/") {
					sk = append(sk, k)
				}
			}
			b.mu.Lock()
			b.commits = append(b.commits, strings.Join(sk, ","))
			b.mu.Unlock()
		},
	})

	if err := b.verify("before any request", false); err != nil {
		return info, err
	}
	// ---- refused requests before the race
	for _, r := range c.Pre {
		in := mk(r)
		if err := b.sequential(in, "pre"); err != nil {
			return info, err
		}
		info.Class("pre-" + kindClass(r))
	}
	// ---- the race
	race := make([]*inst, len(c.Reqs))
	outs := make([]outcome, len(c.Reqs))
	nValid := 0
	for i, r := range c.Reqs {
		race[i] = mk(r)
		if race[i].valid {
			nValid++
		}
		info.Class("race-" + kindClass(r))
	}
	if c.Mode == "gate" {
		s := gate.New()
		s.Watchdog = 30 * time.Second
		sc.Store(s)
		var wg sync.WaitGroup
		for i := range race {
			i := i
			wg.Add(1)
			s.Go(i+1, func() {
				defer wg.Done()
				outs[i] = callBootstrap(svr, race[i])
			})
		}
		ok := s.Run(c.Sched, nil)
		s.Disable()
		wg.Wait() // never leave a request running into the next case
		sc.Store((*gate.Sched)(nil))
		if !ok {
			return info, errInconclusive
		}
	} else {
		var wg sync.WaitGroup
		start := make(chan struct{})
		for i := range race {
			i := i
			wg.Add(1)
			go func() {
				defer wg.Done()
				<-start
				outs[i] = callBootstrap(svr, race[i])
			}()
		}
		close(start)
		wg.Wait()
	}
	var succ []*inst
	nAlready := 0
	for i, in := range race {
		if err := b.classify(in, outs[i], "race"); err != nil {
			if err != errInconclusive {
				err = fmt.Errorf("%v [outcomes: %s]", err, describe(race, outs))
			}
			return info, err
		}
		if outs[i].ok {
			succ = append(succ, in)
		}
		if outs[i].already {
			nAlready++
		}
	}
	if len(succ) > 1 {
		return info, fmt.Errorf("race: %d concurrent requests succeeded, exactly one may [outcomes: %s]", len(succ), describe(race, outs))
	}
	if len(succ) == 1 {
		if !succ[0].valid {
			return info, fmt.Errorf("race: %s succeeded but is not a valid request [outcomes: %s]", succ[0].name, describe(race, outs))
		}
		b.winner = succ[0]
	}
	if nValid > 0 && len(succ) == 0 {
		return info, fmt.Errorf("race: %d well-formed requests with the right cluster id raced on a fresh cluster and none succeeded [outcomes: %s]", nValid, describe(race, outs))
	}
	if err := b.verify("after the race ["+describe(race, outs)+"]", false); err != nil {
		return info, err
	}
	info.Class("mode-" + c.Mode)
	info.Class(fmt.Sprintf("race-valid-%d", nValid))
	info.ClassIf(c.Mode == "gate" && atomic.LoadInt32(&parkedCnt) >= 2, "gate-2+-txns-parked-together")
	info.ClassIf(nAlready > 0, "race-loser-already-bootstrapped")
	info.ClassIf(b.winner == nil, "race-nobody-valid")
	info.NonTrivial = nValid >= 2

	// ---- afterwards: fresh requests, repeats, leader change
	for _, r := range c.Late {
		in := mk(r)
		if err := b.sequential(in, "late"); err != nil {
			return info, err
		}
		info.Class("late-" + kindClass(r))
	}
	earlier := append([]*inst(nil), b.all...)
	if c.Repeat {
		for _, in := range earlier {
			if b.winner == nil && in.valid {
				continue // cannot happen: a valid request would have won
			}
			if err := b.sequential(in, "repeat"); err != nil {
				return info, err
			}
		}
		info.Class("repeat")
	}
	if c.Reelect {
		svr.GetMember().ResetLeader()
		deadline := time.Now().Add(40 * time.Second)
		for {
			if svr.GetMember().IsLeader() && (b.winner == nil || svr.GetRaftCluster() != nil) {
				break
			}
			if time.Now().After(deadline) {
				return info, errInconclusive
			}
			time.Sleep(5 * time.Millisecond)
		}
		if err := b.verify("after leader re-election", true); err != nil {
			return info, err
		}
		for _, in := range earlier {
			if err := b.sequential(in, "repeat after re-election"); err != nil {
				return info, err
			}
		}
		info.Class("reelect")
	}
	return info, nil
}

func kindClass(r Req) string {
	if r.WrongID != 0 {
		return "wrong-cluster-id"
	}
	if r.Kind == "ok" {
		return "valid"
	}
	return "malformed-" + r.Kind
}

func describe(race []*inst, outs []outcome) string {
	var parts []string
	for i, in := range race {
		parts = append(parts, fmt.Sprintf("#%d %s/wrongId=%d -> %v", in.idx, in.spec.Kind, in.spec.WrongID, outs[i]))
	}
	return strings.Join(parts, "; ")
}
