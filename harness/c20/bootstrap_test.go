package c20

// Property "bootstrap": concurrent and repeated pdpb Bootstrap requests against a live
// 1-member PD server (real embedded etcd, real leader election, real RaftCluster).
//
// One server per test process. Before every case the server is put back into the
// never-bootstrapped state with exported API only: the raft cluster is stopped, every key
// under the cluster root (<root>/raft, raft/s/*, raft/r/*, raft/status/*) is deleted from the
// server's etcd, the cached stores/regions are replaced by empty ones and the server gets a
// fresh core.Storage (etcd KV + a fresh leveldb region storage, switched the way the leader
// switches it). The pre-state is verified (cluster not running, nothing stored) before the
// case starts; if it cannot be established the fixture is restarted / the case is inconclusive.
//
// The bootstrap txn is intercepted through the public KV field of the server's etcd client
// (every kv.NewSlowLogTxn(client) goes through it): in "gate" mode all requests that get as
// far as the txn are parked there and released in the generated order.

import (
	"bytes"
	"context"
	"fmt"
	"os"
	"path"
	"path/filepath"
	"runtime"
	"sort"
	"strconv"
	"strings"
	"sync"
	"sync/atomic"
	"time"

	"github.com/gogo/protobuf/proto"
	"github.com/pingcap/kvproto/pkg/encryptionpb"
	"github.com/pingcap/kvproto/pkg/metapb"
	"github.com/pingcap/kvproto/pkg/pdpb"
	"github.com/syndtr/goleveldb/leveldb"
	"github.com/syndtr/goleveldb/leveldb/opt"
	"github.com/tikv/pd/server"
	"github.com/tikv/pd/server/config"
	"github.com/tikv/pd/server/core"
	"github.com/tikv/pd/server/kv"
	"github.com/tikv/pd/tests"
	"go.etcd.io/etcd/clientv3"
	"go.etcd.io/etcd/etcdserver/api/v3rpc/rpctypes"
	"google.golang.org/grpc"
	"google.golang.org/grpc/codes"
	"google.golang.org/grpc/status"
	"pdverif/vkit"
	"pdverif/vkit/gate"
	"pgregory.net/rapid"
)

var bootstrapN = vkit.N{Quick: 400, Thorough: 16000}

// ---------------------------------------------------------------- case data

// malformed kinds: each violates exactly one clause of the request validation.
var badKinds = []string{"nostore", "store0", "noregion", "startkey", "endkey", "region0", "nopeers", "twopeers", "peer0", "peerstore"}

// Req is one bootstrap request. Its ids are derived from its position in the case
// (distinct store / region / peer ids for every request).
type Req struct {
	Kind    string `json:"kind"`              // ok | one of badKinds
	WrongID int    `json:"wrongId,omitempty"` // 0 right cluster id; 1 id+1; 2 zero id; 3 no header at all; 4 arbitrary other id
	Labels  int    `json:"labels,omitempty"`  // number of store labels (payload variety)
	// Shape: unusual first regions / stores that the request validation (checkBootstrapRequest:
	// store with non-zero id; region with non-zero id and empty key range; exactly one peer, on that
	// store, with non-zero id) admits: 0 plain, 1 region that already carries an encryption_meta,
	// 2 no region epoch, 3 zero epoch, 4 the peer is a learner, 5 huge epoch + store with start
	// timestamp / deploy path / git hash, 6 the peer is an incoming voter.
	Shape int `json:"shape,omitempty"`
}

type BootCase struct {
	IDBase  uint64 `json:"idBase"`
	Pre     []Req  `json:"pre,omitempty"`     // refused requests sent one by one before the race
	Reqs    []Req  `json:"reqs"`              // the race: 2..6 concurrent requests
	Mode    string `json:"mode"`              // gate | free
	Sched   []int  `json:"sched,omitempty"`   // gate: release order of the parked bootstrap txns
	Late    []Req  `json:"late,omitempty"`    // fresh requests sent one by one afterwards
	Repeat  bool   `json:"repeat,omitempty"`  // re-send every earlier request afterwards
	Reelect bool   `json:"reelect,omitempty"` // the leader steps down and is re-elected, then requests are repeated
	Fault   *Fault `json:"fault,omitempty"`   // first of all: one valid request with an etcd fault injected into one of its etcd requests
	// RSFault: the member-local region store (leveldb "region-meta", a cache of the regions kept in
	// etcd) rejects every write for the whole case (re-opened read-only before the first request).
	RSFault bool `json:"rsFault,omitempty"`
	// RaceFaults[i]: the guarded bootstrap txn of race request i fails with an error before it is
	// sent (timeout / lost connection on the way to etcd) — while the other requests' txns go through.
	RaceFaults []bool `json:"raceFaults,omitempty"`
}

// Fault: a valid Bootstrap request is first run fault-free on the fresh server to count the etcd
// requests K it issues on its goroutine (the guarded txn, every later storage read and write of
// RaftCluster.Start); the server is reset; then a request of the same shape runs with a fault on
// its etcd request number 1 + N mod K.
type Fault struct {
	N      int    `json:"n"`
	Kind   string `json:"kind"` // before (not sent, error) | lostack (executed, error returned)
	Labels int    `json:"labels,omitempty"`
}

func genReq(t *rapid.T, pOK int) Req {
	r := Req{Kind: "ok"}
	if rapid.IntRange(0, 9).Draw(t, "wellformed") >= pOK {
		r.Kind = rapid.SampledFrom(badKinds).Draw(t, "bad")
	}
	if rapid.IntRange(0, 5).Draw(t, "hdr") == 0 {
		r.WrongID = rapid.IntRange(1, 4).Draw(t, "wrongId")
	}
	r.Labels = rapid.IntRange(0, 2).Draw(t, "labels")
	if rapid.IntRange(0, 2).Draw(t, "unusual") == 2 {
		r.Shape = rapid.IntRange(1, 6).Draw(t, "shape")
	}
	return r
}

func genBoot(t *rapid.T) BootCase {
	c := BootCase{IDBase: rapid.SampledFrom([]uint64{0, 0, 1000, 1 << 32, 1 << 62}).Draw(t, "idBase")}
	npre := rapid.IntRange(0, 3).Draw(t, "npre")
	for i := 0; i < npre; i++ {
		r := genReq(t, 0) // malformed, or at least a wrong id
		if r.Kind == "ok" && r.WrongID == 0 {
			r.WrongID = 1
		}
		c.Pre = append(c.Pre, r)
	}
	k := rapid.IntRange(2, 6).Draw(t, "k")
	for i := 0; i < k; i++ {
		c.Reqs = append(c.Reqs, genReq(t, 6))
	}
	c.Mode = rapid.SampledFrom([]string{"gate", "gate", "gate", "free"}).Draw(t, "mode")
	if rapid.IntRange(0, 3).Draw(t, "withRaceFaults") == 3 {
		any := false
		fl := make([]bool, k)
		for i := range fl {
			fl[i] = rapid.IntRange(0, 2).Draw(t, "raceFault") == 2
			any = any || fl[i]
		}
		if any {
			c.RaceFaults = fl
		}
	}
	if c.Mode == "gate" {
		c.Sched = rapid.SliceOfN(rapid.IntRange(0, 5), 0, 8).Draw(t, "sched")
	}
	nlate := rapid.IntRange(0, 2).Draw(t, "nlate")
	for i := 0; i < nlate; i++ {
		c.Late = append(c.Late, genReq(t, 6))
	}
	c.Repeat = rapid.IntRange(0, 2).Draw(t, "repeat") != 0
	c.Reelect = rapid.IntRange(0, 5).Draw(t, "reelect") == 0
	if rapid.IntRange(0, 9).Draw(t, "withFault") >= 6 {
		c.Fault = &Fault{N: rapid.IntRange(0, 63).Draw(t, "faultN"),
			Kind:   rapid.SampledFrom([]string{"before", "lostack"}).Draw(t, "faultKind"),
			Labels: rapid.IntRange(0, 2).Draw(t, "faultLabels")}
	} else {
		c.RSFault = rapid.IntRange(0, 5).Draw(t, "regionStoreFault") == 5
	}
	return c
}

// inst is a request instantiated for the running server.
type inst struct {
	spec  Req
	idx   int
	req   *pdpb.BootstrapRequest
	valid bool // well-formed payload AND the right cluster id
	name  string
}

func mkInst(c BootCase, r Req, idx int, cid uint64) *inst {
	base := c.IDBase + uint64(idx)*4
	sid, rid, pid := base+1, base+2, base+3
	store := &metapb.Store{Id: sid, Address: fmt.Sprintf("tikv-%d:20160", idx), Version: "5.0.0", StatusAddress: fmt.Sprintf("tikv-%d:20180", idx)}
	for l := 0; l < r.Labels; l++ {
		store.Labels = append(store.Labels, &metapb.StoreLabel{Key: []string{"zone", "host"}[l], Value: fmt.Sprintf("v%d-%d", idx, l)})
	}
	region := &metapb.Region{Id: rid, RegionEpoch: &metapb.RegionEpoch{ConfVer: 1, Version: 1},
		Peers: []*metapb.Peer{{Id: pid, StoreId: sid}}}
	switch r.Shape {
	case 1:
		region.EncryptionMeta = &encryptionpb.EncryptionMeta{KeyId: 7, Iv: bytes.Repeat([]byte{byte(idx + 1)}, 16)}
	case 2:
		region.RegionEpoch = nil
	case 3:
		region.RegionEpoch = &metapb.RegionEpoch{}
	case 4:
		region.Peers[0].Role = metapb.PeerRole_Learner
	case 5:
		region.RegionEpoch = &metapb.RegionEpoch{ConfVer: 1 << 40, Version: 1 << 50}
		store.StartTimestamp, store.DeployPath, store.GitHash = 1600000000+int64(idx), "/data/tikv", "0123abcd"
	case 6:
		region.Peers[0].Role = metapb.PeerRole_IncomingVoter
	}
	req := &pdpb.BootstrapRequest{Store: store, Region: region}
	switch r.Kind {
	case "nostore":
		req.Store = nil
	case "store0":
		store.Id = 0
		region.Peers[0].StoreId = 0
	case "noregion":
		req.Region = nil
	case "startkey":
		region.StartKey = []byte("a")
	case "endkey":
		region.EndKey = []byte("z")
	case "region0":
		region.Id = 0
	case "nopeers":
		region.Peers = nil
	case "twopeers":
		region.Peers = append(region.Peers, &metapb.Peer{Id: base + 4, StoreId: sid})
	case "peer0":
		region.Peers[0].Id = 0
	case "peerstore":
		region.Peers[0].StoreId = sid + 1000003
	}
	switch r.WrongID {
	case 0:
		req.Header = &pdpb.RequestHeader{ClusterId: cid}
	case 1:
		req.Header = &pdpb.RequestHeader{ClusterId: cid + 1}
	case 2:
		req.Header = &pdpb.RequestHeader{ClusterId: 0}
	case 3:
		req.Header = nil
	default:
		req.Header = &pdpb.RequestHeader{ClusterId: cid ^ 0x5555}
	}
	return &inst{spec: r, idx: idx, req: req, valid: r.Kind == "ok" && r.WrongID == 0,
		name: fmt.Sprintf("request #%d (%s, wrongId=%d, store %d region %d)", idx, r.Kind, r.WrongID, sid, rid)}
}

// ---------------------------------------------------------------- the intercepting KV

type txnInfo struct {
	first     string // key of the first op (description)
	puts      map[string]string
	succeeded bool
	err       error
}

type txnHooks struct {
	before func(*txnInfo) int // 0 proceed, 1 fail before sending, 2 execute but lose the answer
	after  func(*txnInfo)
}

var noRevCheck = os.Getenv("VERIF_C20_NO_REVCHECK") != ""

var errInjectedEtcd = fmt.Errorf("verif: injected etcd failure")

// faultPlan counts the etcd requests issued by ONE goroutine (the one running the Bootstrap
// call): every txn through the client's KV (the guarded bootstrap txn and every storage write)
// and every storage read (Load / LoadRange of the server's core.Storage). Request number
// failAt (1-based, 0 = none) is failed.
type faultPlan struct {
	mu     sync.Mutex
	goid   uint64
	failAt int
	kind   string
	count  int
	hit    string
	log    []string
}

func curGoid() uint64 {
	b := make([]byte, 64)
	b = b[:runtime.Stack(b, false)]
	b = bytes.TrimPrefix(b, []byte("goroutine "))
	var id uint64
	for _, c := range b {
		if c < '0' || c > '9' {
			break
		}
		id = id*10 + uint64(c-'0')
	}
	return id
}

// next is called for every etcd request; it returns 0 proceed, 1 fail-before, 2 lost-ack.
func (p *faultPlan) next(desc string) int {
	if p == nil || curGoid() != p.goid {
		return 0
	}
	p.mu.Lock()
	defer p.mu.Unlock()
	p.count++
	p.log = append(p.log, desc)
	if p.count != p.failAt {
		return 0
	}
	p.hit = desc
	if p.kind == "lostack" {
		return 2
	}
	return 1
}

// readFaultKV is the kv.Base of the per-case storage: reads pass the fault plan (writes are
// txns through the client's KV and are counted there).
type readFaultKV struct {
	kv.Base
	plan *atomic.Value // *faultPlan
}

func (k *readFaultKV) cur() *faultPlan { p, _ := k.plan.Load().(*faultPlan); return p }

func (k *readFaultKV) Load(key string) (string, error) {
	switch k.cur().next("load " + key) {
	case 1:
		return "", errInjectedEtcd
	case 2:
		k.Base.Load(key)
		return "", errInjectedEtcd
	}
	return k.Base.Load(key)
}

func (k *readFaultKV) LoadRange(key, endKey string, limit int) ([]string, []string, error) {
	switch k.cur().next("range " + key) {
	case 1:
		return nil, nil, errInjectedEtcd
	case 2:
		k.Base.LoadRange(key, endKey, limit)
		return nil, nil, errInjectedEtcd
	}
	return k.Base.LoadRange(key, endKey, limit)
}

// gateKV replaces the public KV field of the server's etcd client. Only Txn is intercepted.
type gateKV struct {
	clientv3.KV
	hooks atomic.Value // *txnHooks
}

func (g *gateKV) set(h *txnHooks) { g.hooks.Store(h) }

func (g *gateKV) Txn(ctx context.Context) clientv3.Txn {
	return &gateTxn{Txn: g.KV.Txn(ctx), g: g, info: &txnInfo{puts: map[string]string{}}}
}

type gateTxn struct {
	clientv3.Txn
	g    *gateKV
	info *txnInfo
}

func (t *gateTxn) If(cs ...clientv3.Cmp) clientv3.Txn { t.Txn = t.Txn.If(cs...); return t }
func (t *gateTxn) Then(ops ...clientv3.Op) clientv3.Txn {
	for _, op := range ops {
		if op.IsPut() {
			t.info.puts[string(op.KeyBytes())] = string(op.ValueBytes())
		}
		if t.info.first == "" {
			t.info.first = string(op.KeyBytes())
		}
	}
	t.Txn = t.Txn.Then(ops...)
	return t
}
func (t *gateTxn) Else(ops ...clientv3.Op) clientv3.Txn { t.Txn = t.Txn.Else(ops...); return t }
func (t *gateTxn) Commit() (*clientv3.TxnResponse, error) {
	h, _ := t.g.hooks.Load().(*txnHooks)
	action := 0
	if h != nil && h.before != nil {
		action = h.before(t.info)
	}
	if action == 1 {
		return nil, errInjectedEtcd
	}
	resp, err := t.Txn.Commit()
	t.info.err = err
	t.info.succeeded = err == nil && resp.Succeeded
	if h != nil && h.after != nil {
		h.after(t.info)
	}
	if action == 2 {
		// what etcd really answers when a txn was applied but its leader failed before acknowledging it
		return nil, rpctypes.ErrTimeoutDueToLeaderFail
	}
	return resp, err
}

// ---------------------------------------------------------------- the live server (per process)

type liveFix struct {
	cluster *tests.TestCluster
	cancel  context.CancelFunc
	svr     *server.Server
	orig    *core.Storage
	kvw     *gateKV
	raw     clientv3.KV // reads/deletes that bypass the interception
	cur     *core.Storage
	curDir  string
	cases   int
	broken  bool
	plan    atomic.Value // *faultPlan: armed while a faulted Bootstrap call runs
	// used by the "refusal" property (refusal_test.go)
	conn     *grpc.ClientConn
	own      *clientv3.Client // the harness' own etcd client (raw dumps of the persisted cluster records)
	refReady bool
	refMeta  *metapb.Cluster // the cluster meta fixed at the refusal fixture's bootstrap (+ accepted config changes)
}

var (
	liveMu       sync.Mutex
	liveCur      *liveFix
	liveFailures int
	liveDirs     []string
)

const (
	liveStartAttempts = 4
	liveMaxFailures   = 3 // after that many failed start-ups every further case is inconclusive at once
)

// a brand-new server (new cluster id, new etcd) every so many cases
var liveRestartEvery = func() int {
	if n, err := strconv.Atoi(os.Getenv("VERIF_C20_RESTART_EVERY")); err == nil && n > 0 {
		return n
	}
	return 400
}()

func getLive() (*liveFix, error) {
	liveMu.Lock()
	defer liveMu.Unlock()
	if liveCur != nil && (liveCur.broken || liveCur.cases >= liveRestartEvery) {
		stopLive(liveCur)
		liveCur = nil
	}
	if liveCur != nil {
		return liveCur, nil
	}
	if liveFailures >= liveMaxFailures {
		return nil, fmt.Errorf("live server start-up failed %d times", liveFailures)
	}
	var last error
	for i := 0; i < liveStartAttempts; i++ {
		f, err := startLive()
		if err == nil {
			liveCur = f
			return f, nil
		}
		last = err
		time.Sleep(time.Duration(300*(i+1)) * time.Millisecond)
	}
	liveFailures++
	return nil, last
}

func startLive() (f *liveFix, err error) {
	ctx, cancel := context.WithCancel(context.Background())
	var cl *tests.TestCluster
	defer func() {
		if r := recover(); r != nil {
			err = fmt.Errorf("panic while starting the server: %v", r)
		}
		if err != nil {
			cancel()
			if cl != nil {
				cl.Destroy()
			}
		}
	}()
	cl, err = tests.NewTestCluster(ctx, 1, func(conf *config.Config, _ string) {
		conf.Log.Level = "fatal"
		conf.LeaderLease = 10 // a starved shard process must not lose its lease in the middle of a case
	})
	if err != nil {
		return nil, err
	}
	f = &liveFix{cluster: cl, cancel: cancel, kvw: &gateKV{}}
	for _, ts := range cl.GetServers() {
		svr := ts.GetServer()
		f.svr = svr
		liveDirs = append(liveDirs, svr.GetConfig().DataDir)
		// install the interception before any server loop uses the client
		svr.AddStartCallback(func() {
			c := svr.GetClient()
			f.kvw.KV = c.KV
			c.KV = f.kvw
		})
	}
	errc := make(chan error, 1)
	go func() {
		defer func() {
			if r := recover(); r != nil {
				errc <- fmt.Errorf("panic: %v", r)
			}
		}()
		errc <- cl.RunInitialServers()
	}()
	select {
	case err = <-errc:
		if err != nil {
			return nil, err
		}
	case <-time.After(60 * time.Second):
		return nil, fmt.Errorf("server did not come up within 60s")
	}
	if !f.waitLeader(40 * time.Second) {
		return nil, fmt.Errorf("no leader within 40s")
	}
	if f.kvw.KV == nil {
		return nil, fmt.Errorf("txn interception was not installed")
	}
	f.orig = f.svr.GetStorage()
	f.raw = clientv3.NewKV(f.svr.GetClient())
	own, err := clientv3.New(clientv3.Config{Endpoints: []string{f.svr.GetAddr()}, DialTimeout: 15 * time.Second})
	if err != nil {
		return nil, err
	}
	f.own = own
	f.plan.Store((*faultPlan)(nil))
	return f, nil
}

func (f *liveFix) waitLeader(d time.Duration) bool {
	deadline := time.Now().Add(d)
	for time.Now().Before(deadline) {
		if !f.svr.IsClosed() && f.svr.GetMember().IsLeader() {
			return true
		}
		time.Sleep(5 * time.Millisecond)
	}
	return false
}

func stopLive(f *liveFix) {
	f.kvw.set(nil)
	if f.conn != nil {
		f.conn.Close()
		f.conn = nil
	}
	if f.own != nil {
		f.own.Close()
		f.own = nil
	}
	done := make(chan struct{})
	go func() {
		defer close(done)
		defer func() { recover() }()
		if rc := f.svr.GetRaftCluster(); rc != nil {
			rc.Stop()
		}
		f.svr.SetStorage(f.orig)
		f.dropStorage()
		f.cluster.Destroy()
		f.cancel()
	}()
	select {
	case <-done:
	case <-time.After(20 * time.Second):
	}
	os.RemoveAll(f.svr.GetConfig().DataDir)
}

func shutdownLive() {
	liveMu.Lock()
	defer liveMu.Unlock()
	if liveCur != nil {
		stopLive(liveCur)
		liveCur = nil
	}
	// data directories of every server this process ever started (also of start-ups that failed half-way)
	for _, d := range liveDirs {
		os.RemoveAll(d)
	}
	liveDirs = nil
}

func (f *liveFix) dropStorage() {
	if f.cur != nil {
		f.cur.Close()
		f.cur = nil
	}
	if f.curDir != "" {
		os.RemoveAll(f.curDir)
		f.curDir = ""
	}
}

func (f *liveFix) ctx() (context.Context, context.CancelFunc) {
	return context.WithTimeout(context.Background(), 10*time.Second)
}

// snapshot reads every key under the cluster root: key -> "modRevision:value".
func (f *liveFix) snapshot() (map[string]string, map[string]string, error) {
	root := f.svr.GetClusterRootPath()
	ctx, cancel := f.ctx()
	defer cancel()
	vals, revs := map[string]string{}, map[string]string{}
	for _, q := range []struct {
		k   string
		opt []clientv3.OpOption
	}{{root, nil}, {root + "/", []clientv3.OpOption{clientv3.WithPrefix()}}} {
		resp, err := f.own.Get(ctx, q.k, q.opt...)
		if err != nil {
			return nil, nil, err
		}
		for _, kvp := range resp.Kvs {
			vals[string(kvp.Key)] = string(kvp.Value)
			revs[string(kvp.Key)] = fmt.Sprintf("%d/%d", kvp.CreateRevision, kvp.ModRevision)
		}
	}
	return vals, revs, nil
}

// reset puts the server back into the never-bootstrapped state.
func (f *liveFix) reset() error {
	f.kvw.set(nil)
	f.refReady = false
	if !f.waitLeader(30 * time.Second) {
		return fmt.Errorf("server is not leader")
	}
	svr := f.svr
	if rc := svr.GetRaftCluster(); rc != nil {
		rc.Stop()
	}
	root := svr.GetClusterRootPath()
	ctx, cancel := f.ctx()
	defer cancel()
	if _, err := f.raw.Delete(ctx, root); err != nil {
		return err
	}
	if _, err := f.raw.Delete(ctx, root+"/", clientv3.WithPrefix()); err != nil {
		return err
	}
	// fresh storage, as startServer builds it and reloadConfigFromKV switches it
	svr.SetStorage(f.orig)
	f.dropStorage()
	dir := filepath.Join(svr.GetConfig().DataDir, fmt.Sprintf("verif-region-meta-%d", f.cases))
	rs, err := core.NewRegionStorage(svr.Context(), dir, nil)
	if err != nil {
		return err
	}
	f.plan.Store((*faultPlan)(nil))
	st := core.NewStorage(&readFaultKV{Base: kv.NewEtcdKVBase(svr.GetClient(), svr.GetServerRootPath()), plan: &f.plan}, core.WithRegionStorage(rs))
	if svr.GetPersistOptions().IsUseRegionStorage() {
		st.SwitchToRegionStorage()
	}
	f.cur, f.curDir = st, dir
	svr.SetStorage(st)
	// empty cache
	bc := svr.GetBasicCluster()
	bc.Lock()
	bc.Stores = core.NewStoresInfo()
	bc.Regions = core.NewRegionsInfo()
	bc.Unlock()
	// verify the pre-state
	if svr.GetRaftCluster() != nil {
		return fmt.Errorf("raft cluster still running after reset")
	}
	vals, _, err := f.snapshot()
	if err != nil {
		return err
	}
	if len(vals) != 0 {
		return fmt.Errorf("keys left under the cluster root after reset: %d", len(vals))
	}
	if ok, err := st.LoadMeta(&metapb.Cluster{}); err != nil || ok {
		return fmt.Errorf("cluster meta still loadable after reset (%v, %v)", ok, err)
	}
	f.cases++
	return nil
}

// ---------------------------------------------------------------- running a case

type outcome struct {
	ok      bool // a response without error header
	already bool // ALREADY_BOOTSTRAPPED in the response header
	otherHd string
	err     string
	code    codes.Code
	panic   string
	hdrID   uint64
}

func (o outcome) String() string {
	switch {
	case o.panic != "":
		return "panic: " + o.panic
	case o.ok:
		return "success"
	case o.already:
		return "ALREADY_BOOTSTRAPPED"
	case o.otherHd != "":
		return "header error " + o.otherHd
	default:
		return fmt.Sprintf("error(%s) %s", o.code, o.err)
	}
}

func (o outcome) refused() bool {
	return o.panic == "" && !o.ok && o.otherHd == "" && (o.already || o.err != "")
}

func callBootstrap(svr *server.Server, in *inst) (o outcome) {
	defer func() {
		if r := recover(); r != nil {
			o = outcome{panic: fmt.Sprint(r)}
		}
	}()
	ctx, cancel := context.WithTimeout(context.Background(), 60*time.Second)
	defer cancel()
	resp, err := svr.Bootstrap(ctx, proto.Clone(in.req).(*pdpb.BootstrapRequest))
	if err != nil {
		return outcome{err: err.Error(), code: status.Code(err)}
	}
	if resp == nil {
		return outcome{err: "nil response and nil error"}
	}
	if e := resp.GetHeader().GetError(); e != nil {
		if e.GetType() == pdpb.ErrorType_ALREADY_BOOTSTRAPPED {
			return outcome{already: true, hdrID: resp.GetHeader().GetClusterId()}
		}
		return outcome{otherHd: e.String()}
	}
	return outcome{ok: true, hdrID: resp.GetHeader().GetClusterId()}
}

type bootRun struct {
	f       *liveFix
	svr     *server.Server
	cid     uint64
	root    string
	winner  *inst
	all     []*inst
	lastVal map[string]string
	lastRev map[string]string
	mu      sync.Mutex
	commits []string // store keys of bootstrap txns that etcd reported as succeeded
	txnKeys []string // keys put by the bootstrap txn that committed
	// degraded: the winner's txn committed but its Bootstrap call returned an error (injected
	// lost ack / a fault in RaftCluster.Start). The call never reached, or did not finish, the
	// part after the txn, so the region may be missing from the leveldb region storage (the
	// code's own TODO "figure out a better way to handle bootstrap failed"): region-storage and
	// served-region checks accept "absent" besides "the winner's".
	degraded bool
	rsFault  bool // the case runs with a broken member-local region store
}

// regionCopyOptional: when the member-local region store cannot take the first region (it is
// broken, or the region already carries an encryption_meta, which RegionStorage.SaveRegion
// refuses), bootstrapCluster only warns — the authoritative record is the one in etcd — and the
// cluster starts without the region in its cache until the first heartbeat. Then (and in the
// degraded state) the region-store copy and the served region may be absent; they may never be
// another region.
func (b *bootRun) regionCopyOptional() bool {
	return b.degraded || b.rsFault || (b.winner != nil && b.winner.req.GetRegion().GetEncryptionMeta() != nil)
}

// classify checks what holds for the outcome of a request whenever it is sent: a wrong cluster
// id is refused as such, a malformed payload is refused, anything else succeeds or is refused.
func (b *bootRun) classify(in *inst, o outcome, stage string) error {
	if o.panic != "" {
		return fmt.Errorf("%s: %s panicked: %s", stage, in.name, o.panic)
	}
	if envError(o.err) || strings.Contains(o.err, "not leader") {
		return errInconclusive
	}
	if in.spec.WrongID != 0 {
		// refused before anything else: not a payload error, not ALREADY_BOOTSTRAPPED, never a success
		if o.ok || o.already || o.code != codes.FailedPrecondition || !strings.Contains(o.err, "mismatch cluster id") {
			return fmt.Errorf("%s: %s carries a wrong cluster id (server %d) and must be refused as a cluster-id mismatch, got: %v", stage, in.name, b.cid, o)
		}
		return nil
	}
	if in.spec.Kind != "ok" {
		if !o.refused() {
			return fmt.Errorf("%s: malformed %s must be refused, got: %v", stage, in.name, o)
		}
		return nil
	}
	if o.ok {
		if o.hdrID != b.cid {
			return fmt.Errorf("%s: %s succeeded with cluster id %d in the response header, server has %d", stage, in.name, o.hdrID, b.cid)
		}
		return nil
	}
	if !o.refused() {
		return fmt.Errorf("%s: %s neither succeeded nor was refused with an error / ALREADY_BOOTSTRAPPED: %v", stage, in.name, o)
	}
	return nil
}

func protoEq(a, b proto.Message) bool { return proto.Equal(a, b) }

// verify compares everything observable with the oracle's view: nothing stored and nothing
// served before a success; exactly the winner's payload afterwards. If unchanged is true the
// etcd records must also be byte- and revision-identical to the previous verification.
func (b *bootRun) verify(stage string, unchanged bool) error {
	svr := b.svr
	if !b.f.waitLeader(20 * time.Second) {
		return errInconclusive
	}
	vals, revs, err := b.f.snapshot()
	if err != nil {
		return errInconclusive
	}
	st := svr.GetStorage()
	rc := svr.GetRaftCluster()
	ctx, cancel := b.f.ctx()
	defer cancel()
	isb, err := svr.IsBootstrapped(ctx, &pdpb.IsBootstrappedRequest{Header: &pdpb.RequestHeader{ClusterId: b.cid}})
	if err != nil {
		if envError(err.Error()) || strings.Contains(err.Error(), "not leader") {
			return errInconclusive
		}
		return fmt.Errorf("%s: IsBootstrapped failed: %v", stage, err)
	}
	b.mu.Lock()
	commits := append([]string(nil), b.commits...)
	b.mu.Unlock()
	if len(commits) > 1 {
		return fmt.Errorf("%s: %d bootstrap txns were committed by etcd (store keys %v); only one may ever commit", stage, len(commits), commits)
	}
	if b.winner == nil {
		if len(vals) != 0 {
			keys := sortedKeys(vals)
			return fmt.Errorf("%s: no request has succeeded but the cluster root holds %v", stage, keys)
		}
		if rc != nil {
			return fmt.Errorf("%s: no request has succeeded but a raft cluster is served (stores %v)", stage, rc.GetMetaStores())
		}
		if isb.GetBootstrapped() {
			return fmt.Errorf("%s: no request has succeeded but IsBootstrapped says true", stage)
		}
		if ok, err := st.LoadMeta(&metapb.Cluster{}); err != nil || ok {
			return fmt.Errorf("%s: no request has succeeded but cluster meta loads (%v, %v)", stage, ok, err)
		}
		b.lastVal, b.lastRev = vals, revs
		return nil
	}
	w := b.winner
	wantMeta := &metapb.Cluster{Id: b.cid, MaxPeerCount: uint32(svr.GetPersistOptions().GetMaxReplicas())}
	wstore, wregion := w.req.GetStore(), w.req.GetRegion()
	// --- etcd records
	storeKey := path.Join(b.root, "s", fmt.Sprintf("%020d", wstore.GetId()))
	regionKey := path.Join(b.root, "r", fmt.Sprintf("%020d", wregion.GetId()))
	timeKey := path.Join(b.root, "status", "raft_bootstrap_time")
	for k := range vals {
		switch {
		case k == b.root, k == storeKey, k == regionKey:
		case strings.HasPrefix(k, b.root+"/status/"):
		default:
			return fmt.Errorf("%s: unexpected record %s under the cluster root; the winner is %s", stage, k, w.name)
		}
	}
	for _, k := range []string{b.root, storeKey, regionKey, timeKey} {
		if _, ok := vals[k]; !ok {
			return fmt.Errorf("%s: record %s missing after the success of %s (have %v)", stage, k, w.name, sortedKeys(vals))
		}
	}
	var gm metapb.Cluster
	var gs metapb.Store
	var gr metapb.Region
	if err := gm.Unmarshal([]byte(vals[b.root])); err != nil || !protoEq(&gm, wantMeta) {
		return fmt.Errorf("%s: stored cluster meta is %v (err %v), want %v", stage, &gm, err, wantMeta)
	}
	if err := gs.Unmarshal([]byte(vals[storeKey])); err != nil || !protoEq(&gs, wstore) {
		return fmt.Errorf("%s: stored store record is %v (err %v), want the winner's %v", stage, &gs, err, wstore)
	}
	if err := gr.Unmarshal([]byte(vals[regionKey])); err != nil || !protoEq(&gr, wregion) {
		return fmt.Errorf("%s: stored region record is %v (err %v), want the winner's %v", stage, &gr, err, wregion)
	}
	if len(vals[timeKey]) != 8 {
		return fmt.Errorf("%s: bootstrap time record has %d bytes", stage, len(vals[timeKey]))
	}
	// one bootstrap = one etcd revision: cluster meta, bootstrap time, first store and first region are
	// created together (create revision == mod revision, the same for all four) — on the unchanged
	// tree the guarded txn puts exactly these four keys (observed from the txn itself, see txnKeys)
	for _, k := range []string{b.root, timeKey, storeKey, regionKey} {
		if noRevCheck {
			break // development aid: lets the fault oracle be tested on its own against a mutant
		}
		if revs[k] != revs[b.root] || revs[k] != fmt.Sprintf("%s/%s", strings.SplitN(revs[k], "/", 2)[0], strings.SplitN(revs[k], "/", 2)[0]) {
			return fmt.Errorf("%s: the bootstrap records were not written in one revision: meta %s, bootstrap time %s, store %s, region %s (create/mod revision)", stage, revs[b.root], revs[timeKey], revs[storeKey], revs[regionKey])
		}
	}
	b.mu.Lock()
	txnKeys := append([]string(nil), b.txnKeys...)
	b.mu.Unlock()
	if want := []string{b.root, regionKey, storeKey, timeKey}; txnKeys != nil && !noRevCheck {
		sort.Strings(want)
		if strings.Join(txnKeys, " ") != strings.Join(want, " ") {
			return fmt.Errorf("%s: the committed bootstrap txn wrote %v, want exactly meta, bootstrap time, first store, first region %v", stage, txnKeys, want)
		}
	}
	// --- through the server's storage
	var lm metapb.Cluster
	if ok, err := st.LoadMeta(&lm); err != nil || !ok || !protoEq(&lm, wantMeta) {
		return fmt.Errorf("%s: LoadMeta gives %v (%v, %v), want %v", stage, &lm, ok, err, wantMeta)
	}
	var ls metapb.Store
	if ok, err := st.LoadStore(wstore.GetId(), &ls); err != nil || !ok || !protoEq(&ls, wstore) {
		return fmt.Errorf("%s: LoadStore(%d) gives %v (%v, %v), want %v", stage, wstore.GetId(), &ls, ok, err, wstore)
	}
	var lr metapb.Region
	if ok, err := st.LoadRegion(wregion.GetId(), &lr); (b.rsFault && err != nil) || (err == nil && !ok && b.regionCopyOptional()) {
		// see regionCopyOptional
	} else if err != nil || !ok || !protoEq(&lr, wregion) {
		return fmt.Errorf("%s: LoadRegion(%d) gives %v (%v, %v), want %v", stage, wregion.GetId(), &lr, ok, err, wregion)
	}
	var loadedStores []*metapb.Store
	if err := st.LoadStores(func(s *core.StoreInfo) { loadedStores = append(loadedStores, s.GetMeta()) }); err != nil {
		return errInconclusive
	}
	if len(loadedStores) != 1 || !protoEq(loadedStores[0], wstore) {
		return fmt.Errorf("%s: LoadStores gives %v, want only the winner's %v", stage, loadedStores, wstore)
	}
	var loadedRegions []*metapb.Region
	if err := st.LoadRegions(func(r *core.RegionInfo) []*core.RegionInfo {
		loadedRegions = append(loadedRegions, r.GetMeta())
		return nil
	}); err != nil {
		if !b.rsFault {
			return errInconclusive
		}
		loadedRegions = nil
	}
	if b.regionCopyOptional() && len(loadedRegions) == 0 {
		// see degraded
	} else if len(loadedRegions) != 1 || !protoEq(loadedRegions[0], wregion) {
		return fmt.Errorf("%s: LoadRegions gives %v, want only the winner's %v", stage, loadedRegions, wregion)
	}
	// --- served
	if rc == nil {
		return fmt.Errorf("%s: %s succeeded but no raft cluster is served", stage, w.name)
	}
	if !isb.GetBootstrapped() {
		return fmt.Errorf("%s: %s succeeded but IsBootstrapped says false", stage, w.name)
	}
	gs2, err := svr.GetStore(ctx, &pdpb.GetStoreRequest{Header: &pdpb.RequestHeader{ClusterId: b.cid}, StoreId: wstore.GetId()})
	if err != nil && (envError(err.Error()) || strings.Contains(err.Error(), "not leader")) {
		return errInconclusive
	}
	if err != nil || gs2.GetHeader().GetError() != nil || !protoEq(gs2.GetStore(), wstore) {
		return fmt.Errorf("%s: %s succeeded but GetStore(%d) answers %v (header %v, error %v)", stage, w.name, wstore.GetId(), gs2.GetStore(), gs2.GetHeader(), err)
	}
	if sm := rc.GetConfig(); !protoEq(sm, wantMeta) {
		return fmt.Errorf("%s: served cluster meta is %v, want %v", stage, sm, wantMeta)
	}
	if ss := rc.GetMetaStores(); len(ss) != 1 || !protoEq(ss[0], wstore) {
		return fmt.Errorf("%s: served stores are %v, want only the winner's %v", stage, ss, wstore)
	}
	if rs := rc.GetMetaRegions(); b.regionCopyOptional() && len(rs) == 0 {
		// see degraded
	} else if len(rs) != 1 || !protoEq(rs[0], wregion) {
		return fmt.Errorf("%s: served regions are %v, want only the winner's %v", stage, rs, wregion)
	}
	// --- nothing changed since the previous look
	if unchanged && b.lastVal != nil {
		for _, k := range []string{b.root, storeKey, regionKey, timeKey} {
			if b.lastVal[k] != vals[k] || b.lastRev[k] != revs[k] {
				return fmt.Errorf("%s: record %s changed after the cluster was bootstrapped (revisions %s -> %s)", stage, k, b.lastRev[k], revs[k])
			}
		}
	}
	b.lastVal, b.lastRev = vals, revs
	return nil
}

func sortedKeys(m map[string]string) []string {
	var ks []string
	for k := range m {
		ks = append(ks, k)
	}
	sort.Strings(ks)
	return ks
}

// sequential sends one request on a quiescent server and checks the first-valid-wins rule.
func (b *bootRun) sequential(in *inst, stage string) error {
	had := b.winner
	o := callBootstrap(b.svr, in)
	if err := b.classify(in, o, stage); err != nil {
		return err
	}
	if o.ok {
		if had != nil {
			return fmt.Errorf("%s: %s succeeded although the cluster was already bootstrapped by %s", stage, in.name, had.name)
		}
		b.winner = in
	} else if had == nil && in.valid {
		return fmt.Errorf("%s: well-formed %s on a cluster that is not bootstrapped was refused: %v", stage, in.name, o)
	} else if had == nil && o.already {
		return fmt.Errorf("%s: %s was answered ALREADY_BOOTSTRAPPED but nothing has been bootstrapped", stage, in.name)
	}
	return b.verify(stage+" / after "+in.name, had != nil)
}

// faultPhase: see Fault. ORACLE: a Bootstrap call that returned an error left the cluster root
// either exactly as it was (never bootstrapped; a later valid request then succeeds) or completely
// bootstrapped by this very request (all four records, one revision; after the next leader term the
// cluster is served, IsBootstrapped is true and every later Bootstrap is refused) — never a subset.
func (b *bootRun) faultPhase(c BootCase, info *vkit.Info, mk func(Req) *inst, install func()) error {
	f := b.f
	spec := Req{Kind: "ok", Labels: c.Fault.Labels}
	// 1. fault-free run: count the etcd requests of the call
	probe := mk(spec)
	plan := &faultPlan{goid: curGoid()}
	f.plan.Store(plan)
	err := b.sequential(probe, "fault-free run")
	f.plan.Store((*faultPlan)(nil))
	if err != nil {
		return err
	}
	k := plan.count
	if k == 0 {
		return fmt.Errorf("fault-free run: a successful Bootstrap issued no etcd request at all")
	}
	info.Class(fmt.Sprintf("etcd-requests-per-bootstrap-%d", k))
	// 2. back to the never-bootstrapped state
	if err := f.reset(); err != nil {
		fmt.Printf("c20: reset failed (inconclusive, server will be restarted): %v\n", err)
		return errInconclusive
	}
	install()
	b.winner, b.lastVal, b.lastRev = nil, nil, nil
	b.mu.Lock()
	b.commits, b.txnKeys = nil, nil
	b.mu.Unlock()
	if err := b.verify("after the reset before the faulted request", false); err != nil {
		return err
	}
	// 3. the same shape of request with a fault on its n-th etcd request
	in := mk(spec)
	n := 1 + c.Fault.N%k
	plan = &faultPlan{goid: curGoid(), failAt: n, kind: c.Fault.Kind}
	f.plan.Store(plan)
	o := callBootstrap(b.svr, in)
	f.plan.Store((*faultPlan)(nil))
	stage := fmt.Sprintf("faulted request (%s on etcd request %d of %d: %q; outcome %v)", c.Fault.Kind, n, k, plan.hit, o)
	info.Class("fault-" + c.Fault.Kind)
	if plan.hit == "" {
		info.Class("fault-not-reached")
	} else if strings.HasPrefix(plan.hit, "txn bootstrap") {
		info.Class("fault-on-guarded-txn-" + c.Fault.Kind)
	} else if strings.HasPrefix(plan.hit, "txn") {
		info.Class("fault-on-later-write")
	} else {
		info.Class("fault-on-later-read")
	}
	if o.panic != "" {
		return fmt.Errorf("%s: the request panicked", stage)
	}
	if o.ok {
		// the fault was swallowed or not reached: an ordinary success
		info.Class("fault-outcome-success")
		b.winner = in
		return b.verify(stage, false)
	}
	if !strings.Contains(o.err, errInjectedEtcd.Error()) && !strings.Contains(o.err, rpctypes.ErrTimeoutDueToLeaderFail.Error()) {
		if envError(o.err) || strings.Contains(o.err, "not leader") {
			return errInconclusive
		}
		return fmt.Errorf("%s: a valid request on a never-bootstrapped cluster failed, and not with the injected failure", stage)
	}
	vals, revs, err := f.snapshot()
	if err != nil {
		return errInconclusive
	}
	if len(vals) == 0 {
		// nothing happened: the state is byte-identical to the never-bootstrapped one
		info.Class("fault-outcome-error-nothing-stored")
		return b.verify(stage, false)
	}
	// something is stored: it must be everything, from this request, in one revision
	storeKey := path.Join(b.root, "s", fmt.Sprintf("%020d", in.req.GetStore().GetId()))
	regionKey := path.Join(b.root, "r", fmt.Sprintf("%020d", in.req.GetRegion().GetId()))
	timeKey := path.Join(b.root, "status", "raft_bootstrap_time")
	for _, key := range []string{b.root, timeKey, storeKey, regionKey} {
		if _, ok := vals[key]; !ok {
			return fmt.Errorf("%s: the request returned an error but left a PART of the bootstrap record behind: %s is missing, stored keys (create/mod revision): %v", stage, key, describeRevs(revs))
		}
	}
	info.Class("fault-outcome-error-complete-record")
	b.winner, b.degraded = in, true
	// the cluster is bootstrapped for good; it is served from the next leader term on
	b.svr.GetMember().ResetLeader()
	deadline := time.Now().Add(40 * time.Second)
	for !(b.svr.GetMember().IsLeader() && b.svr.GetRaftCluster() != nil) {
		if time.Now().After(deadline) {
			return errInconclusive
		}
		time.Sleep(2 * time.Millisecond)
	}
	return b.verify(stage+", after the next leader term", false)
}

func describeRevs(revs map[string]string) []string {
	var out []string
	for _, k := range sortedKeys(revs) {
		out = append(out, k+"@"+revs[k])
	}
	return out
}

func runBoot(c BootCase) (vkit.Info, error) {
	var info vkit.Info
	f, err := getLive()
	if err != nil {
		fmt.Printf("c20: live server unavailable (inconclusive): %v\n", err)
		info.Inconclusive = true
		return info, nil
	}
	if err := f.reset(); err != nil {
		fmt.Printf("c20: reset failed (inconclusive, server will be restarted): %v\n", err)
		f.broken = true
		info.Inconclusive = true
		return info, nil
	}
	info, err = runBootOn(f, c)
	f.kvw.set(nil)
	if err == errInconclusive {
		f.broken = true // start the next case from a brand-new server
		info.Inconclusive = true
		return info, nil
	}
	return info, err
}

func runBootOn(f *liveFix, c BootCase) (vkit.Info, error) {
	var info vkit.Info
	svr := f.svr
	b := &bootRun{f: f, svr: svr, cid: svr.ClusterID(), root: svr.GetClusterRootPath()}
	idx := 0
	mk := func(r Req) *inst {
		in := mkInst(c, r, idx, b.cid)
		idx++
		b.all = append(b.all, in)
		return in
	}
	var sc atomic.Value         // *gate.Sched while a gated race is running
	var raceFaults atomic.Value // map[store key]bool: whose guarded txn fails before it is sent (during the race)
	parkedCnt := int32(0)
	install := func() {
		f.kvw.set(&txnHooks{
			before: func(ti *txnInfo) int {
				_, isBoot := ti.puts[b.root]
				if isBoot {
					if s, _ := sc.Load().(*gate.Sched); s != nil {
						atomic.AddInt32(&parkedCnt, 1)
						s.Enter("bootstrap-txn", "")
					}
				}
				p, _ := f.plan.Load().(*faultPlan)
				if isBoot {
					if rf, _ := raceFaults.Load().(map[string]bool); rf != nil {
						for k := range ti.puts {
							if rf[k] {
								return 1
							}
						}
					}
					return p.next("txn bootstrap")
				}
				return p.next("txn " + ti.first)
			},
			after: func(ti *txnInfo) {
				if _, isBoot := ti.puts[b.root]; !isBoot || !ti.succeeded {
					return
				}
				var sk []string
				for k := range ti.puts {
					if strings.HasPrefix(k, b.root+"/s/") {
						sk = append(sk, k)
					}
				}
				b.mu.Lock()
				b.commits = append(b.commits, strings.Join(sk, ","))
				b.txnKeys = sortedKeys(ti.puts)
				b.mu.Unlock()
			},
		})
	}
	install()

	if err := b.verify("before any request", false); err != nil {
		return info, err
	}
	// ---- a broken member-local region store for the whole case
	if c.RSFault && c.Fault == nil {
		// every WRITE to the store fails (the post-commit copy of the first region), reads work: the
		// leveldb is re-opened read-only under the storage. (A store whose reads fail too makes
		// RaftCluster.Start fail in LoadRegionsOnce since LoadRange reports iterator errors — a different
		// situation, not exercised.)
		if rs := f.cur.GetRegionStorage(); rs != nil {
			rs.LeveldbKV.DB.Close()
			ro, err := leveldb.OpenFile(f.curDir, &opt.Options{ReadOnly: true})
			if err != nil {
				return info, errInconclusive
			}
			rs.LeveldbKV.DB = ro
			b.rsFault = true
			info.Class("region-store-broken")
		}
	}
	// ---- one valid request with an injected etcd fault
	if c.Fault != nil {
		if err := b.faultPhase(c, &info, mk, install); err != nil {
			return info, err
		}
	}
	// ---- refused requests before the race
	for _, r := range c.Pre {
		in := mk(r)
		if err := b.sequential(in, "pre"); err != nil {
			return info, err
		}
		info.Class("pre-" + kindClass(r))
	}
	// ---- the race
	race := make([]*inst, len(c.Reqs))
	outs := make([]outcome, len(c.Reqs))
	nValid := 0
	for i, r := range c.Reqs {
		race[i] = mk(r)
		if race[i].valid {
			nValid++
		}
		info.Class("race-" + kindClass(r))
		info.ClassIf(r.Shape != 0, fmt.Sprintf("race-unusual-shape-%d", r.Shape))
	}
	faulted := make([]bool, len(race))
	nFaulted := 0
	if len(c.RaceFaults) == len(race) {
		rf := map[string]bool{}
		for i, in := range race {
			if c.RaceFaults[i] && in.req.GetStore() != nil {
				faulted[i] = true
				rf[path.Join(b.root, "s", fmt.Sprintf("%020d", in.req.GetStore().GetId()))] = true
				if in.valid {
					nValid--
					nFaulted++
				}
			}
		}
		raceFaults.Store(rf)
	}
	if c.Mode == "gate" {
		s := gate.New()
		s.Watchdog = 30 * time.Second
		sc.Store(s)
		var wg sync.WaitGroup
		for i := range race {
			i := i
			wg.Add(1)
			s.Go(i+1, func() {
				defer wg.Done()
				outs[i] = callBootstrap(svr, race[i])
			})
		}
		ok := s.Run(c.Sched, nil)
		s.Disable()
		wg.Wait() // never leave a request running into the next case
		sc.Store((*gate.Sched)(nil))
		if !ok {
			return info, errInconclusive
		}
	} else {
		var wg sync.WaitGroup
		start := make(chan struct{})
		for i := range race {
			i := i
			wg.Add(1)
			go func() {
				defer wg.Done()
				<-start
				outs[i] = callBootstrap(svr, race[i])
			}()
		}
		close(start)
		wg.Wait()
	}
	raceFaults.Store(map[string]bool(nil))
	var succ []*inst
	nAlready := 0
	for i, in := range race {
		if faulted[i] && outs[i].ok {
			return info, fmt.Errorf("race: %s was answered with success although its guarded bootstrap txn failed with an error and was never sent to etcd [outcomes: %s]", in.name, describe(race, outs))
		}
		if err := b.classify(in, outs[i], "race"); err != nil {
			if err != errInconclusive {
				err = fmt.Errorf("%v [outcomes: %s]", err, describe(race, outs))
			}
			return info, err
		}
		if outs[i].ok {
			succ = append(succ, in)
		}
		if outs[i].already {
			nAlready++
		}
	}
	hadWinner := b.winner
	if hadWinner != nil && len(succ) > 0 {
		return info, fmt.Errorf("race: %s succeeded although the cluster was already bootstrapped by %s [outcomes: %s]", succ[0].name, hadWinner.name, describe(race, outs))
	}
	if len(succ) > 1 {
		return info, fmt.Errorf("race: %d concurrent requests succeeded, exactly one may [outcomes: %s]", len(succ), describe(race, outs))
	}
	if len(succ) == 1 {
		if !succ[0].valid {
			return info, fmt.Errorf("race: %s succeeded but is not a valid request [outcomes: %s]", succ[0].name, describe(race, outs))
		}
		b.winner = succ[0]
	}
	if hadWinner == nil && nValid > 0 && len(succ) == 0 {
		b.mu.Lock()
		committed := append([]string(nil), b.commits...)
		b.mu.Unlock()
		return info, fmt.Errorf("race: %d well-formed requests with the right cluster id raced on a fresh cluster and none was answered with success (bootstrap txns committed, by store key: %v — the request that committed must be the one that succeeds) [outcomes: %s]", nValid, committed, describe(race, outs))
	}
	if err := b.verify("after the race ["+describe(race, outs)+"]", hadWinner != nil); err != nil {
		return info, err
	}
	info.Class("mode-" + c.Mode)
	info.Class(fmt.Sprintf("race-valid-%d", nValid))
	info.ClassIf(nFaulted > 0, "race-valid-request-with-failed-txn")
	info.ClassIf(c.Mode == "gate" && atomic.LoadInt32(&parkedCnt) >= 2, "gate-2+-txns-parked-together")
	info.ClassIf(nAlready > 0, "race-loser-already-bootstrapped")
	info.ClassIf(b.winner == nil, "race-nobody-valid")
	info.ClassIf(hadWinner != nil, "race-on-bootstrapped-cluster")
	info.NonTrivial = nValid+nFaulted >= 2 && hadWinner == nil

	// ---- afterwards: fresh requests, repeats, leader change
	for _, r := range c.Late {
		in := mk(r)
		if err := b.sequential(in, "late"); err != nil {
			return info, err
		}
		info.Class("late-" + kindClass(r))
	}
	earlier := append([]*inst(nil), b.all...)
	if c.Repeat {
		for _, in := range earlier {
			if b.winner == nil && in.valid {
				continue // cannot happen: a valid request would have won
			}
			if err := b.sequential(in, "repeat"); err != nil {
				return info, err
			}
		}
		info.Class("repeat")
	}
	if c.Reelect {
		svr.GetMember().ResetLeader()
		deadline := time.Now().Add(40 * time.Second)
		for {
			if svr.GetMember().IsLeader() && (b.winner == nil || svr.GetRaftCluster() != nil) {
				break
			}
			if time.Now().After(deadline) {
				return info, errInconclusive
			}
			time.Sleep(5 * time.Millisecond)
		}
		if err := b.verify("after leader re-election", true); err != nil {
			return info, err
		}
		for _, in := range earlier {
			if err := b.sequential(in, "repeat after re-election"); err != nil {
				return info, err
			}
		}
		info.Class("reelect")
	}
	return info, nil
}

func kindClass(r Req) string {
	if r.WrongID != 0 {
		return "wrong-cluster-id"
	}
	if r.Kind == "ok" {
		return "valid"
	}
	return "malformed-" + r.Kind
}

func describe(race []*inst, outs []outcome) string {
	var parts []string
	for i, in := range race {
		parts = append(parts, fmt.Sprintf("#%d %s/wrongId=%d -> %v", in.idx, in.spec.Kind, in.spec.WrongID, outs[i]))
	}
	return strings.Join(parts, "; ")
}
