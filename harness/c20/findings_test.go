package c20

// Deterministic probes of known / fixed findings of C20 (library-free, real code, real HTTP API).

import (
	"bytes"
	"context"
	"fmt"
	"io"
	"net/http"
	"os"
	"path"
	"path/filepath"
	"testing"
	"time"

	"github.com/pingcap/kvproto/pkg/metapb"
	"github.com/pingcap/kvproto/pkg/pdpb"
	"github.com/tikv/pd/server/config"
	"github.com/tikv/pd/tests"
	"pdverif/vkit"
)

// C20/scatter-range-name-overwrites-cluster-meta
//
// POST /pd/api/v1/schedulers {"name":"scatter-range","range_name":"x/../../raft",...}: the scheduler's
// name is "scatter-range-" + range_name (taken verbatim from the JSON body, never validated) and
// schedule.CreateScheduler saves its config with Storage.SaveScheduleConfig(name) =
// path.Join("scheduler_config", name) BEFORE anything else looks at the scheduler. path.Join cleans
// "scheduler_config/scatter-range-x/../../raft" to "raft" — the cluster meta key written by the
// bootstrap txn. The cluster meta (identity) of a bootstrapped cluster is replaced by the JSON of a
// scheduler config; the running leader keeps serving the cached meta, the next RaftCluster.Start
// (leader change / restart) loads the garbage.
func TestFinding_scatter_range_name_overwrites_cluster_meta(t *testing.T) {
	const key = "C20/scatter-range-name-overwrites-cluster-meta"
	f, err := getLive()
	if err != nil {
		vkit.Finding(t, key, false, "inconclusive: live server unavailable: "+err.Error())
		return
	}
	defer func() { f.broken = true }() // the probe leaves a scheduler behind: never reuse this server
	if err := f.prepareRefusal(); err != nil {
		vkit.Finding(t, key, false, "inconclusive: fixture not ready: "+err.Error())
		return
	}
	metaKey := path.Join(f.svr.GetServerRootPath(), "raft")
	read := func() ([]byte, int64, error) {
		ctx, cancel := context.WithTimeout(context.Background(), 10*time.Second)
		defer cancel()
		resp, err := f.own.Get(ctx, metaKey)
		if err != nil {
			return nil, 0, fmt.Errorf("read %s: %v", metaKey, err)
		}
		if len(resp.Kvs) != 1 {
			return nil, 0, fmt.Errorf("read %s: %d records", metaKey, len(resp.Kvs))
		}
		return resp.Kvs[0].Value, resp.Kvs[0].ModRevision, nil
	}
	before, revBefore, err := read()
	if err != nil {
		vkit.Finding(t, key, false, "inconclusive: "+err.Error())
		return
	}
	body := []byte(`{"name":"scatter-range","start_key":"","end_key":"","range_name":"x/../../raft"}`)
	hc := &http.Client{Timeout: 20 * time.Second}
	resp, err := hc.Post(f.svr.GetAddr()+"/pd/api/v1/schedulers", "application/json", bytes.NewReader(body))
	if err != nil {
		vkit.Finding(t, key, false, "inconclusive: POST /schedulers: "+err.Error())
		return
	}
	answer, _ := io.ReadAll(resp.Body)
	resp.Body.Close()
	after, revAfter, err := read()
	if err != nil {
		// the key is gone or unreadable: also a change
		vkit.Finding(t, key, true, fmt.Sprintf("after POST /schedulers (HTTP %d %s) the cluster meta key cannot be read: %v", resp.StatusCode, bytes.TrimSpace(answer), err))
		return
	}
	changed := !bytes.Equal(before, after) || revBefore != revAfter
	var m metapb.Cluster
	parse := m.Unmarshal(after)
	detail := fmt.Sprintf("POST /pd/api/v1/schedulers scatter-range with range_name x/../../raft answered HTTP %d %s; cluster meta key %s: revision %d -> %d, value %q -> %q (parses as cluster meta: %v, id %d, server cluster id %d)",
		resp.StatusCode, bytes.TrimSpace(answer), metaKey, revBefore, revAfter, trunc(before), trunc(after), parse == nil, m.GetId(), f.svr.ClusterID())
	vkit.Finding(t, key, changed, detail)
}

// C20/internal-requests-accept-foreign-cluster-id
//
// SyncMaxTS and GetDCLocationInfo (PD-to-PD calls) are validated by validateInternalRequest, which
// checks that the server is started and (SyncMaxTS) that the sender id is the leader's member id, but
// never looks at the header's cluster id: a request that states ANOTHER cluster's id is served
// (SyncMaxTS with SkipCheck then writes MaxTs into the TSO of every local allocator this member leads).
// Probe over real gRPC: with a foreign cluster id and the right sender id both calls get past the
// validation (they fail later, for reasons that have nothing to do with the id, on a cluster without
// local TSO); control: with a wrong sender id SyncMaxTS is refused by the validation.
func TestFinding_internal_requests_accept_foreign_cluster_id(t *testing.T) {
	const key = knownInternalForeignID
	f, err := getLive()
	if err != nil {
		vkit.Finding(t, key, false, "inconclusive: live server unavailable: "+err.Error())
		return
	}
	if err := f.prepareRefusal(); err != nil {
		f.broken = true
		vkit.Finding(t, key, false, "inconclusive: fixture not ready: "+err.Error())
		return
	}
	cli := pdpb.NewPDClient(f.conn)
	cid, leader := f.svr.ClusterID(), f.svr.GetMember().ID()
	ctx, cancel := context.WithTimeout(context.Background(), 20*time.Second)
	defer cancel()
	foreign := &pdpb.RequestHeader{ClusterId: cid + 1, SenderId: leader}
	_, e1 := cli.SyncMaxTS(ctx, &pdpb.SyncMaxTSRequest{Header: foreign, SkipCheck: true, MaxTs: &pdpb.Timestamp{Physical: 1, Logical: 1}})
	_, e2 := cli.GetDCLocationInfo(ctx, &pdpb.GetDCLocationInfoRequest{Header: foreign, DcLocation: "dc-1"})
	_, e3 := cli.SyncMaxTS(ctx, &pdpb.SyncMaxTSRequest{Header: &pdpb.RequestHeader{ClusterId: cid, SenderId: leader + 1}, SkipCheck: true, MaxTs: &pdpb.Timestamp{Physical: 1, Logical: 1}})
	if isEnv(e1) || isEnv(e2) || isEnv(e3) {
		vkit.Finding(t, key, false, fmt.Sprintf("inconclusive: %v / %v / %v", e1, e2, e3))
		return
	}
	reproduced := !isMismatch(e1) || !isMismatch(e2)
	vkit.Finding(t, key, reproduced, fmt.Sprintf("server cluster id %d; SyncMaxTS with cluster id %d and the leader's sender id: %v; GetDCLocationInfo with cluster id %d: %v (refused as a cluster-id mismatch: %v / %v); control, SyncMaxTS with a wrong sender id: %v",
		cid, cid+1, e1, cid+1, e2, isMismatch(e1), isMismatch(e2), e3))
}

// C20/first-region-not-served-by-a-former-follower
//
// A member that was a follower before the cluster was bootstrapped ran RegionSyncer.StartSyncWithLeader
// -> Storage.LoadRegionsOnce on its (empty) region storage, which marks the storage as loaded. When
// that member becomes PD leader and a Bootstrap request succeeds on it, bootstrapCluster saves the first
// region to the region storage and starts the raft cluster, whose LoadRegionsOnce is now a no-op: the
// cluster is served WITHOUT its first region (GetRegion / GetRegionByID answer nothing) until the first
// region heartbeat, although the request was answered with success and the region is stored.
func TestFinding_first_region_not_served_by_a_former_follower(t *testing.T) {
	const key = "C20/first-region-not-served-by-a-former-follower"
	shutdownLive() // address space: at most one fixture with embedded etcds at a time
	ctx, cancel := context.WithCancel(context.Background())
	defer cancel()
	base := filepath.Join(os.TempDir(), fmt.Sprintf("verif-c20-probe-%d", os.Getpid()))
	defer os.RemoveAll(base)
	var cl *tests.TestCluster
	var err error
	ok := within(90*time.Second, func() {
		cl, err = tests.NewTestCluster(ctx, 2, func(conf *config.Config, name string) {
			conf.EnableLocalTSO = false
			conf.Log.Level = "fatal"
			os.Remove(conf.DataDir)
			conf.DataDir = filepath.Join(base, name)
		})
		if err == nil {
			err = cl.RunInitialServers()
		}
	})
	if !ok || err != nil {
		vkit.Finding(t, key, false, fmt.Sprintf("inconclusive: the 2-member cluster did not start: ok=%v err=%v", ok, err))
		return
	}
	first := cl.WaitLeader()
	if first == "" {
		vkit.Finding(t, key, false, "inconclusive: no leader")
		return
	}
	// let the follower run its region sync client against the (not yet bootstrapped) leader
	time.Sleep(800 * time.Millisecond)
	second := ""
	for attempt := 0; attempt < 5 && (second == "" || second == first); attempt++ {
		if err := cl.ResignLeader(); err != nil {
			time.Sleep(300 * time.Millisecond)
			continue
		}
		time.Sleep(300 * time.Millisecond)
		second = cl.WaitLeader()
	}
	if second == "" || second == first {
		vkit.Finding(t, key, false, "inconclusive: the leadership did not move to the former follower")
		return
	}
	svr := cl.GetServer(second).GetServer()
	deadline := time.Now().Add(20 * time.Second)
	for !svr.GetMember().IsLeader() && time.Now().Before(deadline) {
		time.Sleep(10 * time.Millisecond)
	}
	h := &pdpb.RequestHeader{ClusterId: svr.ClusterID()}
	region := &metapb.Region{Id: 2, RegionEpoch: &metapb.RegionEpoch{ConfVer: 1, Version: 1}, Peers: []*metapb.Peer{{Id: 3, StoreId: 1}}}
	rctx, rcancel := context.WithTimeout(context.Background(), 30*time.Second)
	defer rcancel()
	resp, err := svr.Bootstrap(rctx, &pdpb.BootstrapRequest{Header: h, Store: &metapb.Store{Id: 1, Address: "tikv-1:20160", Version: "5.0.0"}, Region: region})
	if err != nil || resp.GetHeader().GetError() != nil {
		vkit.Finding(t, key, false, fmt.Sprintf("inconclusive: bootstrap on the new leader failed: %v %v", err, resp.GetHeader().GetError()))
		return
	}
	byID, e1 := svr.GetRegionByID(rctx, &pdpb.GetRegionByIDRequest{Header: h, RegionId: 2})
	byKey, e2 := svr.GetRegion(rctx, &pdpb.GetRegionRequest{Header: h, RegionKey: []byte("a")})
	var stored metapb.Region
	okStored, e3 := svr.GetStorage().LoadRegion(2, &stored)
	store, e4 := svr.GetStore(rctx, &pdpb.GetStoreRequest{Header: h, StoreId: 1})
	if e1 != nil || e2 != nil || e3 != nil || e4 != nil {
		vkit.Finding(t, key, false, fmt.Sprintf("inconclusive: %v %v %v %v", e1, e2, e3, e4))
		return
	}
	reproduced := byID.GetRegion() == nil || byKey.GetRegion() == nil
	vkit.Finding(t, key, reproduced, fmt.Sprintf("leader %s resigned, former follower %s became leader and answered Bootstrap with success; right afterwards GetRegionByID(2) serves %v, GetRegion(\"a\") serves %v, GetStore(1) serves %v; region storage holds the region: %v",
		first, second, byID.GetRegion(), byKey.GetRegion(), store.GetStore(), okStored))
	// no graceful stop (it takes ~10 s and buys nothing): the context is cancelled and the data removed
}

func trunc(b []byte) string {
	if len(b) > 60 {
		return string(b[:60]) + "..."
	}
	return string(b)
}
