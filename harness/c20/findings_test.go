package c20

// Deterministic probes of known / fixed findings of C20 (library-free, real code, real HTTP API).

import (
	"bytes"
	"context"
	"fmt"
	"io"
	"net/http"
	"path"
	"testing"
	"time"

	"github.com/pingcap/kvproto/pkg/metapb"
	"pdverif/vkit"
)

// C20/scatter-range-name-overwrites-cluster-meta
//
// POST /pd/api/v1/schedulers {"name":"scatter-range","range_name":"x/../../raft",...}: the scheduler's
// name is "scatter-range-" + range_name (taken verbatim from the JSON body, never validated) and
// schedule.CreateScheduler saves its config with Storage.SaveScheduleConfig(name) =
// path.Join("scheduler_config", name) BEFORE anything else looks at the scheduler. path.Join cleans
// "scheduler_config/scatter-range-x/../../raft" to "raft" — the cluster meta key written by the
// bootstrap txn. The cluster meta (identity) of a bootstrapped cluster is replaced by the JSON of a
// scheduler config; the running leader keeps serving the cached meta, the next RaftCluster.Start
// (leader change / restart) loads the garbage.
func TestFinding_scatter_range_name_overwrites_cluster_meta(t *testing.T) {
	const key = "C20/scatter-range-name-overwrites-cluster-meta"
	f, err := getLive()
	if err != nil {
		vkit.Finding(t, key, false, "inconclusive: live server unavailable: "+err.Error())
		return
	}
	defer func() { f.broken = true }() // the probe leaves a scheduler behind: never reuse this server
	if err := f.prepareRefusal(); err != nil {
		vkit.Finding(t, key, false, "inconclusive: fixture not ready: "+err.Error())
		return
	}
	metaKey := path.Join(f.svr.GetServerRootPath(), "raft")
	read := func() ([]byte, int64, error) {
		ctx, cancel := context.WithTimeout(context.Background(), 10*time.Second)
		defer cancel()
		resp, err := f.own.Get(ctx, metaKey)
		if err != nil {
			return nil, 0, fmt.Errorf("read %s: %v", metaKey, err)
		}
		if len(resp.Kvs) != 1 {
			return nil, 0, fmt.Errorf("read %s: %d records", metaKey, len(resp.Kvs))
		}
		return resp.Kvs[0].Value, resp.Kvs[0].ModRevision, nil
	}
	before, revBefore, err := read()
	if err != nil {
		vkit.Finding(t, key, false, "inconclusive: "+err.Error())
		return
	}
	body := []byte(`{"name":"scatter-range","start_key":"","end_key":"","range_name":"x/../../raft"}`)
	hc := &http.Client{Timeout: 20 * time.Second}
	resp, err := hc.Post(f.svr.GetAddr()+"/pd/api/v1/schedulers", "application/json", bytes.NewReader(body))
	if err != nil {
		vkit.Finding(t, key, false, "inconclusive: POST /schedulers: "+err.Error())
		return
	}
	answer, _ := io.ReadAll(resp.Body)
	resp.Body.Close()
	after, revAfter, err := read()
	if err != nil {
		// the key is gone or unreadable: also a change
		vkit.Finding(t, key, true, fmt.Sprintf("after POST /schedulers (HTTP %d %s) the cluster meta key cannot be read: %v", resp.StatusCode, bytes.TrimSpace(answer), err))
		return
	}
	changed := !bytes.Equal(before, after) || revBefore != revAfter
	var m metapb.Cluster
	parse := m.Unmarshal(after)
	detail := fmt.Sprintf("POST /pd/api/v1/schedulers scatter-range with range_name x/../../raft answered HTTP %d %s; cluster meta key %s: revision %d -> %d, value %q -> %q (parses as cluster meta: %v, id %d, server cluster id %d)",
		resp.StatusCode, bytes.TrimSpace(answer), metaKey, revBefore, revAfter, trunc(before), trunc(after), parse == nil, m.GetId(), f.svr.ClusterID())
	vkit.Finding(t, key, changed, detail)
}

func trunc(b []byte) string {
	if len(b) > 60 {
		return string(b[:60]) + "..."
	}
	return string(b)
}
