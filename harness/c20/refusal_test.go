package c20

// Property "refusal": requests carrying a different cluster id are refused — over the real
// gRPC API (a real client connection to the live, bootstrapped 1-member server).
//
// A case is a small request program: unary RPCs and requests on long-lived streams (Tso,
// RegionHeartbeat, SyncRegions; up to two streams of each kind), each with a header cluster id
// drawn from {right, right+1, 0, random, no header}. Streams stay open across steps, so a
// wrong id may arrive on a stream that has already served right-id requests.
//
// Which handlers check the cluster id (read from server/grpc_service.go):
//   validateRequest:  Bootstrap IsBootstrapped AllocID GetStore PutStore GetAllStores StoreHeartbeat
//                     GetRegion GetPrevRegion GetRegionByID ScanRegions AskSplit AskBatchSplit
//                     ReportSplit ReportBatchSplit GetClusterConfig PutClusterConfig ScatterRegion
//                     GetGCSafePoint UpdateGCSafePoint UpdateServiceGCSafePoint GetOperator SplitRegions
//                     and every request of a RegionHeartbeat stream;
//   own check:        every request of a Tso stream, every request of a SyncRegions stream;
//   exceptions:       GetMembers (how a client learns the cluster id; must answer whatever id it is
//                     given — checked here), SyncMaxTS and GetDCLocationInfo (PD-to-PD calls inside one
//                     etcd cluster, validated by sender id only — not exercised).
// Refusal is always a gRPC status FailedPrecondition "mismatch cluster id, need X but got Y" (unary:
// the call's error; stream: the error of the next Recv, the stream is then dead).
//
// ORACLE: a request whose header id differs from the server's is refused in that form and changes
// nothing observable (revisions of the etcd records raft, raft/*, alloc_id, gc/*; served stores,
// cluster config, region epoch/leader, operators; for the id-allocating RPCs a right-id AllocID
// probe before and after must return consecutive ids); a request with the right id is never
// refused for cluster-id reasons (and Tso / heartbeats / sync requests are really served).

import (
	"context"
	"fmt"
	"io"
	"path"
	"sort"
	"strings"
	"time"

	"github.com/gogo/protobuf/proto"
	"github.com/pingcap/kvproto/pkg/metapb"
	"github.com/pingcap/kvproto/pkg/pdpb"
	"github.com/tikv/pd/pkg/grpcutil"
	"go.etcd.io/etcd/clientv3"
	"google.golang.org/grpc"
	"google.golang.org/grpc/codes"
	"google.golang.org/grpc/status"
	"pdverif/vkit"
	"pgregory.net/rapid"
)

var refusalN = vkit.N{Quick: 240, Thorough: 8000}

func init() {
	vkit.Register("refusal", refusalN, genRefusal, runRefusal)
}

// ---------------------------------------------------------------- case data

var unaryRPCs = []string{
	"Bootstrap", "IsBootstrapped", "AllocID", "GetStore", "PutStore", "GetAllStores", "StoreHeartbeat",
	"GetRegion", "GetPrevRegion", "GetRegionByID", "ScanRegions", "AskSplit", "AskBatchSplit",
	"ReportSplit", "ReportBatchSplit", "GetClusterConfig", "PutClusterConfig", "ScatterRegion",
	"GetGCSafePoint", "UpdateGCSafePoint", "UpdateServiceGCSafePoint", "GetOperator", "SplitRegions",
	"GetMembers", "PutClusterConfig", "PutClusterConfig",
	"SyncMaxTS", "GetDCLocationInfo",
}

// internalRPCs: PD-to-PD calls (validateInternalRequest). Their real callers (server/tso) send a header
// with the sender's member id and NO cluster id, so an absent / zero cluster id is how these requests
// legitimately look; a header that does state a cluster id, and another cluster's, must be refused.
var internalRPCs = map[string]bool{"SyncMaxTS": true, "GetDCLocationInfo": true}

const knownInternalForeignID = "C20/internal-requests-accept-foreign-cluster-id"

// RPCs that allocate ids when they are served.
var allocating = map[string]bool{"AllocID": true, "AskSplit": true, "AskBatchSplit": true}

type RStep struct {
	K   string `json:"k"`             // unary | tso | hb | sync | reelect (leader steps down, is re-elected, identity is checked)
	RPC string `json:"rpc,omitempty"` // unary: which
	S   int    `json:"s,omitempty"`   // stream index (0..1) within its kind
	ID  int    `json:"id,omitempty"`  // 0 right, 1 right+1, 2 zero, 3 random (Rnd), 4 no header
	Rnd uint64 `json:"rnd,omitempty"`
	N   int    `json:"n,omitempty"` // tso: count
	P   int    `json:"p,omitempty"` // PutClusterConfig payload: 0 own cluster id, 1 foreign id, 2 zero id, 3 no cluster at all
	// Via 1: the request is sent to the FOLLOWER of a 2-member cluster with the pd-forwarded-host
	// metadata naming the leader (property "forwarded" only), 0: directly to the leader.
	Via int `json:"via,omitempty"`
}

type RefCase struct {
	Steps []RStep `json:"steps"`
}

func genRefusal(t *rapid.T) RefCase {
	var c RefCase
	n := rapid.IntRange(4, 14).Draw(t, "nsteps")
	reelected := false
	for i := 0; i < n; i++ {
		var st RStep
		switch k := rapid.IntRange(0, 19).Draw(t, "kind"); {
		case k < 9:
			st.K, st.RPC = "unary", rapid.SampledFrom(unaryRPCs).Draw(t, "rpc")
		case k < 15:
			st.K, st.N = "tso", rapid.IntRange(1, 3).Draw(t, "count")
		case k < 18:
			st.K = "hb"
		default:
			st.K = "sync"
		}
		if st.K != "unary" {
			st.S = rapid.IntRange(0, 1).Draw(t, "stream")
		}
		if rapid.IntRange(0, 9).Draw(t, "rightId") >= 5 {
			st.ID = rapid.IntRange(1, 4).Draw(t, "wrongKind")
			if st.ID == 3 {
				st.Rnd = rapid.Uint64().Draw(t, "rnd")
			}
		}
		if st.RPC == "PutClusterConfig" {
			st.P = rapid.IntRange(0, 3).Draw(t, "payload")
		}
		c.Steps = append(c.Steps, st)
		// the identity must survive a leader change: mostly right after a cluster-config request
		if st.RPC == "PutClusterConfig" && !reelected && rapid.IntRange(0, 3).Draw(t, "reelect") == 3 {
			c.Steps = append(c.Steps, RStep{K: "reelect"})
			reelected = true
		}
	}
	if !reelected && rapid.IntRange(0, 5).Draw(t, "reelectAtEnd") == 5 {
		c.Steps = append(c.Steps, RStep{K: "reelect"})
	}
	return c
}

// ---------------------------------------------------------------- fixture part

const (
	refStore, refRegion, refPeer = 1, 2, 3
	refExtraStore                = 9
)

// prepareRefusal makes sure the live server is bootstrapped with the known store/region, has a
// gRPC connection, and that the region syncer has something to send (one applied heartbeat).
func (f *liveFix) prepareRefusal() error {
	f.kvw.set(nil)
	if !f.waitLeader(30 * time.Second) {
		return fmt.Errorf("server is not leader")
	}
	if f.refReady && f.svr.GetRaftCluster() != nil {
		return nil
	}
	if err := f.reset(); err != nil {
		return err
	}
	svr := f.svr
	req := &pdpb.BootstrapRequest{
		Header: &pdpb.RequestHeader{ClusterId: svr.ClusterID()},
		Store:  &metapb.Store{Id: refStore, Address: "tikv-ref:20160", Version: "5.0.0"},
		Region: &metapb.Region{Id: refRegion, RegionEpoch: &metapb.RegionEpoch{ConfVer: 1, Version: 1},
			Peers: []*metapb.Peer{{Id: refPeer, StoreId: refStore}}},
	}
	ctx, cancel := context.WithTimeout(context.Background(), 30*time.Second)
	defer cancel()
	resp, err := svr.Bootstrap(ctx, req)
	if err != nil || resp.GetHeader().GetError() != nil {
		return fmt.Errorf("bootstrap of the refusal fixture: %v %v", err, resp.GetHeader().GetError())
	}
	f.refMeta = &metapb.Cluster{Id: svr.ClusterID(), MaxPeerCount: uint32(svr.GetPersistOptions().GetMaxReplicas())}
	if f.conn == nil {
		dctx, dcancel := context.WithTimeout(context.Background(), 15*time.Second)
		defer dcancel()
		conn, err := grpc.DialContext(dctx, strings.TrimPrefix(svr.GetAddr(), "http://"), grpc.WithInsecure(), grpc.WithBlock())
		if err != nil {
			return err
		}
		f.conn = conn
	}
	if f.own == nil {
		own, err := clientv3.New(clientv3.Config{Endpoints: []string{svr.GetAddr()}, DialTimeout: 15 * time.Second})
		if err != nil {
			return err
		}
		f.own = own
	}
	// one applied heartbeat: the region syncer's change log is no longer empty
	r := &refRun{f: f, cli: pdpb.NewPDClient(f.conn), cid: svr.ClusterID(), streams: map[string]*rstream{}}
	defer r.closeStreams()
	r.version = 1
	if err := r.heartbeat(RStep{K: "hb"}, "setup"); err != nil {
		return fmt.Errorf("setup heartbeat: %v", err)
	}
	deadline := time.Now().Add(10 * time.Second)
	for svr.GetRaftCluster().GetRegionSyncer().VerifNextIndex() == 0 {
		if time.Now().After(deadline) {
			return fmt.Errorf("region syncer recorded nothing")
		}
		time.Sleep(2 * time.Millisecond)
	}
	f.refReady = true
	return nil
}

// ---------------------------------------------------------------- streams

type recvItem struct {
	msg interface{}
	err error
}

type rstream struct {
	kind   string
	cancel context.CancelFunc
	send   func(interface{}) error
	done   func() error // CloseSend: the server sees EOF after the requests sent so far
	ch     chan recvItem
	served int // right-id requests served on this stream
	dead   bool
}

type refRun struct {
	f       *liveFix
	cli     pdpb.PDClient
	fcli    pdpb.PDClient // follower (forwarded route), nil on the 1-member fixture
	leader  string        // the leader's client URL (forwarded-host metadata)
	cid     uint64
	version uint64 // model of the served epoch version of the region
	gcSafe  uint64
	seq     int
	refused bool            // the last unary request was refused (gRPC error or error header)
	putCfg  *metapb.Cluster // the last unary request was an accepted PutClusterConfig with this payload
	meta    *metapb.Cluster // model: the cluster meta fixed at bootstrap + accepted config changes
	streams map[string]*rstream
	info    *vkit.Info
}

func (r *refRun) closeStreams() {
	for _, s := range r.streams {
		s.cancel()
	}
	r.streams = map[string]*rstream{}
}

// route: the client and context of a step's route.
func (r *refRun) route(via int, ctx context.Context) (pdpb.PDClient, context.Context) {
	if via == 1 && r.fcli != nil {
		return r.fcli, grpcutil.BuildForwardContext(ctx, r.leader)
	}
	return r.cli, ctx
}

func (r *refRun) stream(kind string, idx, via int) (*rstream, bool, error) {
	key := fmt.Sprintf("%s-%d-via%d", kind, idx, via)
	if s := r.streams[key]; s != nil && !s.dead {
		return s, false, nil
	}
	if s := r.streams[key]; s != nil {
		s.cancel()
	}
	ctx, cancel := context.WithCancel(context.Background())
	cli, ctx := r.route(via, ctx)
	s := &rstream{kind: kind, cancel: cancel, ch: make(chan recvItem, 256)}
	var recv func() (interface{}, error)
	switch kind {
	case "tso":
		st, err := cli.Tso(ctx)
		if err != nil {
			cancel()
			return nil, true, err
		}
		s.send = func(m interface{}) error { return st.Send(m.(*pdpb.TsoRequest)) }
		s.done = st.CloseSend
		recv = func() (interface{}, error) { return st.Recv() }
	case "hb":
		st, err := cli.RegionHeartbeat(ctx)
		if err != nil {
			cancel()
			return nil, true, err
		}
		s.send = func(m interface{}) error { return st.Send(m.(*pdpb.RegionHeartbeatRequest)) }
		s.done = st.CloseSend
		recv = func() (interface{}, error) { return st.Recv() }
	default:
		st, err := cli.SyncRegions(ctx)
		if err != nil {
			cancel()
			return nil, true, err
		}
		s.send = func(m interface{}) error { return st.Send(m.(*pdpb.SyncRegionRequest)) }
		s.done = st.CloseSend
		recv = func() (interface{}, error) { return st.Recv() }
	}
	go func() {
		for {
			m, err := recv()
			select {
			case s.ch <- recvItem{m, err}:
			default: // nobody is interested any more
			}
			if err != nil {
				return
			}
		}
	}()
	r.streams[key] = s
	return s, true, nil
}

// next waits for the next item; with wantErr it skips messages and waits for the stream's error.
func (s *rstream) next(wantErr bool, d time.Duration) (recvItem, bool) {
	t := time.NewTimer(d)
	defer t.Stop()
	for {
		select {
		case it := <-s.ch:
			if it.err == nil && wantErr {
				continue
			}
			return it, true
		case <-t.C:
			return recvItem{}, false
		}
	}
}

// ---------------------------------------------------------------- ids, refusal form

func (r *refRun) header(st RStep) (*pdpb.RequestHeader, bool) {
	h, right := r.header0(st)
	if internalRPCs[st.RPC] && h.GetClusterId() == 0 {
		right = true // no cluster id stated: the legitimate form of a PD-to-PD request
	}
	return h, right
}

func (r *refRun) header0(st RStep) (*pdpb.RequestHeader, bool) {
	switch st.ID {
	case 0:
		return &pdpb.RequestHeader{ClusterId: r.cid}, true
	case 1:
		return &pdpb.RequestHeader{ClusterId: r.cid + 1}, false
	case 2:
		return &pdpb.RequestHeader{ClusterId: 0}, r.cid == 0
	case 3:
		return &pdpb.RequestHeader{ClusterId: st.Rnd}, st.Rnd == r.cid
	default:
		return nil, r.cid == 0
	}
}

// isMismatch: the refusal. On the direct route it is the status FailedPrecondition. On the forwarded
// route a unary RPC relays the leader's status unchanged, but the follower's Tso / RegionHeartbeat
// proxies return the leader's status wrapped (errors.WithStack), which reaches the caller as code
// Unknown with the original text "rpc error: code = FailedPrecondition desc = mismatch cluster id ..."
// inside.
func isMismatch(err error) bool {
	if err == nil || !strings.Contains(err.Error(), "mismatch cluster id, need") {
		return false
	}
	return status.Code(err) == codes.FailedPrecondition ||
		(status.Code(err) == codes.Unknown && strings.Contains(err.Error(), "code = FailedPrecondition"))
}

func isEnv(err error) bool {
	if err == nil {
		return false
	}
	s := err.Error()
	return envError(s) || strings.Contains(s, "not leader") || strings.Contains(s, "not started")
}

// judge: the outcome of one request against the refusal rule.
func (r *refRun) judge(what string, right bool, err error, served bool) error {
	if right {
		if isMismatch(err) {
			return fmt.Errorf("%s carries the server's cluster id %d but was refused: %v", what, r.cid, err)
		}
		return nil
	}
	if isMismatch(err) {
		return nil
	}
	if isEnv(err) {
		return errInconclusive
	}
	if served || err == nil {
		return fmt.Errorf("%s carries a different cluster id (server has %d) and was served instead of refused", what, r.cid)
	}
	return fmt.Errorf("%s carries a different cluster id (server has %d) and must be refused as a cluster-id mismatch, got: %v", what, r.cid, err)
}

// ---------------------------------------------------------------- observables

func (r *refRun) observe() ([]string, bool, error) {
	svr := r.f.svr
	root := svr.GetServerRootPath()
	ctx, cancel := r.f.ctx()
	defer cancel()
	resp, err := r.f.raw.Txn(ctx).Then(
		clientv3.OpGet(path.Join(root, "raft")),
		clientv3.OpGet(path.Join(root, "raft")+"/", clientv3.WithPrefix()),
		clientv3.OpGet(path.Join(root, "alloc_id")),
		clientv3.OpGet(path.Join(root, "gc")+"/", clientv3.WithPrefix()),
	).Commit()
	if err != nil {
		return nil, false, err
	}
	var out []string
	for _, rr := range resp.Responses {
		for _, kvp := range rr.GetResponseRange().Kvs {
			out = append(out, fmt.Sprintf("etcd %s rev %d/%d", kvp.Key, kvp.CreateRevision, kvp.ModRevision))
		}
	}
	rc := svr.GetRaftCluster()
	if rc == nil {
		return nil, false, fmt.Errorf("cluster not running")
	}
	out = append(out, fmt.Sprintf("served store count %d", rc.GetStoreCount()))
	for _, id := range []uint64{refStore, refExtraStore} {
		if s := rc.GetStore(id); s != nil {
			out = append(out, fmt.Sprintf("served store %d: %v capacity %d heartbeat %d", id, s.GetMeta(), s.GetStoreStats().GetCapacity(), s.GetLastHeartbeatTS().UnixNano()))
		} else {
			out = append(out, fmt.Sprintf("served store %d: absent", id))
		}
	}
	out = append(out, fmt.Sprintf("served cluster config %v", rc.GetConfig()))
	if reg := rc.GetRegion(refRegion); reg != nil {
		out = append(out, fmt.Sprintf("served region %d: epoch %v leader %v", refRegion, reg.GetRegionEpoch(), reg.GetLeader()))
	} else {
		out = append(out, "served region: absent")
	}
	out = append(out, fmt.Sprintf("served region count %d", rc.GetRegionCount()))
	hasOp := rc.GetOperatorController().GetOperator(refRegion) != nil
	sort.Strings(out)
	return out, hasOp, nil
}

// dump reads the cluster's persisted records (cluster meta, bootstrap time, stores, regions: the key
// <root>/raft and everything under <root>/raft/) through the harness' own etcd client, values included.
func (r *refRun) dump() ([]string, *metapb.Cluster, error) {
	root := path.Join(r.f.svr.GetServerRootPath(), "raft")
	ctx, cancel := r.f.ctx()
	defer cancel()
	resp, err := r.f.own.Txn(ctx).Then(clientv3.OpGet(root), clientv3.OpGet(root+"/", clientv3.WithPrefix())).Commit()
	if err != nil {
		return nil, nil, err
	}
	var out []string
	var meta *metapb.Cluster
	for _, rr := range resp.Responses {
		for _, kvp := range rr.GetResponseRange().Kvs {
			out = append(out, fmt.Sprintf("persisted %s = %x (rev %d/%d)", kvp.Key, kvp.Value, kvp.CreateRevision, kvp.ModRevision))
			if string(kvp.Key) == root {
				meta = &metapb.Cluster{}
				if err := meta.Unmarshal(kvp.Value); err != nil {
					return nil, nil, fmt.Errorf("persisted cluster meta does not parse: %v", err)
				}
			}
		}
	}
	sort.Strings(out)
	return out, meta, nil
}

// identity: what is persisted and what is served is the identity fixed at bootstrap (+ accepted config).
func (r *refRun) identity(when string) error {
	_, stored, err := r.dump()
	if err != nil {
		return errInconclusive
	}
	if stored == nil || !proto.Equal(stored, r.meta) {
		return fmt.Errorf("%s: the persisted cluster meta is %v, the cluster's identity is %v", when, stored, r.meta)
	}
	ctx, cancel := context.WithTimeout(context.Background(), 15*time.Second)
	defer cancel()
	h := &pdpb.RequestHeader{ClusterId: r.cid}
	cfg, err := r.cli.GetClusterConfig(ctx, &pdpb.GetClusterConfigRequest{Header: h})
	if isEnv(err) {
		return errInconclusive
	}
	if err != nil || cfg.GetHeader().GetError() != nil || cfg.GetHeader().GetClusterId() != r.cid || !proto.Equal(cfg.GetCluster(), r.meta) {
		return fmt.Errorf("%s: GetClusterConfig serves %v (header %v, error %v), the cluster's identity is %v", when, cfg.GetCluster(), cfg.GetHeader(), err, r.meta)
	}
	isb, err := r.cli.IsBootstrapped(ctx, &pdpb.IsBootstrappedRequest{Header: h})
	if isEnv(err) {
		return errInconclusive
	}
	if err != nil || !isb.GetBootstrapped() || isb.GetHeader().GetClusterId() != r.cid {
		return fmt.Errorf("%s: IsBootstrapped answers %v (error %v), want bootstrapped with cluster id %d", when, isb, err, r.cid)
	}
	mem, err := r.cli.GetMembers(ctx, &pdpb.GetMembersRequest{Header: h})
	if isEnv(err) {
		return errInconclusive
	}
	if err != nil || mem.GetHeader().GetClusterId() != r.cid {
		return fmt.Errorf("%s: GetMembers answers with header %v (error %v), want cluster id %d", when, mem.GetHeader(), err, r.cid)
	}
	return nil
}

// reelect: the leader steps down and is re-elected (the raft cluster is stopped and started again
// from what is persisted); the new term must serve the identity fixed at bootstrap.
func (r *refRun) reelect(what string) error {
	r.closeStreams()
	svr := r.f.svr
	svr.GetMember().ResetLeader()
	deadline := time.Now().Add(40 * time.Second)
	for !(svr.GetMember().IsLeader() && svr.GetRaftCluster() != nil) {
		if time.Now().After(deadline) {
			return errInconclusive
		}
		time.Sleep(2 * time.Millisecond)
	}
	if svr.ClusterID() != r.cid {
		return fmt.Errorf("%s: the server's cluster id changed from %d to %d", what, r.cid, svr.ClusterID())
	}
	return r.identity(what + ", new leader term")
}

func diff(a, b []string) string {
	in := map[string]bool{}
	for _, x := range a {
		in[x] = true
	}
	var d []string
	for _, x := range b {
		if !in[x] {
			d = append(d, "now: "+x)
		}
		delete(in, x)
	}
	for _, x := range a {
		if in[x] {
			d = append(d, "was: "+x)
		}
	}
	sort.Strings(d)
	return strings.Join(d, "; ")
}

func (r *refRun) allocProbe() (uint64, error) {
	ctx, cancel := context.WithTimeout(context.Background(), 15*time.Second)
	defer cancel()
	resp, err := r.cli.AllocID(ctx, &pdpb.AllocIDRequest{Header: &pdpb.RequestHeader{ClusterId: r.cid}})
	if err != nil {
		return 0, err
	}
	return resp.GetId(), nil
}

// ---------------------------------------------------------------- steps

func (r *refRun) region(version uint64) *metapb.Region {
	return &metapb.Region{Id: refRegion, RegionEpoch: &metapb.RegionEpoch{ConfVer: 1, Version: version},
		Peers: []*metapb.Peer{{Id: refPeer, StoreId: refStore}}}
}

func (r *refRun) unary(st RStep, what string) error {
	h, right := r.header(st)
	if internalRPCs[st.RPC] {
		// as a PD member would send it: with the leader's member id as sender
		if h == nil {
			h = &pdpb.RequestHeader{}
		}
		h.SenderId = r.f.svr.GetMember().ID()
	}
	r.seq++
	r.refused, r.putCfg = false, nil
	ctx, cancel := context.WithTimeout(context.Background(), 15*time.Second)
	defer cancel()
	var err error
	var rh *pdpb.ResponseHeader
	ctx0 := ctx
	c, ctx := r.route(st.Via, ctx)
	switch st.RPC {
	case "Bootstrap":
		var resp *pdpb.BootstrapResponse
		resp, err = c.Bootstrap(ctx, &pdpb.BootstrapRequest{Header: h,
			Store:  &metapb.Store{Id: 100, Address: "tikv-other:20160", Version: "5.0.0"},
			Region: &metapb.Region{Id: 101, RegionEpoch: &metapb.RegionEpoch{ConfVer: 1, Version: 1}, Peers: []*metapb.Peer{{Id: 102, StoreId: 100}}}})
		rh = resp.GetHeader()
	case "IsBootstrapped":
		var resp *pdpb.IsBootstrappedResponse
		resp, err = c.IsBootstrapped(ctx, &pdpb.IsBootstrappedRequest{Header: h})
		rh = resp.GetHeader()
	case "AllocID":
		var resp *pdpb.AllocIDResponse
		resp, err = c.AllocID(ctx, &pdpb.AllocIDRequest{Header: h})
		rh = resp.GetHeader()
	case "GetStore":
		var resp *pdpb.GetStoreResponse
		resp, err = c.GetStore(ctx, &pdpb.GetStoreRequest{Header: h, StoreId: refStore})
		rh = resp.GetHeader()
	case "PutStore":
		addr := fmt.Sprintf("tikv-extra-%d:20160", r.seq%3)
		if !right {
			addr = fmt.Sprintf("tikv-of-another-cluster-%d:20160", r.seq)
		}
		var resp *pdpb.PutStoreResponse
		resp, err = c.PutStore(ctx, &pdpb.PutStoreRequest{Header: h, Store: &metapb.Store{Id: refExtraStore, Address: addr, Version: "5.0.0"}})
		rh = resp.GetHeader()
	case "GetAllStores":
		var resp *pdpb.GetAllStoresResponse
		resp, err = c.GetAllStores(ctx, &pdpb.GetAllStoresRequest{Header: h})
		rh = resp.GetHeader()
	case "StoreHeartbeat":
		capa := uint64(1000 + r.seq)
		if !right {
			capa = uint64(777000 + r.seq)
		}
		var resp *pdpb.StoreHeartbeatResponse
		resp, err = c.StoreHeartbeat(ctx, &pdpb.StoreHeartbeatRequest{Header: h, Stats: &pdpb.StoreStats{StoreId: refStore, Capacity: capa, Available: capa / 2, RegionCount: 1}})
		rh = resp.GetHeader()
	case "GetRegion":
		var resp *pdpb.GetRegionResponse
		resp, err = c.GetRegion(ctx, &pdpb.GetRegionRequest{Header: h, RegionKey: []byte("a")})
		rh = resp.GetHeader()
	case "GetPrevRegion":
		var resp *pdpb.GetRegionResponse
		resp, err = c.GetPrevRegion(ctx, &pdpb.GetRegionRequest{Header: h, RegionKey: []byte("a")})
		rh = resp.GetHeader()
	case "GetRegionByID":
		var resp *pdpb.GetRegionResponse
		resp, err = c.GetRegionByID(ctx, &pdpb.GetRegionByIDRequest{Header: h, RegionId: refRegion})
		rh = resp.GetHeader()
	case "ScanRegions":
		var resp *pdpb.ScanRegionsResponse
		resp, err = c.ScanRegions(ctx, &pdpb.ScanRegionsRequest{Header: h, Limit: 10})
		rh = resp.GetHeader()
	case "AskSplit":
		var resp *pdpb.AskSplitResponse
		resp, err = c.AskSplit(ctx, &pdpb.AskSplitRequest{Header: h, Region: r.region(r.version)})
		rh = resp.GetHeader()
	case "AskBatchSplit":
		var resp *pdpb.AskBatchSplitResponse
		resp, err = c.AskBatchSplit(ctx, &pdpb.AskBatchSplitRequest{Header: h, Region: r.region(r.version), SplitCount: 2})
		rh = resp.GetHeader()
	case "ReportSplit":
		left, rightR := r.region(r.version), r.region(r.version)
		left.Id, left.EndKey, rightR.StartKey = 500, []byte("m"), []byte("m")
		var resp *pdpb.ReportSplitResponse
		resp, err = c.ReportSplit(ctx, &pdpb.ReportSplitRequest{Header: h, Left: left, Right: rightR})
		rh = resp.GetHeader()
	case "ReportBatchSplit":
		left, rightR := r.region(r.version), r.region(r.version)
		left.Id, left.EndKey, rightR.StartKey = 500, []byte("m"), []byte("m")
		var resp *pdpb.ReportBatchSplitResponse
		resp, err = c.ReportBatchSplit(ctx, &pdpb.ReportBatchSplitRequest{Header: h, Regions: []*metapb.Region{left, rightR}})
		rh = resp.GetHeader()
	case "GetClusterConfig":
		var resp *pdpb.GetClusterConfigResponse
		resp, err = c.GetClusterConfig(ctx, &pdpb.GetClusterConfigRequest{Header: h})
		rh = resp.GetHeader()
	case "PutClusterConfig":
		mpc := uint32(3 + r.seq%5)
		if !right || st.P != 0 {
			mpc = uint32(90 + r.seq%9)
		}
		var cl *metapb.Cluster
		switch st.P {
		case 0:
			cl = &metapb.Cluster{Id: r.cid, MaxPeerCount: mpc}
		case 1:
			cl = &metapb.Cluster{Id: r.cid ^ 0x2a2a, MaxPeerCount: mpc}
		case 2:
			cl = &metapb.Cluster{Id: 0, MaxPeerCount: mpc}
		}
		var resp *pdpb.PutClusterConfigResponse
		resp, err = c.PutClusterConfig(ctx, &pdpb.PutClusterConfigRequest{Header: h, Cluster: cl})
		rh = resp.GetHeader()
		if right && !isEnv(err) {
			if st.P == 0 {
				if err != nil || rh.GetError() != nil {
					return fmt.Errorf("%s: a cluster config with the cluster's own id was not accepted: %v %v", what, err, rh.GetError())
				}
				r.putCfg = cl
			} else if err == nil && rh.GetError() == nil {
				return fmt.Errorf("%s: the payload carries cluster id %d (server has %d) and was accepted", what, cl.GetId(), r.cid)
			}
		}
	case "ScatterRegion":
		var resp *pdpb.ScatterRegionResponse
		resp, err = c.ScatterRegion(ctx, &pdpb.ScatterRegionRequest{Header: h, RegionId: refRegion})
		rh = resp.GetHeader()
	case "GetGCSafePoint":
		var resp *pdpb.GetGCSafePointResponse
		resp, err = c.GetGCSafePoint(ctx, &pdpb.GetGCSafePointRequest{Header: h})
		rh = resp.GetHeader()
		if err == nil && right && resp.GetSafePoint() > r.gcSafe {
			r.gcSafe = resp.GetSafePoint()
		}
	case "UpdateGCSafePoint":
		sp := r.gcSafe + 1
		if !right {
			sp = r.gcSafe + 1000000
		}
		var resp *pdpb.UpdateGCSafePointResponse
		resp, err = c.UpdateGCSafePoint(ctx, &pdpb.UpdateGCSafePointRequest{Header: h, SafePoint: sp})
		rh = resp.GetHeader()
		if err == nil && right && resp.GetNewSafePoint() > r.gcSafe {
			r.gcSafe = resp.GetNewSafePoint()
		}
	case "UpdateServiceGCSafePoint":
		svc := "verif"
		if !right {
			svc = fmt.Sprintf("of-another-cluster-%d", r.seq)
		}
		var resp *pdpb.UpdateServiceGCSafePointResponse
		resp, err = c.UpdateServiceGCSafePoint(ctx, &pdpb.UpdateServiceGCSafePointRequest{Header: h, ServiceId: []byte(svc), TTL: 3600, SafePoint: r.gcSafe + uint64(r.seq)})
		rh = resp.GetHeader()
	case "GetOperator":
		var resp *pdpb.GetOperatorResponse
		resp, err = c.GetOperator(ctx, &pdpb.GetOperatorRequest{Header: h, RegionId: refRegion})
		rh = resp.GetHeader()
	case "SplitRegions":
		var resp *pdpb.SplitRegionsResponse
		resp, err = c.SplitRegions(ctx, &pdpb.SplitRegionsRequest{Header: h})
		rh = resp.GetHeader()
	case "SyncMaxTS":
		var resp *pdpb.SyncMaxTSResponse
		resp, err = r.cli.SyncMaxTS(ctx0, &pdpb.SyncMaxTSRequest{Header: h, SkipCheck: true, MaxTs: &pdpb.Timestamp{Physical: 1, Logical: 1}})
		rh = resp.GetHeader()
	case "GetDCLocationInfo":
		var resp *pdpb.GetDCLocationInfoResponse
		resp, err = r.cli.GetDCLocationInfo(ctx0, &pdpb.GetDCLocationInfoRequest{Header: h, DcLocation: "dc-1"})
		rh = resp.GetHeader()
	case "GetMembers":
		// the documented exception: answers whatever cluster id the caller believes in
		resp, e := c.GetMembers(ctx, &pdpb.GetMembersRequest{Header: h})
		if isEnv(e) {
			return errInconclusive
		}
		if e != nil || resp.GetHeader().GetClusterId() != r.cid {
			return fmt.Errorf("%s: GetMembers must answer with the server's cluster id %d whatever id it is given; got header %v, error %v", what, r.cid, resp.GetHeader(), e)
		}
		return nil
	default:
		return fmt.Errorf("unknown rpc %q", st.RPC)
	}
	if right && isEnv(err) {
		return errInconclusive
	}
	if internalRPCs[st.RPC] && !right && !isMismatch(err) && !isEnv(err) && vkit.Known(knownInternalForeignID) {
		// known finding: validateInternalRequest does not look at the cluster id at all
		r.info.Exclude(knownInternalForeignID)
		r.refused = err != nil || rh.GetError() != nil
		return nil
	}
	r.refused = err != nil || rh.GetError() != nil
	if right && err == nil && rh.GetClusterId() != r.cid {
		return fmt.Errorf("%s: response header carries cluster id %d, server has %d", what, rh.GetClusterId(), r.cid)
	}
	return r.judge(what, right, err, err == nil)
}

func (r *refRun) tso(st RStep, what string) error {
	h, right := r.header(st)
	s, fresh, err := r.stream("tso", st.S, st.Via)
	if err != nil {
		return errInconclusive
	}
	r.info.ClassIf(!right && !fresh && s.served > 0, "tso-wrong-id-after-served-requests")
	r.info.ClassIf(!right && s.served == 0, "tso-wrong-id-first-on-stream")
	if err := s.send(&pdpb.TsoRequest{Header: h, Count: uint32(st.N), DcLocation: "global"}); err != nil {
		return errInconclusive
	}
	it, ok := s.next(false, 15*time.Second)
	if !ok {
		return errInconclusive
	}
	if it.err != nil {
		s.dead = true
	}
	if right {
		if it.err != nil {
			if isMismatch(it.err) {
				return r.judge(what, true, it.err, false)
			}
			return errInconclusive
		}
		resp := it.msg.(*pdpb.TsoResponse)
		if resp.GetHeader().GetClusterId() != r.cid || resp.GetTimestamp() == nil || resp.GetCount() != uint32(st.N) {
			return fmt.Errorf("%s: malformed answer %v", what, resp)
		}
		s.served++
		return nil
	}
	if it.err == nil {
		return fmt.Errorf("%s carries a different cluster id (server has %d) and was served a timestamp: %v (right-id requests served before on this stream: %d)", what, r.cid, it.msg, s.served)
	}
	return r.judge(what, false, it.err, false)
}

func (r *refRun) servedVersion() uint64 {
	rc := r.f.svr.GetRaftCluster()
	if rc == nil {
		return 0
	}
	if reg := rc.GetRegion(refRegion); reg != nil {
		return reg.GetRegionEpoch().GetVersion()
	}
	return 0
}

func (r *refRun) heartbeat(st RStep, what string) error {
	h, right := r.header(st)
	s, fresh, err := r.stream("hb", st.S, st.Via)
	if err != nil {
		return errInconclusive
	}
	if r.info != nil {
		r.info.ClassIf(!right && !fresh && s.served > 0, "hb-wrong-id-after-served-requests")
	}
	v := r.version + 1
	if !right {
		v = r.version + 100000
	}
	req := &pdpb.RegionHeartbeatRequest{Header: h, Region: r.region(v), Leader: &metapb.Peer{Id: refPeer, StoreId: refStore},
		ApproximateSize: 10 + v%50, ApproximateKeys: 1000}
	if err := s.send(req); err != nil {
		return errInconclusive
	}
	if right {
		deadline := time.Now().Add(15 * time.Second)
		for r.servedVersion() != v {
			select {
			case it := <-s.ch:
				if it.err != nil {
					s.dead = true
					if isMismatch(it.err) {
						return r.judge(what, true, it.err, false)
					}
					return errInconclusive
				}
			default:
			}
			if time.Now().After(deadline) {
				return errInconclusive
			}
			time.Sleep(500 * time.Microsecond)
		}
		r.version = v
		s.served++
		return nil
	}
	if st.Via == 1 && r.fcli != nil {
		return r.forwardedWrongHeartbeat(s, req, v, what)
	}
	// half-close: a handler that did not refuse the request goes on, reads EOF and ends the stream
	// cleanly; a handler that refused it ends the stream with the refusal. No timing involved.
	s.done()
	it, ok := s.next(true, 30*time.Second)
	if !ok {
		return errInconclusive
	}
	s.dead = true
	if it.err == io.EOF {
		return fmt.Errorf("%s carries a different cluster id (server has %d) and was not refused (the stream ended cleanly; served region version %d, was %d)", what, r.cid, r.servedVersion(), r.version)
	}
	if sv := r.servedVersion(); sv != r.version {
		return fmt.Errorf("%s carries a different cluster id (server has %d) but changed the served region's version from %d to %d (stream error: %v)", what, r.cid, r.version, sv, it.err)
	}
	return r.judge(what, false, it.err, false)
}

// forwardedWrongHeartbeat: on the forwarded route the follower relays requests to the leader on a
// second stream and learns about the leader's refusal asynchronously; it hands it to the caller
// when it handles the caller's NEXT request (RegionHeartbeat's forwarding branch polls its error
// channel once per request). The same wrong-id heartbeat is therefore repeated until the refusal
// comes back. What decides is the leader's state: a heartbeat that was applied shows in the
// served region at once.
func (r *refRun) forwardedWrongHeartbeat(s *rstream, req *pdpb.RegionHeartbeatRequest, v uint64, what string) error {
	deadline := time.Now().Add(20 * time.Second)
	for {
		it, got := s.next(true, 10*time.Millisecond)
		if sv := r.servedVersion(); sv != r.version {
			s.dead = true
			return fmt.Errorf("%s carries a different cluster id (server has %d) but was applied by the leader: the served region went from version %d to %d", what, r.cid, r.version, sv)
		}
		if got {
			s.dead = true
			if it.err == io.EOF {
				return fmt.Errorf("%s carries a different cluster id (server has %d) and the stream ended cleanly", what, r.cid)
			}
			return r.judgeForwardedHeartbeat(what, it.err)
		}
		if time.Now().After(deadline) {
			s.dead = true
			return errInconclusive
		}
		if err := s.send(req); err != nil {
			// the follower has already ended the stream: the error is on its way
			if it, got := s.next(true, 5*time.Second); got {
				s.dead = true
				if sv := r.servedVersion(); sv != r.version {
					return fmt.Errorf("%s carries a different cluster id (server has %d) but was applied by the leader: the served region went from version %d to %d", what, r.cid, r.version, sv)
				}
				return r.judgeForwardedHeartbeat(what, it.err)
			}
			s.dead = true
			return errInconclusive
		}
	}
}

// judgeForwardedHeartbeat: how the leader's refusal of a proxied heartbeat reaches the caller depends
// on where the follower notices it: from its receiving goroutine (the leader's status, wrapped:
// Unknown "... code = FailedPrecondition desc = mismatch cluster id ...") or from its next Send on the
// stream the leader has already ended (gRPC reports io.EOF for that; the follower returns it wrapped:
// Unknown "EOF"). Both are the refusal; the leader's unchanged state is checked by the caller.
func (r *refRun) judgeForwardedHeartbeat(what string, err error) error {
	if err != nil && status.Code(err) == codes.Unknown && strings.HasSuffix(err.Error(), "desc = EOF") {
		r.info.Class("forwarded-hb-refusal-seen-as-EOF")
		return nil
	}
	return r.judge(what, false, err, false)
}

func (r *refRun) sync(st RStep, what string) error {
	h, right := r.header(st)
	s, fresh, err := r.stream("sync", st.S, st.Via)
	if err != nil {
		return errInconclusive
	}
	r.info.ClassIf(!right && !fresh && s.served > 0, "sync-wrong-id-after-served-requests")
	req := &pdpb.SyncRegionRequest{Header: h, StartIndex: 0,
		Member: &pdpb.Member{Name: fmt.Sprintf("verif-follower-%d", st.S), MemberId: uint64(7000 + st.S), ClientUrls: []string{"http://127.0.0.1:9"}}}
	if err := s.send(req); err != nil {
		return errInconclusive
	}
	if right && st.Via == 1 && r.fcli != nil {
		// SyncRegions is not forwarded: the follower's own region syncer answers (it checks the same
		// cluster id) and may have nothing to send. Only a refusal would be wrong.
		if it, got := s.next(true, 50*time.Millisecond); got {
			s.dead = true
			if isMismatch(it.err) {
				return r.judge(what, true, it.err, false)
			}
			return nil
		}
		s.served++
		return nil
	}
	if !right {
		s.done() // see heartbeat: EOF after the request tells "served" from "refused" without timing
	}
	it, ok := s.next(!right, 30*time.Second)
	if !ok {
		return errInconclusive
	}
	if it.err != nil {
		s.dead = true
	}
	if right {
		if it.err != nil {
			if isMismatch(it.err) {
				return r.judge(what, true, it.err, false)
			}
			return errInconclusive
		}
		s.served++
		return nil
	}
	if it.err == io.EOF {
		return fmt.Errorf("%s carries a different cluster id (server has %d) and was not refused (the stream ended cleanly; right-id requests served before on this stream: %d)", what, r.cid, s.served)
	}
	return r.judge(what, false, it.err, false)
}

// ---------------------------------------------------------------- the property

func runRefusal(c RefCase) (vkit.Info, error) {
	var info vkit.Info
	f, err := getLive()
	if err != nil {
		fmt.Printf("c20: live server unavailable (inconclusive): %v\n", err)
		info.Inconclusive = true
		return info, nil
	}
	if err := f.prepareRefusal(); err != nil {
		fmt.Printf("c20: refusal fixture not ready (inconclusive, server will be restarted): %v\n", err)
		f.broken = true
		info.Inconclusive = true
		return info, nil
	}
	f.cases++
	r := &refRun{f: f, cli: pdpb.NewPDClient(f.conn), cid: f.svr.ClusterID(), streams: map[string]*rstream{}, info: &info}
	err = runProgram(f, r, c, &info)
	return info, err
}

// runProgram executes a request program on a bootstrapped fixture (1-member: property refusal;
// leader of the 2-member cluster: property forwarded).
func runProgram(f *liveFix, r *refRun, c RefCase, info *vkit.Info) error {
	r.info = info
	defer r.closeStreams()
	r.version = r.servedVersion()
	r.meta = f.refMeta
	if sp, err := f.svr.GetStorage().LoadGCSafePoint(); err == nil {
		r.gcSafe = sp
	}
	nRight, nWrong := 0, 0
	for i, st := range c.Steps {
		_, right := r.header(st)
		what := fmt.Sprintf("step %d: %s", i, describeStep(st))
		var verr error
		var before []string
		var hadOp bool
		var probe uint64
		if st.K == "reelect" {
			verr = r.reelect(what)
			info.Class("reelect")
			if verr == errInconclusive {
				f.broken = true
				info.Inconclusive = true
				return nil
			}
			if verr != nil {
				f.refReady = false
				return verr
			}
			continue
		}
		persisted, _, err := r.dump()
		if err != nil {
			f.broken = true
			info.Inconclusive = true
			return nil
		}
		if !right {
			nWrong++
			if st.K == "unary" && allocating[st.RPC] {
				if probe, err = r.allocProbe(); err != nil {
					verr = errInconclusive
				}
			}
			if verr == nil {
				if before, hadOp, err = r.observe(); err != nil {
					verr = errInconclusive
				}
			}
		} else {
			nRight++
		}
		if verr == nil {
			switch st.K {
			case "unary":
				verr = r.unary(st, what)
				info.Class(fmt.Sprintf("unary-%s-%s", st.RPC, idClass(right)))
			case "tso":
				verr = r.tso(st, what)
				info.Class("tso-" + idClass(right))
			case "hb":
				verr = r.heartbeat(st, what)
				info.Class("hb-" + idClass(right))
			case "sync":
				verr = r.sync(st, what)
				info.Class("sync-" + idClass(right))
			}
		}
		// whatever the reason of a refusal (cluster id in the header, cluster id in the payload,
		// anything else): a refused request changes nothing that is persisted about the cluster
		if verr == nil && (!right || (st.K == "unary" && r.refused)) {
			after, _, err := r.dump()
			if err != nil {
				verr = errInconclusive
			} else if d := diff(persisted, after); d != "" {
				verr = fmt.Errorf("%s was refused but changed what is persisted about the cluster: %s", what, d)
			}
			info.ClassIf(right, "refused-for-another-reason-"+st.RPC)
		}
		if verr == nil && st.K == "unary" && r.putCfg != nil {
			// accepted cluster config: stored == served == request
			r.meta = r.putCfg
			f.refMeta = r.putCfg
			verr = r.identity(what + " (accepted)")
			info.Class("cluster-config-accepted")
		}
		if verr == nil && !right {
			after, hasOp, err := r.observe()
			if err != nil {
				verr = errInconclusive
			} else if d := diff(before, after); d != "" {
				verr = fmt.Errorf("%s carries a different cluster id (server has %d) but changed the cluster: %s", what, r.cid, d)
			} else if hasOp && !hadOp {
				verr = fmt.Errorf("%s carries a different cluster id (server has %d) but created an operator", what, r.cid)
			}
			if verr == nil && st.K == "unary" && allocating[st.RPC] {
				p2, err := r.allocProbe()
				if err != nil {
					verr = errInconclusive
				} else if p2 != probe+1 {
					verr = fmt.Errorf("%s carries a different cluster id (server has %d) but consumed ids: AllocID gave %d before and %d after it", what, r.cid, probe, p2)
				}
			}
		}
		if verr == errInconclusive {
			f.broken = true
			info.Inconclusive = true
			return nil
		}
		if verr != nil {
			f.refReady = false // next case starts from a freshly bootstrapped cluster
			return verr
		}
	}
	if verr := r.identity("end of the program"); verr != nil {
		if verr == errInconclusive {
			f.broken = true
			info.Inconclusive = true
			return nil
		}
		f.refReady = false
		return verr
	}
	info.NonTrivial = nRight > 0 && nWrong > 0
	return nil
}

func idClass(right bool) string {
	if right {
		return "right-id"
	}
	return "wrong-id"
}

func describeStep(st RStep) string {
	id := []string{"right id", "id+1", "id 0", fmt.Sprintf("random id %d", st.Rnd), "no header"}[st.ID]
	switch st.K {
	case "reelect":
		return "leader step-down and re-election"
	case "unary":
		if st.RPC == "PutClusterConfig" {
			return fmt.Sprintf("PutClusterConfig with %s in the payload (header: %s)", []string{"the cluster's own id", "a foreign cluster id", "cluster id 0", "no cluster"}[st.P], id)
		}
		return fmt.Sprintf("%s (%s)", st.RPC, id)
	case "tso":
		return fmt.Sprintf("Tso request, count %d, on stream %d (%s)", st.N, st.S, id)
	case "hb":
		return fmt.Sprintf("RegionHeartbeat on stream %d (%s)", st.S, id)
	default:
		return fmt.Sprintf("SyncRegions request on stream %d (%s)", st.S, id)
	}
}
