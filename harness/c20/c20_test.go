// C20 — a cluster is bootstrapped exactly once and keeps one identity.
//
// Two generated properties:
//
//	clusterid  (this file)        members racing through server.initOrGetClusterID on one
//	                              fresh etcd key (embedded etcd of the process, one hooked
//	                              client per member): gate-scheduled and free-running races,
//	                              injected fail-before / lost-ack faults, retries, later calls.
//	bootstrap  (bootstrap_test.go) concurrent / repeated pdpb Bootstrap requests (well-formed,
//	                              malformed, wrong cluster id) against a live 1-member PD.
package c20

import (
	"encoding/binary"
	"fmt"
	"strings"
	"sync"
	"testing"
	"time"

	"github.com/tikv/pd/server"
	"go.etcd.io/etcd/clientv3"
	"pdverif/vkit"
	"pdverif/vkit/etcdfix"
	"pdverif/vkit/gate"
	"pgregory.net/rapid"
)

func TestMain(m *testing.M) {
	vkit.Quiet()
	vkit.MainWith(m, "C20", func() {
		shutdownFwd()
		shutdownLive()
		closeSharedEtcd()
	})
}
func TestProp(t *testing.T)   { vkit.RunAll(t) }
func TestReplay(t *testing.T) { vkit.RunReplay(t) }

func init() {
	vkit.Register("clusterid", vkit.N{Quick: 3200, Thorough: 100000}, genID, runID)
	vkit.Register("bootstrap", bootstrapN, genBoot, runBoot)
}

// ---------------------------------------------------------------- case data

const maxMembers = 8

// Call is one member calling initOrGetClusterID (with an optional injected fault on
// its etcd txn and an optional retry after a failed attempt, as a restarted member would).
type Call struct {
	Slot  int    `json:"slot"`            // which member (hooked client) calls
	Fail  string `json:"fail,omitempty"`  // "", before (not sent), lostack (applied, error returned)
	Retry bool   `json:"retry,omitempty"` // call again (no fault) if the first attempt failed
}

// Step is either one sequential call or a race of 2..8 members.
type Step struct {
	K     string `json:"k"` // call | race | pre
	Call  Call   `json:"call,omitempty"`
	Calls []Call `json:"calls,omitempty"` // race: distinct slots
	Mode  string `json:"mode,omitempty"`  // race: gate (harness-owned commit order) | free (real concurrency)
	Sched []int  `json:"sched,omitempty"`
	Val   uint64 `json:"val,omitempty"` // pre: a cluster id stored by an earlier incarnation of the cluster
}

type IDCase struct {
	Steps []Step `json:"steps"`
}

func genCall(t *rapid.T, slot int) Call {
	c := Call{Slot: slot}
	switch rapid.IntRange(0, 9).Draw(t, "fault") {
	case 0:
		c.Fail = "before"
	case 1, 2:
		c.Fail = "lostack"
	}
	if c.Fail != "" {
		c.Retry = rapid.IntRange(0, 2).Draw(t, "retry") != 0
	}
	return c
}

func genRace(t *rapid.T) Step {
	n := rapid.IntRange(2, maxMembers).Draw(t, "members")
	slots := rapid.Permutation([]int{0, 1, 2, 3, 4, 5, 6, 7}).Draw(t, "slots")[:n]
	st := Step{K: "race", Mode: rapid.SampledFrom([]string{"gate", "gate", "free"}).Draw(t, "mode")}
	for _, s := range slots {
		st.Calls = append(st.Calls, genCall(t, s))
	}
	if st.Mode == "gate" {
		st.Sched = rapid.SliceOfN(rapid.IntRange(0, maxMembers-1), 0, 2*n).Draw(t, "sched")
	}
	return st
}

func genID(t *rapid.T) IDCase {
	var c IDCase
	// what happened before the race: nothing (the usual first start), an id left by an earlier
	// incarnation, or a few sequential calls (possibly faulted)
	switch rapid.IntRange(0, 9).Draw(t, "before") {
	case 0:
		c.Steps = append(c.Steps, Step{K: "pre", Val: rapid.Uint64Range(1, 1<<63).Draw(t, "preval")})
	case 1, 2:
		k := rapid.IntRange(1, 2).Draw(t, "nbefore")
		for i := 0; i < k; i++ {
			c.Steps = append(c.Steps, Step{K: "call", Call: genCall(t, rapid.IntRange(0, maxMembers-1).Draw(t, "slot"))})
		}
	}
	c.Steps = append(c.Steps, genRace(t))
	n := rapid.IntRange(0, 4).Draw(t, "nlater")
	for i := 0; i < n; i++ {
		if rapid.IntRange(0, 4).Draw(t, "laterRace") == 0 {
			c.Steps = append(c.Steps, genRace(t))
		} else {
			c.Steps = append(c.Steps, Step{K: "call", Call: genCall(t, rapid.IntRange(0, maxMembers-1).Draw(t, "slot"))})
		}
	}
	return c
}

// ---------------------------------------------------------------- fixture (per process)

type slot struct {
	hooks  *etcdfix.Hooks
	client *clientv3.Client
}

var (
	slotsOnce sync.Once
	slots     []*slot
	slotsErr  error
)

func getSlots() ([]*slot, *etcdfix.Fixture, error) {
	f, err := etcdfix.Get()
	if err != nil {
		return nil, nil, err
	}
	slotsOnce.Do(func() {
		for i := 0; i < maxMembers; i++ {
			h := &etcdfix.Hooks{}
			c, err := f.NewClient(h)
			if err != nil {
				slotsErr = err
				return
			}
			slots = append(slots, &slot{hooks: h, client: c})
		}
	})
	return slots, f, slotsErr
}

// idWorld is the harness' view of one case: what the hooked clients did to the key.
type idWorld struct {
	mu       sync.Mutex
	key      string
	sched    *gate.Sched
	failNext [maxMembers]string
	sent     int      // txns that reached etcd
	writes   []string // values put on the key by applied txns, in commit-report order
	writers  []int
	foreign  []string // puts on other keys (must not happen)
}

func (w *idWorld) install(sl []*slot) {
	for si := range sl {
		si := si
		sl[si].hooks.Set(func(ev *etcdfix.Event) etcdfix.Action {
			if sc := w.sched; sc != nil {
				if err := sc.Enter(ev.Method, fmt.Sprint(si)); err != nil {
					return etcdfix.FailBefore
				}
			}
			if ev.Method != "Txn" {
				return etcdfix.Proceed
			}
			w.mu.Lock()
			fk := w.failNext[si]
			w.failNext[si] = ""
			w.mu.Unlock()
			switch fk {
			case "before":
				return etcdfix.FailBefore
			case "lostack":
				return etcdfix.LostAck
			}
			return etcdfix.Proceed
		}, func(ev *etcdfix.Event) {
			if ev.Action == etcdfix.FailBefore {
				return
			}
			if ev.Err != nil && !(ev.Action == etcdfix.LostAck && ev.Resp != nil) {
				return // transport error: nothing known
			}
			w.mu.Lock()
			defer w.mu.Unlock()
			w.sent++
			if !ev.Applied {
				return
			}
			for k, v := range ev.Puts {
				if k == w.key {
					w.writes = append(w.writes, v)
					w.writers = append(w.writers, si)
				} else {
					w.foreign = append(w.foreign, k)
				}
			}
		})
	}
}

// envError: an error that speaks about the environment (timeouts under load), not about the property.
func envError(s string) bool {
	for _, m := range []string{"deadline exceeded", "context canceled", "request timed out", "Unavailable", "unavailable", "too many requests", "connection"} {
		if strings.Contains(s, m) {
			return true
		}
	}
	return false
}

type idResult struct {
	slot     int
	attempts int
	val      uint64
	ok       bool
	errs     []string
	faulted  []bool // per attempt: a fault was injected by the harness
}

// oneCall runs a member's call (and its retry); executed on the member's task goroutine.
func (w *idWorld) oneCall(sl []*slot, c Call) idResult {
	r := idResult{slot: c.Slot}
	for attempt := 0; attempt < 2; attempt++ {
		fk := ""
		if attempt == 0 {
			fk = c.Fail
		}
		w.mu.Lock()
		w.failNext[c.Slot] = fk
		w.mu.Unlock()
		v, err := server.VerifInitOrGetClusterID(sl[c.Slot].client, w.key)
		r.attempts++
		r.faulted = append(r.faulted, fk != "")
		if err == nil {
			r.ok, r.val = true, v
			return r
		}
		r.errs = append(r.errs, err.Error())
		if !c.Retry {
			break
		}
	}
	return r
}

func runID(c IDCase) (vkit.Info, error) {
	var info vkit.Info
	sl, f, err := getSlots()
	if err != nil {
		info.Inconclusive = true
		return info, nil
	}
	root := f.Root()
	w := &idWorld{key: root + "/cluster_id"}
	w.install(sl)
	defer func() {
		for _, s := range sl {
			s.hooks.Set(nil, nil)
		}
		f.DeleteRaw(root, true)
	}()

	// the oracle's own record of the identity: set when the key is first seen, never allowed to change
	var (
		have      bool
		storedRaw string
		storedVal uint64
		storedRev int64
		preStored bool
	)
	nontrivial := false

	// check is evaluated after every step on a quiescent system.
	check := func(step int, results []idResult) error {
		raw, rev, _, ok := f.GetRaw(w.key)
		w.mu.Lock()
		sent, writes, writers, foreign := w.sent, append([]string(nil), w.writes...), append([]int(nil), w.writers...), w.foreign
		w.mu.Unlock()
		if len(foreign) > 0 {
			return fmt.Errorf("step %d: cluster-id initialisation wrote other keys: %v", step, foreign)
		}
		maxWrites := 1
		if preStored {
			maxWrites = 0
		}
		if len(writes) > maxWrites {
			vals := make([]string, len(writes))
			for i, v := range writes {
				vals[i] = fmt.Sprintf("member %d wrote %x", writers[i], v)
			}
			return fmt.Errorf("step %d: the cluster id key was written %d times (%s); it must be created once and never change", step, len(writes), strings.Join(vals, "; "))
		}
		if !ok {
			if have {
				return fmt.Errorf("step %d: the cluster id key disappeared (was %d)", step, storedVal)
			}
			if sent > 0 {
				return fmt.Errorf("step %d: %d create-if-absent txns reached etcd but no cluster id is stored", step, sent)
			}
		} else {
			if len(raw) != 8 {
				return fmt.Errorf("step %d: stored cluster id is %d bytes (%x), want 8", step, len(raw), raw)
			}
			if !have {
				have, storedRaw, storedVal, storedRev = true, raw, binary.BigEndian.Uint64([]byte(raw)), rev
			} else if raw != storedRaw || rev != storedRev {
				return fmt.Errorf("step %d: stored cluster id changed from %d (rev %d) to %d (rev %d)", step, storedVal, storedRev, binary.BigEndian.Uint64([]byte(raw)), rev)
			}
		}
		for _, r := range results {
			if r.ok {
				if !have {
					return fmt.Errorf("step %d: member %d got cluster id %d but nothing is stored", step, r.slot, r.val)
				}
				if r.val != storedVal {
					return fmt.Errorf("step %d: member %d got cluster id %d but the stored cluster id is %d", step, r.slot, r.val, storedVal)
				}
			}
			for a, e := range r.errs {
				if r.faulted[a] {
					continue
				}
				if envError(e) {
					return errInconclusive
				}
				return fmt.Errorf("step %d: member %d attempt %d failed without an injected fault: %s", step, r.slot, a, e)
			}
		}
		return nil
	}

	for step, st := range c.Steps {
		var results []idResult
		switch st.K {
		case "pre":
			if err := f.PutRaw(w.key, string(binary.BigEndian.AppendUint64(nil, st.Val))); err != nil {
				info.Inconclusive = true
				return info, nil
			}
			preStored = true
			info.Class("pre-existing-id")
		case "call":
			results = append(results, w.oneCall(sl, st.Call))
			info.Class("call")
			info.ClassIf(st.Call.Fail != "", "call-fault-"+st.Call.Fail)
		case "race":
			results = make([]idResult, len(st.Calls))
			wasStored := have
			w.mu.Lock()
			sentBefore := w.sent
			w.mu.Unlock()
			if st.Mode == "gate" {
				sc := gate.New()
				sc.Watchdog = 20 * time.Second
				w.sched = sc
				var wg sync.WaitGroup
				for i, cl := range st.Calls {
					i, cl := i, cl
					wg.Add(1)
					sc.Go(i+1, func() {
						defer wg.Done()
						results[i] = w.oneCall(sl, cl)
					})
				}
				ok := sc.Run(st.Sched, nil)
				sc.Disable()
				// never leave a member running into the next case (after a watchdog abort the
				// released calls still finish: each is bounded by its own request timeout)
				wg.Wait()
				w.sched = nil
				if !ok {
					info.Inconclusive = true
					return info, nil
				}
			} else {
				var wg sync.WaitGroup
				start := make(chan struct{})
				for i, cl := range st.Calls {
					i, cl := i, cl
					wg.Add(1)
					go func() {
						defer wg.Done()
						<-start
						results[i] = w.oneCall(sl, cl)
					}()
				}
				close(start)
				wg.Wait()
			}
			w.mu.Lock()
			sentNow := w.sent - sentBefore
			w.mu.Unlock()
			info.Class("race-" + st.Mode)
			info.Class(fmt.Sprintf("race-members-%d", len(st.Calls)))
			nLost, nBefore, nRetry := 0, 0, 0
			for i, cl := range st.Calls {
				switch cl.Fail {
				case "lostack":
					nLost++
				case "before":
					nBefore++
				}
				if results[i].attempts > 1 {
					nRetry++
				}
			}
			info.ClassIf(nLost > 0, "race-lostack")
			info.ClassIf(nBefore > 0, "race-failbefore")
			info.ClassIf(nRetry > 0, "race-retry")
			info.ClassIf(wasStored, "race-on-stored-id")
			if !wasStored && sentNow >= 2 {
				nontrivial = true
				info.Class("race-on-fresh-key")
			}
			// the creator lost its ack and retried: it must now read what it created
			w.mu.Lock()
			if !wasStored && len(w.writers) == 1 {
				for i, cl := range st.Calls {
					if cl.Slot == w.writers[0] && cl.Fail == "lostack" {
						if results[i].ok {
							info.Class("creator-lostack-retried")
						} else {
							info.Class("creator-lostack")
						}
					}
				}
			}
			w.mu.Unlock()
		}
		if err := check(step, results); err != nil {
			if err == errInconclusive {
				info.Inconclusive = true
				return info, nil
			}
			return info, fmt.Errorf("%v [step kind %s]", err, st.K)
		}
	}
	info.NonTrivial = nontrivial
	return info, nil
}

var errInconclusive = fmt.Errorf("inconclusive")
