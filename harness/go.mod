module pdverif

go 1.23

godebug default=go1.16

require (
	github.com/coreos/go-semver v0.3.0
	github.com/gogo/protobuf v1.3.1
	github.com/golang/protobuf v1.3.4
	github.com/pingcap/kvproto v0.0.0-20210604082642-dda0a102bc6a
	github.com/pingcap/log v0.0.0-20210317133921-96f4fcab92a4
	github.com/syndtr/goleveldb v1.0.1-0.20190318030020-c3a204f8e965
	github.com/tikv/pd v0.0.0
	go.etcd.io/etcd v0.5.0-alpha.5.0.20191023171146-3cf2f69b5738
	go.uber.org/zap v1.16.0
	google.golang.org/grpc v1.26.0
	pgregory.net/rapid v1.3.0
)

require (
	github.com/BurntSushi/toml v0.3.1 // indirect
	github.com/aws/aws-sdk-go v1.35.3 // indirect
	github.com/beorn7/perks v1.0.1 // indirect
	github.com/cakturk/go-netstat v0.0.0-20200220111822-e5b49efee7a5 // indirect
	github.com/cenkalti/backoff/v4 v4.0.2 // indirect
	github.com/coreos/go-systemd v0.0.0-20190321100706-95778dfbb74e // indirect
	github.com/coreos/pkg v0.0.0-20180928190104-399ea9e2e55f // indirect
	github.com/dgrijalva/jwt-go v3.2.0+incompatible // indirect
	github.com/docker/go-units v0.4.0 // indirect
	github.com/dustin/go-humanize v0.0.0-20171111073723-bb3d318650d4 // indirect
	github.com/golang/snappy v0.0.1 // indirect
	github.com/google/btree v1.0.0 // indirect
	github.com/google/uuid v1.0.0 // indirect
	github.com/gorilla/mux v1.7.4 // indirect
	github.com/gorilla/websocket v1.4.0 // indirect
	github.com/grpc-ecosystem/go-grpc-middleware v1.0.1-0.20190118093823-f849b5445de4 // indirect
	github.com/grpc-ecosystem/go-grpc-prometheus v1.2.0 // indirect
	github.com/grpc-ecosystem/grpc-gateway v1.12.1 // indirect
	github.com/jmespath/go-jmespath v0.4.0 // indirect
	github.com/jonboulle/clockwork v0.1.0 // indirect
	github.com/joomcode/errorx v1.0.1 // indirect
	github.com/json-iterator/go v1.1.7 // indirect
	github.com/juju/ratelimit v1.0.1 // indirect
	github.com/matttproud/golang_protobuf_extensions v1.0.1 // indirect
	github.com/modern-go/concurrent v0.0.0-20180306012644-bacd9c7ef1dd // indirect
	github.com/modern-go/reflect2 v1.0.1 // indirect
	github.com/montanaflynn/stats v0.5.0 // indirect
	github.com/opentracing/opentracing-go v1.1.0 // indirect
	github.com/phf/go-queue v0.0.0-20170504031614-9abe38d0371d // indirect
	github.com/pingcap/check v0.0.0-20200212061837-5e12011dc712 // indirect
	github.com/pingcap/errcode v0.3.0 // indirect
	github.com/pingcap/errors v0.11.5-0.20201126102027-b0a155152ca3 // indirect
	github.com/pingcap/failpoint v0.0.0-20200702092429-9f69995143ce // indirect
	github.com/pingcap/sysutil v0.0.0-20210315073920-cc0985d983a3 // indirect
	github.com/pingcap/tidb-dashboard v0.0.0-20210709093715-07fe6d3dedc9 // indirect
	github.com/prometheus/client_golang v1.1.0 // indirect
	github.com/prometheus/client_model v0.2.0 // indirect
	github.com/prometheus/common v0.6.0 // indirect
	github.com/prometheus/procfs v0.0.5 // indirect
	github.com/shirou/gopsutil v3.21.2+incompatible // indirect
	github.com/sirupsen/logrus v1.2.0 // indirect
	github.com/soheilhy/cmux v0.1.4 // indirect
	github.com/spf13/pflag v1.0.5 // indirect
	github.com/tklauser/go-sysconf v0.3.4 // indirect
	github.com/tklauser/numcpus v0.2.1 // indirect
	github.com/tmc/grpc-websocket-proxy v0.0.0-20190109142713-0ad062ec5ee5 // indirect
	github.com/unrolled/render v1.0.1 // indirect
	github.com/urfave/negroni v0.3.0 // indirect
	github.com/xiang90/probing v0.0.0-20190116061207-43a291ad63a2 // indirect
	go.etcd.io/bbolt v1.3.5 // indirect
	go.uber.org/atomic v1.6.0 // indirect
	go.uber.org/dig v1.8.0 // indirect
	go.uber.org/fx v1.10.0 // indirect
	go.uber.org/goleak v1.1.10 // indirect
	go.uber.org/multierr v1.5.0 // indirect
	golang.org/x/crypto v0.0.0-20200622213623-75b288015ac9 // indirect
	golang.org/x/net v0.0.0-20201021035429-f5854403a974 // indirect
	golang.org/x/sys v0.0.0-20210217105451-b926d437f341 // indirect
	golang.org/x/text v0.3.3 // indirect
	golang.org/x/time v0.0.0-20190308202827-9d24e82272b4 // indirect
	google.golang.org/genproto v0.0.0-20190927181202-20e1ac93f88c // indirect
	gopkg.in/natefinch/lumberjack.v2 v2.0.0 // indirect
	gopkg.in/yaml.v2 v2.2.8 // indirect
	sigs.k8s.io/yaml v1.1.0 // indirect
)

replace github.com/tikv/pd => /repo
