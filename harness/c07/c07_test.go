// C07 — region lookups and per-store statistics match the cached region set.
//
// Model-based property: every generated history of puts and removes is applied to
// core.BasicCluster/core.RegionsInfo and to a plain slice; after every operation
// every query is compared with a linear scan over the slice.
package c07

import (
	"bytes"
	"fmt"
	"math/rand"
	"sort"
	"testing"

	"github.com/pingcap/kvproto/pkg/metapb"
	"github.com/tikv/pd/server/core"
	"pdverif/vkit"
	"pgregory.net/rapid"
)

func TestMain(m *testing.M)   { vkit.Main(m, "C07") }
func TestProp(t *testing.T)   { vkit.RunAll(t) }
func TestReplay(t *testing.T) { vkit.RunReplay(t) }

func init() {
	vkit.Register("regions", vkit.N{Quick: 1600, Thorough: 40000}, genCase, runCase)
}

// ---------------------------------------------------------------- case data

type Peer struct {
	Store   uint64 `json:"s"`
	Learner bool   `json:"l,omitempty"`
	Pending bool   `json:"p,omitempty"`
	// Joint is the role of a non-learner peer inside a joint-consensus
	// change: 0 voter, 1 incoming voter, 2 demoting voter. Both joint roles
	// still count as voters of the region (leader or follower on their store).
	Joint int `json:"j,omitempty"`
}

type Body struct {
	Peers  []Peer `json:"peers"`
	Leader int    `json:"leader"` // index into Peers, -1 = none
	Size   int64  `json:"size"`
}

type Op struct {
	Kind  string `json:"k"` // new, same, range, swallow, remove, removeAbsent
	Pick  int    `json:"pick,omitempty"`
	Start string `json:"s,omitempty"`
	End   string `json:"e,omitempty"`
	Body  Body   `json:"b"`
	Keep  bool   `json:"keep,omitempty"` // "same": keep the old body (nothing changed) except Size
}

type Case struct {
	Splits []string `json:"splits"` // initial contiguous regions: boundaries
	Bodies []Body   `json:"bodies"`
	Ops    []Op     `json:"ops"`
	Probes []string `json:"probes"`
	Seed   int64    `json:"seed"`
	Debug  bool     `json:"debug,omitempty"` // log level debug (entries encoded and discarded), see setLog
}

var alphabet = "abcdefgh"
var keyTable []string // sorted, without ""

func init() {
	for _, a := range alphabet {
		keyTable = append(keyTable, string(a))
		for _, b := range alphabet {
			keyTable = append(keyTable, string(a)+string(b))
			for _, c := range alphabet {
				keyTable = append(keyTable, string(a)+string(b)+string(c))
			}
		}
	}
	sort.Strings(keyTable)
}

func genBody(t *rapid.T) Body {
	n := rapid.IntRange(1, 5).Draw(t, "npeers")
	stores := rapid.Permutation([]uint64{1, 2, 3, 4, 5, 6}).Draw(t, "stores")[:n]
	b := Body{Leader: -1}
	for i := 0; i < n; i++ {
		b.Peers = append(b.Peers, Peer{Store: stores[i],
			Learner: rapid.IntRange(0, 3).Draw(t, "learner") == 0,
			Pending: rapid.IntRange(0, 4).Draw(t, "pending") == 0})
		if j := rapid.IntRange(0, 11).Draw(t, "joint"); j <= 2 && !b.Peers[i].Learner {
			b.Peers[i].Joint = j
		}
	}
	var voters []int
	for i, p := range b.Peers {
		if !p.Learner {
			voters = append(voters, i)
		}
	}
	if len(voters) > 0 && rapid.IntRange(0, 7).Draw(t, "hasLeader") != 0 {
		b.Leader = rapid.SampledFrom(voters).Draw(t, "leader")
	}
	b.Size = rapid.SampledFrom([]int64{0, 1, 1, 7, 10, 96, 200, 1 << 20}).Draw(t, "size")
	return b
}

func genRange(t *rapid.T) (string, string) {
	si := rapid.IntRange(-1, len(keyTable)-2).Draw(t, "start")
	start := ""
	if si >= 0 {
		start = keyTable[si]
	}
	switch rapid.IntRange(0, 9).Draw(t, "endKind") {
	case 0:
		return start, ""
	case 1:
		ei := rapid.IntRange(si+1, len(keyTable)-1).Draw(t, "endFar")
		return start, keyTable[ei]
	default:
		ei := si + 1 + rapid.IntRange(0, 6).Draw(t, "endNear")
		if ei >= len(keyTable) {
			return start, ""
		}
		return start, keyTable[ei]
	}
}

func genCase(t *rapid.T) Case {
	var c Case
	c.Debug = vkit.Uni(t, 4, "debugLog") == 0
	nInit := 0
	switch vkit.Uni(t, 10, "bulk") {
	case 0, 1, 2, 3:
		nInit = rapid.IntRange(0, 5).Draw(t, "n")
	case 4, 5, 6:
		nInit = rapid.IntRange(60, 70).Draw(t, "n")
	case 7, 8:
		nInit = rapid.IntRange(125, 135).Draw(t, "n")
	default:
		nInit = rapid.IntRange(300, 400).Draw(t, "n")
	}
	if nInit > 0 {
		// nInit contiguous regions need nInit-1 inner boundaries; leading/trailing unbounded optional
		idx := rapid.Permutation(seq(len(keyTable))).Draw(t, "splitIdx")[:nInit+1]
		sort.Ints(idx)
		for _, i := range idx {
			c.Splits = append(c.Splits, keyTable[i])
		}
		if rapid.Bool().Draw(t, "openStart") {
			c.Splits[0] = ""
		}
		if rapid.Bool().Draw(t, "openEnd") {
			c.Splits[len(c.Splits)-1] = ""
		}
		for i := 0; i < nInit; i++ {
			c.Bodies = append(c.Bodies, genBody(t))
		}
	}
	nOps := rapid.IntRange(5, 60).Draw(t, "nOps")
	for i := 0; i < nOps; i++ {
		var op Op
		op.Kind = vkit.PickU(t, []string{"new", "new", "same", "same", "tweak", "tweak", "tweak", "rerange", "rerange", "rerange", "range", "range", "swallow", "remove", "remove", "removeAbsent"}, "kind")
		op.Pick = rapid.IntRange(0, 1000).Draw(t, "pick")
		switch op.Kind {
		case "new", "range", "removeAbsent":
			op.Start, op.End = genRange(t)
			op.Body = genBody(t)
		case "same":
			op.Body = genBody(t)
			op.Keep = rapid.IntRange(0, 2).Draw(t, "keep") == 0
		case "tweak":
			// same peers (same ids); only leader / pending flags / size change
			op.Body = Body{Leader: rapid.IntRange(-1, 4).Draw(t, "tleader"), Size: rapid.SampledFrom([]int64{0, 1, 10, 96}).Draw(t, "tsize")}
			for i := 0; i < 5; i++ {
				op.Body.Peers = append(op.Body.Peers, Peer{Pending: rapid.IntRange(0, 2).Draw(t, "tpending") == 0})
			}
			op.Keep = rapid.Bool().Draw(t, "keepLeader")
		case "rerange":
			// same id, same peers/leader/pending (a merge or split as TiKV reports it): only the range moves.
			// End encodes the shape: L = absorb the left neighbour, R = absorb the right one, B = both,
			// S = shrink (give up the tail), H = shrink from the head
			op.End = rapid.SampledFrom([]string{"L", "L", "R", "B", "S", "H"}).Draw(t, "shape")
		case "swallow":
			op.Pick = rapid.IntRange(0, 1000).Draw(t, "pick2")
			op.Body = genBody(t)
			op.End = fmt.Sprint(rapid.IntRange(1, 4).Draw(t, "span"))
		}
		c.Ops = append(c.Ops, op)
	}
	np := rapid.IntRange(4, 12).Draw(t, "nprobe")
	for i := 0; i < np; i++ {
		c.Probes = append(c.Probes, keyTable[rapid.IntRange(0, len(keyTable)-1).Draw(t, "probe")])
	}
	c.Seed = int64(rapid.IntRange(1, 1<<30).Draw(t, "seed"))
	return c
}

func seq(n int) []int {
	s := make([]int, n)
	for i := range s {
		s[i] = i
	}
	return s
}

// ---------------------------------------------------------------- model

type mreg struct {
	id         uint64
	start, end string
	body       Body
	info       *core.RegionInfo
}

func (r *mreg) contains(k string) bool { return k >= r.start && (r.end == "" || k < r.end) }

// intersects [s,e) where e=="" is +inf
func (r *mreg) intersects(s, e string) bool {
	return (r.end == "" || r.end > s) && (e == "" || r.start < e)
}

type model struct {
	regs   []*mreg // sorted by start
	nextID uint64
	nextP  uint64
	joint  bool // some built region has a peer in a joint role
}

func (m *model) sortRegs() {
	sort.Slice(m.regs, func(i, j int) bool { return m.regs[i].start < m.regs[j].start })
}

func (m *model) byID(id uint64) *mreg {
	for _, r := range m.regs {
		if r.id == id {
			return r
		}
	}
	return nil
}

func (m *model) put(r *mreg) (displaced []*mreg) {
	var keep []*mreg
	for _, o := range m.regs {
		if o.id == r.id {
			continue
		}
		if o.intersects(r.start, r.end) {
			displaced = append(displaced, o)
			continue
		}
		keep = append(keep, o)
	}
	m.regs = append(keep, r)
	m.sortRegs()
	return
}

func (m *model) remove(id uint64) {
	var keep []*mreg
	for _, o := range m.regs {
		if o.id != id {
			keep = append(keep, o)
		}
	}
	m.regs = keep
}

func (m *model) build(id uint64, start, end string, b Body) *mreg {
	meta := &metapb.Region{Id: id, StartKey: []byte(start), EndKey: []byte(end),
		RegionEpoch: &metapb.RegionEpoch{Version: 1, ConfVer: 1}}
	var leader *metapb.Peer
	var pending []*metapb.Peer
	for i, p := range b.Peers {
		m.nextP++
		mp := &metapb.Peer{Id: m.nextP, StoreId: p.Store}
		switch {
		case p.Learner:
			mp.Role = metapb.PeerRole_Learner
		case p.Joint == 1:
			m.joint = true
			mp.Role = metapb.PeerRole_IncomingVoter
		case p.Joint == 2:
			m.joint = true
			mp.Role = metapb.PeerRole_DemotingVoter
		}
		meta.Peers = append(meta.Peers, mp)
		if i == b.Leader {
			leader = mp
		}
		if p.Pending {
			pending = append(pending, mp)
		}
	}
	info := core.NewRegionInfo(meta, leader, core.SetApproximateSize(b.Size), core.WithPendingPeers(pending))
	return &mreg{id: id, start: start, end: end, body: b, info: info}
}

// ---------------------------------------------------------------- runner

func runCase(c Case) (vkit.Info, error) {
	var info vkit.Info
	rand.Seed(c.Seed)
	setLog(c.Debug)
	defer setLog(false)
	if c.Debug {
		info.Class("log-level-debug")
	}
	bc := core.NewBasicCluster()
	ri := bc.Regions
	m := &model{nextID: 1, nextP: 1000}
	for i := 0; i+1 < len(c.Splits); i++ {
		r := m.build(m.nextID, c.Splits[i], c.Splits[i+1], c.Bodies[i])
		m.nextID++
		bc.PutRegion(r.info)
		m.put(r)
	}
	if len(m.regs) > 100 {
		info.Class("bulk>100")
	}
	if err := checkAll(bc, ri, m, c.Probes, true); err != nil {
		return info, fmt.Errorf("after initial bulk of %d regions: %v", len(m.regs), err)
	}
	displacedByRange, roleChangeSameRange := false, false
	for i, op := range c.Ops {
		desc := op.Kind
		var touched []string
		switch op.Kind {
		case "new":
			r := m.build(m.nextID, op.Start, op.End, op.Body)
			m.nextID++
			ov := bc.PutRegion(r.info)
			disp := m.put(r)
			if err := sameSet(ov, disp); err != nil {
				return info, fmt.Errorf("op %d %s: returned overlaps: %v", i, desc, err)
			}
			if len(disp) > 0 {
				displacedByRange = true
			}
			touched = []string{r.start, r.end}
		case "same":
			if len(m.regs) == 0 {
				continue
			}
			old := m.regs[op.Pick%len(m.regs)]
			b := op.Body
			if op.Keep {
				b = old.body
				b.Size = op.Body.Size
			}
			r := m.build(old.id, old.start, old.end, b)
			if op.Keep {
				// identical peers (ids too): rebuild from the old meta so nothing but the size changes
				r.info = old.info.Clone(core.SetApproximateSize(b.Size))
			} else {
				roleChangeSameRange = true
			}
			ov := bc.PutRegion(r.info)
			if len(ov) != 0 {
				return info, fmt.Errorf("op %d same-range put of region %d returned %d overlaps", i, old.id, len(ov))
			}
			m.put(r)
			touched = []string{r.start, r.end}
		case "tweak":
			if len(m.regs) == 0 {
				continue
			}
			old := m.regs[op.Pick%len(m.regs)]
			b := Body{Leader: old.body.Leader, Size: op.Body.Size}
			var pending []*metapb.Peer
			var voters []int
			for j, p := range old.body.Peers {
				np := Peer{Store: p.Store, Learner: p.Learner, Joint: p.Joint, Pending: op.Body.Peers[j].Pending}
				b.Peers = append(b.Peers, np)
				if np.Pending {
					pending = append(pending, old.info.GetMeta().Peers[j])
				}
				if !p.Learner {
					voters = append(voters, j)
				}
			}
			if !op.Keep {
				if op.Body.Leader < 0 || len(voters) == 0 {
					b.Leader = -1
				} else {
					b.Leader = voters[op.Body.Leader%len(voters)]
				}
			}
			var leader *metapb.Peer
			if b.Leader >= 0 {
				leader = old.info.GetMeta().Peers[b.Leader]
			}
			r := &mreg{id: old.id, start: old.start, end: old.end, body: b,
				info: old.info.Clone(core.SetApproximateSize(b.Size), core.WithPendingPeers(pending), core.WithLeader(leader))}
			if ov := bc.PutRegion(r.info); len(ov) != 0 {
				return info, fmt.Errorf("op %d tweak of region %d returned %d overlaps", i, old.id, len(ov))
			}
			m.put(r)
			roleChangeSameRange = true
			info.Class("tweak")
			touched = []string{r.start, r.end}
		case "rerange":
			if len(m.regs) == 0 {
				continue
			}
			k := op.Pick % len(m.regs)
			old := m.regs[k]
			ns, ne := old.start, old.end
			switch op.End {
			case "L", "B":
				if k > 0 {
					ns = m.regs[k-1].start
				}
				if op.End == "B" && k+1 < len(m.regs) {
					ne = m.regs[k+1].end
				}
			case "R":
				if k+1 < len(m.regs) {
					ne = m.regs[k+1].end
				}
			case "S", "H":
				// a key strictly inside the range, if the key table has one
				lo := sort.SearchStrings(keyTable, old.start)
				if lo < len(keyTable) && keyTable[lo] == old.start {
					lo++
				}
				hi := len(keyTable)
				if old.end != "" {
					hi = sort.SearchStrings(keyTable, old.end)
				}
				if lo < hi {
					mid := keyTable[lo+(hi-lo)/2]
					if op.End == "S" {
						ne = mid
					} else {
						ns = mid
					}
				}
			}
			if ns == old.start && ne == old.end {
				continue
			}
			r := &mreg{id: old.id, start: ns, end: ne, body: old.body,
				info: old.info.Clone(core.WithStartKey([]byte(ns)), core.WithEndKey([]byte(ne)))}
			ov := bc.PutRegion(r.info)
			disp := m.put(r)
			if err := sameSet(ov, disp); err != nil {
				return info, fmt.Errorf("op %d rerange(%s): returned overlaps: %v", i, op.End, err)
			}
			if len(disp) > 0 {
				displacedByRange = true
				info.Class("merge-same-peers")
			} else {
				info.Class("split-same-peers")
			}
			touched = []string{r.start, r.end, old.start, old.end}
		case "range":
			if len(m.regs) == 0 {
				continue
			}
			old := m.regs[op.Pick%len(m.regs)]
			r := m.build(old.id, op.Start, op.End, op.Body)
			ov := bc.PutRegion(r.info)
			disp := m.put(r)
			if err := sameSet(ov, disp); err != nil {
				return info, fmt.Errorf("op %d %s: returned overlaps: %v", i, desc, err)
			}
			if len(disp) > 0 {
				displacedByRange = true
			}
			touched = []string{r.start, r.end, old.start, old.end}
		case "swallow":
			if len(m.regs) < 2 {
				continue
			}
			k := op.Pick % len(m.regs)
			span := int(op.End[0] - '0')
			last := k + span
			if last >= len(m.regs) {
				last = len(m.regs) - 1
			}
			old := m.regs[k]
			r := m.build(old.id, old.start, m.regs[last].end, op.Body)
			ov := bc.PutRegion(r.info)
			disp := m.put(r)
			if err := sameSet(ov, disp); err != nil {
				return info, fmt.Errorf("op %d %s: returned overlaps: %v", i, desc, err)
			}
			if len(disp) > 0 {
				displacedByRange = true
				info.Class("swallow")
			}
			touched = []string{r.start, r.end}
		case "remove":
			if len(m.regs) == 0 {
				continue
			}
			old := m.regs[op.Pick%len(m.regs)]
			bc.RemoveRegion(old.info)
			m.remove(old.id)
			touched = []string{old.start, old.end}
		case "removeAbsent":
			r := m.build(m.nextID, op.Start, op.End, op.Body)
			m.nextID++
			bc.RemoveRegion(r.info)
			touched = []string{op.Start, op.End}
		}
		probes := append(append([]string(nil), c.Probes...), touched...)
		if err := checkAll(bc, ri, m, probes, false); err != nil {
			return info, fmt.Errorf("after op %d (%s): %v", i, desc, err)
		}
	}
	if err := checkAll(bc, ri, m, c.Probes, true); err != nil {
		return info, fmt.Errorf("final sweep: %v", err)
	}
	info.ClassIf(displacedByRange, "displaced")
	info.ClassIf(m.joint, "joint-role")
	info.ClassIf(roleChangeSameRange, "rolechange-same-range")
	info.NonTrivial = displacedByRange && roleChangeSameRange
	return info, nil
}

func sameSet(got []*core.RegionInfo, want []*mreg) error {
	g := map[uint64]bool{}
	for _, r := range got {
		g[r.GetID()] = true
	}
	if len(g) != len(got) {
		return fmt.Errorf("duplicates in %v", ids(got))
	}
	if len(got) != len(want) {
		return fmt.Errorf("got ids %v want %v", ids(got), mids(want))
	}
	for _, r := range want {
		if !g[r.id] {
			return fmt.Errorf("got ids %v want %v", ids(got), mids(want))
		}
	}
	return nil
}

func ids(rs []*core.RegionInfo) []uint64 {
	var out []uint64
	for _, r := range rs {
		if r == nil {
			out = append(out, 0)
		} else {
			out = append(out, r.GetID())
		}
	}
	return out
}
func mids(rs []*mreg) []uint64 {
	var out []uint64
	for _, r := range rs {
		out = append(out, r.id)
	}
	return out
}

func same(got *core.RegionInfo, want *mreg) bool {
	if want == nil {
		return got == nil
	}
	return got == want.info
}

func idOf(r *core.RegionInfo) interface{} {
	if r == nil {
		return nil
	}
	return r.GetID()
}
func midOf(r *mreg) interface{} {
	if r == nil {
		return nil
	}
	return r.id
}

func neighbours(probes []string) []string {
	// add the keys right before/after each probe in the key table
	set := map[string]bool{"": true}
	for _, p := range probes {
		set[p] = true
		i := sort.SearchStrings(keyTable, p)
		if i > 0 {
			set[keyTable[i-1]] = true
		}
		if i+1 < len(keyTable) {
			set[keyTable[i+1]] = true
		}
	}
	out := make([]string, 0, len(set))
	for k := range set {
		out = append(out, k)
	}
	sort.Strings(out)
	return out
}

func checkAll(bc *core.BasicCluster, ri *core.RegionsInfo, m *model, probes []string, full bool) error {
	if ri.Len() != len(m.regs) || ri.TreeLen() != len(m.regs) || bc.GetRegionCount() != len(m.regs) {
		return fmt.Errorf("Len=%d TreeLen=%d RegionCount=%d, model has %d regions", ri.Len(), ri.TreeLen(), bc.GetRegionCount(), len(m.regs))
	}
	keys := neighbours(probes)
	if full {
		set := map[string]bool{"": true}
		for _, r := range m.regs {
			set[r.start] = true
			set[r.end] = true
		}
		for _, k := range keys {
			set[k] = true
		}
		keys = keys[:0]
		for k := range set {
			keys = append(keys, k)
		}
		sort.Strings(keys)
	}
	// by id
	for _, r := range m.regs {
		if got := ri.GetRegion(r.id); got != r.info {
			return fmt.Errorf("GetRegion(%d) returned %v, not the cached object", r.id, idOf(got))
		}
	}
	for _, k := range keys {
		var cur, prev *mreg
		ci := -1
		for i, r := range m.regs {
			if r.contains(k) {
				cur, ci = r, i
			}
		}
		if got := ri.SearchRegion([]byte(k)); !same(got, cur) {
			return fmt.Errorf("SearchRegion(%q) = %v, linear scan says %v", k, idOf(got), midOf(cur))
		}
		if got := bc.SearchRegion([]byte(k)); !same(got, cur) {
			return fmt.Errorf("BasicCluster.SearchRegion(%q) = %v, linear scan says %v", k, idOf(got), midOf(cur))
		}
		if cur != nil && ci > 0 && m.regs[ci-1].end == cur.start {
			prev = m.regs[ci-1]
		}
		if got := ri.SearchPrevRegion([]byte(k)); !same(got, prev) {
			return fmt.Errorf("SearchPrevRegion(%q) = %v, linear scan says %v", k, idOf(got), midOf(prev))
		}
	}
	// scans and overlaps over sampled pairs
	for i, s := range keys {
		for j := i; j < len(keys) && j < i+4; j++ {
			e := keys[j]
			if j == i {
				e = ""
			}
			if e != "" && e <= s {
				continue
			}
			for _, limit := range []int{-1, 0, 1, 3} {
				var want []*mreg
				for _, r := range m.regs {
					if r.intersects(s, e) {
						if limit > 0 && len(want) >= limit {
							break
						}
						want = append(want, r)
					}
				}
				got := ri.ScanRange([]byte(s), []byte(e), limit)
				if err := sameSeq(got, want); err != nil {
					return fmt.Errorf("ScanRange(%q,%q,%d): %v", s, e, limit, err)
				}
			}
			var want []*mreg
			for _, r := range m.regs {
				if r.intersects(s, e) {
					want = append(want, r)
				}
			}
			probe := core.NewRegionInfo(&metapb.Region{Id: 1 << 40, StartKey: []byte(s), EndKey: []byte(e)}, nil)
			if err := sameSeq(ri.GetOverlaps(probe), want); err != nil {
				return fmt.Errorf("GetOverlaps([%q,%q)): %v", s, e, err)
			}
		}
	}
	// adjacent regions
	for i, r := range m.regs {
		if !full && i%7 != 0 && !inKeys(keys, r.start) {
			continue
		}
		var wp, wn *mreg
		if i > 0 && m.regs[i-1].end == r.start {
			wp = m.regs[i-1]
		}
		if i+1 < len(m.regs) && r.end == m.regs[i+1].start {
			// note: "" end never equals a start key of a later region (later starts are non-empty)
			wn = m.regs[i+1]
		}
		gp, gn := ri.GetAdjacentRegions(r.info)
		if !same(gp, wp) || !same(gn, wn) {
			return fmt.Errorf("GetAdjacentRegions(%d) = (%v,%v), linear scan says (%v,%v)", r.id, idOf(gp), idOf(gn), midOf(wp), midOf(wn))
		}
	}
	// per-store statistics
	type stat struct {
		leaders, followers, learners, pending map[uint64]bool
		lsize, fsize, nsize                   int64
	}
	stats := map[uint64]*stat{}
	get := func(s uint64) *stat {
		if stats[s] == nil {
			stats[s] = &stat{map[uint64]bool{}, map[uint64]bool{}, map[uint64]bool{}, map[uint64]bool{}, 0, 0, 0}
		}
		return stats[s]
	}
	var total int64
	for _, r := range m.regs {
		total += r.body.Size
		for i, p := range r.body.Peers {
			st := get(p.Store)
			switch {
			case p.Learner:
				st.learners[r.id] = true
				st.nsize += r.body.Size
			case i == r.body.Leader:
				st.leaders[r.id] = true
				st.lsize += r.body.Size
			default:
				st.followers[r.id] = true
				st.fsize += r.body.Size
			}
			if p.Pending {
				st.pending[r.id] = true
			}
		}
	}
	for s := uint64(1); s <= 7; s++ {
		st := get(s)
		if g := ri.GetStoreLeaderCount(s); g != len(st.leaders) {
			return fmt.Errorf("store %d leader count %d, model %d", s, g, len(st.leaders))
		}
		if g := ri.GetStoreFollowerCount(s); g != len(st.followers) {
			return fmt.Errorf("store %d follower count %d, model %d", s, g, len(st.followers))
		}
		if g := ri.GetStoreLearnerCount(s); g != len(st.learners) {
			return fmt.Errorf("store %d learner count %d, model %d", s, g, len(st.learners))
		}
		if g := ri.GetStorePendingPeerCount(s); g != len(st.pending) {
			return fmt.Errorf("store %d pending count %d, model %d", s, g, len(st.pending))
		}
		if g := ri.GetStoreRegionCount(s); g != len(st.leaders)+len(st.followers)+len(st.learners) {
			return fmt.Errorf("store %d region count %d, model %d", s, g, len(st.leaders)+len(st.followers)+len(st.learners))
		}
		if g := ri.GetStoreLeaderRegionSize(s); g != st.lsize {
			return fmt.Errorf("store %d leader size %d, model %d", s, g, st.lsize)
		}
		if g := ri.GetStoreFollowerRegionSize(s); g != st.fsize {
			return fmt.Errorf("store %d follower size %d, model %d", s, g, st.fsize)
		}
		if g := ri.GetStoreLearnerRegionSize(s); g != st.nsize {
			return fmt.Errorf("store %d learner size %d, model %d", s, g, st.nsize)
		}
		if g := bc.GetStoreRegionSize(s); g != st.lsize+st.fsize+st.nsize {
			return fmt.Errorf("store %d region size %d, model %d", s, g, st.lsize+st.fsize+st.nsize)
		}
		if bc.GetStoreLeaderCount(s) != len(st.leaders) || bc.GetStoreFollowerCount(s) != len(st.followers) || bc.GetStorePendingPeerCount(s) != len(st.pending) {
			return fmt.Errorf("store %d: BasicCluster counts disagree with model", s)
		}
		if full || s == 1 {
			got := ri.GetStoreRegions(s)
			want := map[uint64]bool{}
			for id := range st.leaders {
				want[id] = true
			}
			for id := range st.followers {
				want[id] = true
			}
			for id := range st.learners {
				want[id] = true
			}
			if len(got) != len(want) {
				return fmt.Errorf("GetStoreRegions(%d) has %d entries %v, model %d", s, len(got), ids(got), len(want))
			}
			for _, g := range got {
				if !want[g.GetID()] || m.byID(g.GetID()).info != g {
					return fmt.Errorf("GetStoreRegions(%d) returned region %d which the model does not place there", s, g.GetID())
				}
			}
		}
	}
	wantAvg := int64(0)
	if len(m.regs) > 0 {
		wantAvg = total / int64(len(m.regs))
	}
	if g := ri.GetAverageRegionSize(); g != wantAvg {
		return fmt.Errorf("GetAverageRegionSize %d, model %d", g, wantAvg)
	}
	if full {
		metas := ri.GetMetaRegions()
		if len(metas) != len(m.regs) {
			return fmt.Errorf("GetMetaRegions returned %d, model %d", len(metas), len(m.regs))
		}
		for _, mt := range metas {
			r := m.byID(mt.GetId())
			if r == nil || !bytes.Equal(mt.GetStartKey(), []byte(r.start)) || !bytes.Equal(mt.GetEndKey(), []byte(r.end)) {
				return fmt.Errorf("GetMetaRegions returned region %d that is not in the model with that range", mt.GetId())
			}
		}
		if got := ri.GetRegions(); len(got) != len(m.regs) {
			return fmt.Errorf("GetRegions returned %d, model %d", len(got), len(m.regs))
		}
	}
	// random picks (only for one store/role per call to keep the cost bounded)
	if err := checkRandom(bc, ri, m, keys, full); err != nil {
		return err
	}
	return nil
}

func inKeys(keys []string, k string) bool {
	i := sort.SearchStrings(keys, k)
	return i < len(keys) && keys[i] == k
}

func sameSeq(got []*core.RegionInfo, want []*mreg) error {
	if len(got) != len(want) {
		return fmt.Errorf("got ids %v, linear scan says %v", ids(got), mids(want))
	}
	for i := range got {
		if got[i] != want[i].info {
			return fmt.Errorf("got ids %v, linear scan says %v", ids(got), mids(want))
		}
	}
	return nil
}

type roleFn struct {
	name string
	pick func(ri *core.RegionsInfo, s uint64, rs []core.KeyRange) *core.RegionInfo
	has  func(r *mreg, s uint64) bool
}

// The schedulers do not call RegionsInfo.Rand*Region but BasicCluster.Rand*Region, which goes through the plural
// RegionsInfo.Rand*Regions(store, ranges, n) helpers (regionTree.RandomRegions) and takes the first accepted element.
var pluralPicks = map[string]func(ri *core.RegionsInfo, s uint64, rs []core.KeyRange, n int) []*core.RegionInfo{
	"leader": func(ri *core.RegionsInfo, s uint64, rs []core.KeyRange, n int) []*core.RegionInfo {
		return ri.RandLeaderRegions(s, rs, n)
	},
	"follower": func(ri *core.RegionsInfo, s uint64, rs []core.KeyRange, n int) []*core.RegionInfo {
		return ri.RandFollowerRegions(s, rs, n)
	},
	"learner": func(ri *core.RegionsInfo, s uint64, rs []core.KeyRange, n int) []*core.RegionInfo {
		return ri.RandLearnerRegions(s, rs, n)
	},
	"pending": func(ri *core.RegionsInfo, s uint64, rs []core.KeyRange, n int) []*core.RegionInfo {
		return ri.RandPendingRegions(s, rs, n)
	},
}

var clusterPicks = map[string]func(bc *core.BasicCluster, s uint64, rs []core.KeyRange) *core.RegionInfo{
	"leader": func(bc *core.BasicCluster, s uint64, rs []core.KeyRange) *core.RegionInfo {
		return bc.RandLeaderRegion(s, rs)
	},
	"follower": func(bc *core.BasicCluster, s uint64, rs []core.KeyRange) *core.RegionInfo {
		return bc.RandFollowerRegion(s, rs)
	},
	"learner": func(bc *core.BasicCluster, s uint64, rs []core.KeyRange) *core.RegionInfo {
		return bc.RandLearnerRegion(s, rs)
	},
	"pending": func(bc *core.BasicCluster, s uint64, rs []core.KeyRange) *core.RegionInfo {
		return bc.RandPendingRegion(s, rs)
	},
}

var roles = []roleFn{
	{"leader", func(ri *core.RegionsInfo, s uint64, rs []core.KeyRange) *core.RegionInfo {
		return ri.RandLeaderRegion(s, rs)
	},
		func(r *mreg, s uint64) bool {
			return r.body.Leader >= 0 && r.body.Peers[r.body.Leader].Store == s
		}},
	{"follower", func(ri *core.RegionsInfo, s uint64, rs []core.KeyRange) *core.RegionInfo {
		return ri.RandFollowerRegion(s, rs)
	},
		func(r *mreg, s uint64) bool {
			for i, p := range r.body.Peers {
				if p.Store == s && !p.Learner && i != r.body.Leader {
					return true
				}
			}
			return false
		}},
	{"learner", func(ri *core.RegionsInfo, s uint64, rs []core.KeyRange) *core.RegionInfo {
		return ri.RandLearnerRegion(s, rs)
	},
		func(r *mreg, s uint64) bool {
			for _, p := range r.body.Peers {
				if p.Store == s && p.Learner {
					return true
				}
			}
			return false
		}},
	{"pending", func(ri *core.RegionsInfo, s uint64, rs []core.KeyRange) *core.RegionInfo {
		return ri.RandPendingRegion(s, rs)
	},
		func(r *mreg, s uint64) bool {
			for _, p := range r.body.Peers {
				if p.Store == s && p.Pending {
					return true
				}
			}
			return false
		}},
}

func checkRandom(bc *core.BasicCluster, ri *core.RegionsInfo, m *model, keys []string, full bool) error {
	// ranges: whole space, and two ranges taken from the probe keys
	var rangeSets [][]core.KeyRange
	rangeSets = append(rangeSets, nil)
	if len(keys) >= 3 {
		a, b, c := keys[len(keys)/4], keys[len(keys)/2], keys[len(keys)-1]
		rangeSets = append(rangeSets, []core.KeyRange{core.NewKeyRange(a, b)})
		rangeSets = append(rangeSets, []core.KeyRange{core.NewKeyRange("", a), core.NewKeyRange(b, "")})
		if full {
			rangeSets = append(rangeSets, []core.KeyRange{core.NewKeyRange(a, c), core.NewKeyRange(b, b)})
		}
	}
	stores := []uint64{1, 4}
	if full {
		stores = []uint64{1, 2, 3, 4, 5, 6}
	}
	for _, s := range stores {
		for _, rf := range roles {
			for _, rs := range rangeSets {
				ranges := rs
				if len(ranges) == 0 {
					ranges = []core.KeyRange{core.NewKeyRange("", "")}
				}
				cand := map[*core.RegionInfo]bool{}
				inTree := 0
				for _, r := range m.regs {
					if !rf.has(r, s) {
						continue
					}
					inTree++
					for _, kr := range ranges {
						st, en := string(kr.StartKey), string(kr.EndKey)
						if r.start >= st && (en == "" || (r.end != "" && r.end <= en)) {
							cand[r.info] = true
						}
					}
				}
				draws := 8
				cover := full && len(cand) > 0 && inTree <= 24
				if cover {
					draws = 64 * (inTree + 2) * len(ranges)
				}
				seen := map[*core.RegionInfo]bool{}
				for d := 0; d < draws; d++ {
					got := rf.pick(ri, s, rs)
					if got == nil {
						continue
					}
					if !cand[got] {
						return fmt.Errorf("Rand%sRegion(store %d, ranges %s) returned region %d [%q,%q) which is not a %s region of that store wholly inside a range",
							rf.name, s, fmtRanges(ranges), got.GetID(), got.GetStartKey(), got.GetEndKey(), rf.name)
					}
					seen[got] = true
				}
				// the same through the plural helper (n = 10 as the schedulers use it; about as many picks as above, so the
				// coverage argument carries over) and through BasicCluster (membership only: it keeps one pick in ten)
				seenN := map[*core.RegionInfo]bool{}
				nPlural := draws/10 + 1
				if s%3 != 1 {
					nPlural = 1 // full depth on stores 1 and 4 only (cost)
				}
				for d := 0; d < nPlural; d++ {
					for _, got := range pluralPicks[rf.name](ri, s, rs, 10) {
						if got == nil || !cand[got] {
							return fmt.Errorf("Rand%sRegions(store %d, ranges %s, 10) returned %v which is not a %s region of that store wholly inside a range",
								rf.name, s, fmtRanges(ranges), got, rf.name)
						}
						seenN[got] = true
					}
					if bc == nil {
						continue
					}
					if got := clusterPicks[rf.name](bc, s, rs); got != nil && !cand[got] {
						return fmt.Errorf("BasicCluster.Rand%sRegion(store %d, ranges %s) returned region %d [%q,%q) which is not a %s region of that store wholly inside a range",
							rf.name, s, fmtRanges(ranges), got.GetID(), got.GetStartKey(), got.GetEndKey(), rf.name)
					}
				}
				if len(cand) == 0 {
					continue
				}
				if cover && len(seen) != len(cand) {
					return fmt.Errorf("Rand%sRegion(store %d, ranges %s): %d candidates by linear scan, only %d ever returned in %d draws",
						rf.name, s, fmtRanges(ranges), len(cand), len(seen), draws)
				}
				if cover && s%3 == 1 && len(seenN) != len(cand) {
					return fmt.Errorf("Rand%sRegions(store %d, ranges %s, 10): %d candidates by linear scan, only %d ever returned in %d calls",
						rf.name, s, fmtRanges(ranges), len(cand), len(seenN), draws/10+1)
				}
			}
		}
	}
	return nil
}

func fmtRanges(rs []core.KeyRange) string {
	s := ""
	for _, r := range rs {
		s += fmt.Sprintf("[%q,%q)", r.StartKey, r.EndKey)
	}
	return s
}
