package c07

// Model check of pkg/btree (the index behind every region tree and its positional
// queries GetAt / GetWithIndex used by the random picks): generated histories of
// insert / replace / delete / delete-min / delete-max / clone / clear on trees of small and
// default degree, compared with a sorted slice after every step. Small degrees make splits,
// merges, root collapse and free-list reuse happen with a few dozen items.

import (
	"fmt"
	"sort"

	"github.com/tikv/pd/pkg/btree"
	"pdverif/vkit"
	"pgregory.net/rapid"
)

func init() {
	vkit.Register("btree", vkit.N{Quick: 6000, Thorough: 200000}, genBT, runBT)
}

type BTOp struct {
	K string `json:"k"` // ins, del, delmin, delmax, clone, clear, burstins, burstdel
	V int    `json:"v,omitempty"`
	N int    `json:"n,omitempty"`
}

type BTCase struct {
	Degree int    `json:"degree"`
	Ops    []BTOp `json:"ops"`
}

// uni draws 0..n-1 uniformly from fair bits (rapid's integer generators favour small values).
func uni(t *rapid.T, n int, label string) int {
	for {
		v := 0
		for b := 1; b < n; b <<= 1 {
			v <<= 1
			if rapid.Bool().Draw(t, label) {
				v |= 1
			}
		}
		if v < n {
			return v
		}
	}
}

func genBT(t *rapid.T) BTCase {
	c := BTCase{Degree: []int{2, 2, 3, 4, 8, 64}[uni(t, 6, "degree")]}
	n := 5 + uni(t, 76, "nops")
	span := 40
	if c.Degree >= 8 {
		span = 600
	}
	for i := 0; i < n; i++ {
		switch uni(t, 14, "kind") {
		case 0, 1, 2, 3:
			c.Ops = append(c.Ops, BTOp{K: "ins", V: uni(t, span+1, "v")})
		case 4, 5, 6:
			c.Ops = append(c.Ops, BTOp{K: "del", V: uni(t, span+1, "v")})
		case 7:
			c.Ops = append(c.Ops, BTOp{K: "delmin"})
		case 8:
			c.Ops = append(c.Ops, BTOp{K: "delmax"})
		case 9:
			c.Ops = append(c.Ops, BTOp{K: "clone"})
		case 10:
			c.Ops = append(c.Ops, BTOp{K: "clear", V: rapid.IntRange(0, 1).Draw(t, "toFreelist")})
		case 11, 12:
			// grow well past a root split
			c.Ops = append(c.Ops, BTOp{K: "burstins", V: uni(t, span+1, "from"), N: c.Degree*2 + uni(t, c.Degree*4+5, "n")})
		default:
			// shrink until leaves merge and the root collapses
			c.Ops = append(c.Ops, BTOp{K: "burstdel", V: uni(t, span+1, "from"), N: c.Degree*2 + uni(t, c.Degree*4+5, "n")})
		}
	}
	return c
}

type btModel struct{ vals []int } // sorted, distinct

func (m *btModel) ins(v int) bool {
	i := sort.SearchInts(m.vals, v)
	if i < len(m.vals) && m.vals[i] == v {
		return true
	}
	m.vals = append(m.vals, 0)
	copy(m.vals[i+1:], m.vals[i:])
	m.vals[i] = v
	return false
}

func (m *btModel) del(v int) bool {
	i := sort.SearchInts(m.vals, v)
	if i < len(m.vals) && m.vals[i] == v {
		m.vals = append(m.vals[:i], m.vals[i+1:]...)
		return true
	}
	return false
}

func runBT(c BTCase) (vkit.Info, error) {
	var info vkit.Info
	tr := btree.New(c.Degree)
	m := &btModel{}
	// older clones must keep their content (copy-on-write)
	type snap struct {
		tr   *btree.BTree
		vals []int
	}
	var snaps []snap
	shrunk, regrown, wasBig := false, false, false
	for i, op := range c.Ops {
		switch op.K {
		case "ins":
			old := tr.ReplaceOrInsert(btree.Int(op.V))
			if had := m.ins(op.V); had != (old != nil) {
				return info, fmt.Errorf("op %d ins %d: ReplaceOrInsert returned %v, model had=%v", i, op.V, old, had)
			}
		case "del":
			old := tr.Delete(btree.Int(op.V))
			if had := m.del(op.V); had != (old != nil) {
				return info, fmt.Errorf("op %d del %d: Delete returned %v, model had=%v", i, op.V, old, had)
			}
		case "delmin":
			old := tr.DeleteMin()
			if len(m.vals) == 0 {
				if old != nil {
					return info, fmt.Errorf("op %d DeleteMin on empty tree returned %v", i, old)
				}
			} else {
				if old == nil || int(old.(btree.Int)) != m.vals[0] {
					return info, fmt.Errorf("op %d DeleteMin returned %v, model min %d", i, old, m.vals[0])
				}
				m.vals = m.vals[1:]
			}
		case "delmax":
			old := tr.DeleteMax()
			if len(m.vals) == 0 {
				if old != nil {
					return info, fmt.Errorf("op %d DeleteMax on empty tree returned %v", i, old)
				}
			} else {
				if old == nil || int(old.(btree.Int)) != m.vals[len(m.vals)-1] {
					return info, fmt.Errorf("op %d DeleteMax returned %v, model max %d", i, old, m.vals[len(m.vals)-1])
				}
				m.vals = m.vals[:len(m.vals)-1]
			}
		case "clone":
			snaps = append(snaps, snap{tr, append([]int(nil), m.vals...)})
			tr = tr.Clone()
			info.Class("clone")
		case "clear":
			tr.Clear(op.V == 1)
			m.vals = nil
			info.Class("clear")
		case "burstins":
			for k := 0; k < op.N; k++ {
				tr.ReplaceOrInsert(btree.Int(op.V + k))
				m.ins(op.V + k)
			}
		case "burstdel":
			for k := 0; k < op.N; k++ {
				tr.Delete(btree.Int(op.V + k))
				m.del(op.V + k)
			}
		}
		big := len(m.vals) >= 2*c.Degree
		if big {
			if shrunk {
				regrown = true
			}
			wasBig = true
		} else if wasBig && len(m.vals) < c.Degree {
			shrunk = true
		}
		if err := checkBT(tr, m.vals); err != nil {
			return info, fmt.Errorf("after op %d (%s %d n=%d, degree %d, %d items): %v", i, op.K, op.V, op.N, c.Degree, len(m.vals), err)
		}
		if len(snaps) > 0 && i%5 == 0 {
			s := snaps[len(snaps)-1]
			if err := checkBT(s.tr, s.vals); err != nil {
				return info, fmt.Errorf("after op %d: an older clone changed: %v", i, err)
			}
		}
	}
	for k, s := range snaps {
		if err := checkBT(s.tr, s.vals); err != nil {
			return info, fmt.Errorf("at the end: clone %d changed: %v", k, err)
		}
	}
	info.ClassIf(shrunk, "shrunk-below-degree-after-split")
	info.ClassIf(regrown, "regrown-after-collapse")
	info.Class(fmt.Sprintf("degree=%d", c.Degree))
	info.NonTrivial = regrown
	return info, nil
}

func checkBT(tr *btree.BTree, vals []int) error {
	if tr.Len() != len(vals) {
		return fmt.Errorf("Len()=%d, model has %d items", tr.Len(), len(vals))
	}
	// positional access
	for i, v := range vals {
		got := tr.GetAt(i)
		if got == nil || int(got.(btree.Int)) != v {
			return fmt.Errorf("GetAt(%d)=%v, sorted slice has %d", i, got, v)
		}
	}
	// GetWithIndex for present and absent keys
	lo, hi := -1, 1
	if len(vals) > 0 {
		lo, hi = vals[0]-1, vals[len(vals)-1]+1
	}
	step := 1
	if hi-lo > 200 {
		step = (hi - lo) / 200
	}
	for k := lo; k <= hi; k += step {
		idx := sort.SearchInts(vals, k)
		present := idx < len(vals) && vals[idx] == k
		it, gi := tr.GetWithIndex(btree.Int(k))
		if present != (it != nil) || gi != idx {
			return fmt.Errorf("GetWithIndex(%d)=(%v,%d), sorted slice says present=%v index=%d", k, it, gi, present, idx)
		}
		if g := tr.Get(btree.Int(k)); present != (g != nil) {
			return fmt.Errorf("Get(%d)=%v, model present=%v", k, g, present)
		}
	}
	// order
	var asc []int
	tr.Ascend(func(i btree.Item) bool { asc = append(asc, int(i.(btree.Int))); return true })
	if len(asc) != len(vals) {
		return fmt.Errorf("Ascend visited %d items, model %d", len(asc), len(vals))
	}
	for i := range asc {
		if asc[i] != vals[i] {
			return fmt.Errorf("Ascend[%d]=%d, model %d", i, asc[i], vals[i])
		}
	}
	if len(vals) > 0 {
		piv := vals[len(vals)/2]
		var ge, le []int
		tr.AscendGreaterOrEqual(btree.Int(piv), func(i btree.Item) bool { ge = append(ge, int(i.(btree.Int))); return true })
		tr.DescendLessOrEqual(btree.Int(piv), func(i btree.Item) bool { le = append(le, int(i.(btree.Int))); return true })
		if len(ge) != len(vals)-len(vals)/2 || ge[0] != piv {
			return fmt.Errorf("AscendGreaterOrEqual(%d) visited %v", piv, ge)
		}
		if len(le) != len(vals)/2+1 || le[0] != piv {
			return fmt.Errorf("DescendLessOrEqual(%d) visited %v", piv, le)
		}
		if mn := tr.Min(); int(mn.(btree.Int)) != vals[0] {
			return fmt.Errorf("Min()=%v, model %d", mn, vals[0])
		}
		if mx := tr.Max(); int(mx.(btree.Int)) != vals[len(vals)-1] {
			return fmt.Errorf("Max()=%v, model %d", mx, vals[len(vals)-1])
		}
	}
	return nil
}
