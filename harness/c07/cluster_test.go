// C07, cluster level — the per-store statistics served by RaftCluster.GetStore match the
// cached region set.
//
// Property "cluster": a RaftCluster (stores, storage over vkit/faultkv) receives generated
// histories of region heartbeats (new regions, leader changes, peer / pending-peer / size
// changes, splits and merges that displace regions; through core.RegionFromHeartbeat and
// processRegionHeartbeat) and store heartbeats (HandleStoreHeartbeat, with and without
// NeedPersist), sequentially and racing: a store heartbeat is parked at its SaveStore (gate
// on the store key) while 1-3 region heartbeats touching that store are delivered, then it
// is released (before or after them).
//
// Oracle, at quiescence after every step: for every store, rc.GetStore(id)'s leader count,
// region count, pending-peer count, leader size and region size equal what a linear scan
// over rc.GetRegions() implies, and equal the core's indexed GetStoreLeaderCount etc.; the
// heartbeat-only fields (capacity / available / used size) are those of the last store
// heartbeat.
package c07

import (
	"context"
	"fmt"
	"io"
	"sort"
	"strings"
	"sync"
	"testing"
	"time"

	"github.com/pingcap/kvproto/pkg/metapb"
	"github.com/pingcap/kvproto/pkg/pdpb"
	"github.com/pingcap/log"
	"github.com/tikv/pd/pkg/mock/mockid"
	"github.com/tikv/pd/server/cluster"
	"github.com/tikv/pd/server/config"
	"github.com/tikv/pd/server/core"
	"github.com/tikv/pd/server/kv"
	"github.com/tikv/pd/server/versioninfo"
	"go.uber.org/zap"
	"go.uber.org/zap/zapcore"
	"pdverif/vkit"
	"pdverif/vkit/faultkv"
	"pgregory.net/rapid"
)

// setLog switches pd's global logger: a no-op logger, or (debug) one that encodes every entry down to the debug
// level and throws the bytes away. The log level is configuration; formatting a log line (zap.Stringer fields are
// evaluated when the entry is encoded) must not change what is served.
func setLog(debug bool) {
	if !debug {
		log.ReplaceGlobals(zap.NewNop(), &log.ZapProperties{})
		return
	}
	core := zapcore.NewCore(zapcore.NewJSONEncoder(zap.NewProductionEncoderConfig()), zapcore.AddSync(io.Discard), zapcore.DebugLevel)
	log.ReplaceGlobals(zap.New(core), &log.ZapProperties{Core: core, Level: zap.NewAtomicLevelAt(zapcore.DebugLevel)})
}

func init() {
	setLog(false)
	vkit.Register("cluster", vkit.N{Quick: 600, Thorough: 12000}, genCluster, runCluster)
}

// ---------------------------------------------------------------- case data

// ClOp is one region event; R/A/B are picks resolved against the harness' region list.
type ClOp struct {
	K string `json:"k"` // leader addpeer rmpeer promote pending size split merge dup
	R int    `json:"r"`
	A int    `json:"a,omitempty"`
	B int    `json:"b,omitempty"`
}

type ClStats struct {
	Avail int `json:"avail"` // GB of 100
	Used  int `json:"used"`
}

// ClStep: K = "region" (Op), "store" (store heartbeat for store S), "expire" (an hour
// passes for store S: its next heartbeat needs persisting), "race" (store heartbeat of S
// parked at SaveStore while Ops are delivered; Early = released before they are waited for).
type ClStep struct {
	K     string  `json:"k"`
	S     int     `json:"s,omitempty"`
	Op    *ClOp   `json:"op,omitempty"`
	Ops   []ClOp  `json:"ops,omitempty"`
	St    ClStats `json:"st"`
	Early bool    `json:"early,omitempty"`
	Fail  bool    `json:"fail,omitempty"` // region step: the first storage write of the heartbeat(s) fails
}

type ClCase struct {
	Stores int      `json:"stores"`
	Init   []int    `json:"init"` // key table indices of the initial boundaries
	Steps  []ClStep `json:"steps"`
	Debug  bool     `json:"debug,omitempty"` // log level debug (entries encoded and discarded) instead of no logging
}

var clKinds = []string{"leader", "leader", "addpeer", "rmpeer", "promote", "pending", "pending", "size", "size", "split", "split", "merge", "merge", "dup"}

func genClOp(t *rapid.T) ClOp {
	return ClOp{K: rapid.SampledFrom(clKinds).Draw(t, "kind"), R: rapid.IntRange(0, 31).Draw(t, "r"),
		A: rapid.IntRange(0, 255).Draw(t, "a"), B: rapid.IntRange(0, 255).Draw(t, "b")}
}

func genCluster(t *rapid.T) ClCase {
	var c ClCase
	c.Stores = rapid.IntRange(3, 6).Draw(t, "stores")
	n := rapid.IntRange(0, 5).Draw(t, "nInit")
	idx := rapid.Permutation(seq(len(keyTable))).Draw(t, "bounds")[:n]
	sort.Ints(idx)
	c.Init = idx
	c.Debug = vkit.Uni(t, 3, "debugLog") == 0
	ns := rapid.IntRange(5, 40).Draw(t, "nSteps")
	for i := 0; i < ns; i++ {
		var s ClStep
		s.S = rapid.IntRange(0, 5).Draw(t, "store")
		s.St = ClStats{Avail: rapid.IntRange(1, 99).Draw(t, "avail"), Used: rapid.IntRange(0, 90).Draw(t, "used")}
		switch rapid.IntRange(0, 10).Draw(t, "step") {
		case 10:
			// the admin "drop region from cache" request racing a heartbeat that replaces that region
			s.K = "droprace"
			op := ClOp{K: vkit.PickU(t, []string{"split", "split", "merge", "leader", "size"}, "dropKind"), R: rapid.IntRange(0, 31).Draw(t, "r"),
				A: rapid.IntRange(0, 255).Draw(t, "a"), B: rapid.IntRange(0, 255).Draw(t, "b")}
			s.Op = &op
		case 0, 1, 2, 3:
			s.K = "region"
			op := genClOp(t)
			s.Op = &op
			s.Fail = vkit.Uni(t, 6, "failSave") == 0
		case 4:
			s.K = "store"
		case 5:
			s.K = "expire"
		default:
			s.K = "race"
			k := rapid.IntRange(1, 3).Draw(t, "nRace")
			for j := 0; j < k; j++ {
				s.Ops = append(s.Ops, genClOp(t))
			}
			s.Early = rapid.IntRange(0, 3).Draw(t, "early") == 0
		}
		c.Steps = append(c.Steps, s)
	}
	return c
}

// ---------------------------------------------------------------- harness side region list

type clPeer struct {
	id, store uint64
	learner   bool
}

type clReg struct {
	id              uint64
	start, end      string
	ver, conf, term uint64
	peers           []clPeer
	leader          uint64
	pending         []uint64
	sizeMB          uint64
}

func (r *clReg) clone() *clReg {
	c := *r
	c.peers = append([]clPeer(nil), r.peers...)
	c.pending = append([]uint64(nil), r.pending...)
	return &c
}

func (r *clReg) hasStore(s uint64) bool {
	for _, p := range r.peers {
		if p.store == s {
			return true
		}
	}
	return false
}

func (r *clReg) peerPB(id uint64) *metapb.Peer {
	for _, p := range r.peers {
		if p.id == id {
			mp := &metapb.Peer{Id: p.id, StoreId: p.store}
			if p.learner {
				mp.Role = metapb.PeerRole_Learner
			}
			return mp
		}
	}
	return nil
}

func (r *clReg) region() *core.RegionInfo {
	m := &metapb.Region{Id: r.id, StartKey: []byte(r.start), EndKey: []byte(r.end),
		RegionEpoch: &metapb.RegionEpoch{Version: r.ver, ConfVer: r.conf}}
	for _, p := range r.peers {
		m.Peers = append(m.Peers, r.peerPB(p.id))
	}
	req := &pdpb.RegionHeartbeatRequest{Region: m, Leader: r.peerPB(r.leader), Term: r.term,
		ApproximateSize: r.sizeMB << 20, ApproximateKeys: r.sizeMB * 10,
		Interval: &pdpb.TimeInterval{StartTimestamp: 1000, EndTimestamp: 1060}}
	for _, id := range r.pending {
		if p := r.peerPB(id); p != nil {
			req.PendingPeers = append(req.PendingPeers, p)
		}
	}
	return core.RegionFromHeartbeat(req, core.WithFlowRoundByDigit(3))
}

func (r *clReg) String() string {
	return fmt.Sprintf("{id=%d [%q,%q) v%d c%d t%d peers=%v leader=%d pending=%v size=%d}", r.id, r.start, r.end, r.ver, r.conf, r.term, r.peers, r.leader, r.pending, r.sizeMB)
}

func clDrop(l []uint64, id uint64) []uint64 {
	var out []uint64
	for _, x := range l {
		if x != id {
			out = append(out, x)
		}
	}
	return out
}

func clMod(a, n int) int {
	if n <= 0 {
		return 0
	}
	return ((a % n) + n) % n
}

// clWorld is the ground truth (what the TiKV side looks like); every event returns the
// heartbeats the affected leaders send, in order.
type clWorld struct {
	stores    int
	next      uint64
	live      []*clReg // sorted by start, contiguous
	splits    int
	merges    int
	reportAll bool // known finding: never lose the source's conf changes before a merge
	excluded  int
}

// Known finding: processRegionHeartbeat refreshes the store statistics of the stores of the
// new region and of its previous version, but not of the regions it displaces. A displaced
// region with a peer on a store that the displacing region does not use leaves that store's
// counts stale. Trigger class: a merge whose source moved peers without PD hearing of it.
const clKnownOverlapStores = "C07/displaced-region-stores-not-refreshed"

func (w *clWorld) alloc() uint64 { w.next++; return w.next }

func newClWorld(stores int, bounds []int) (*clWorld, []*clReg) {
	w := &clWorld{stores: stores, next: uint64(stores)}
	keys := []string{""}
	for _, i := range bounds {
		keys = append(keys, keyTable[clMod(i, len(keyTable))])
	}
	keys = append(keys, "")
	var out []*clReg
	for i := 0; i+1 < len(keys); i++ {
		if i > 0 && keys[i] == keys[i-1] {
			continue
		}
		r := &clReg{id: w.alloc(), start: keys[i], end: keys[i+1], ver: 1, conf: 1, term: 6, sizeMB: uint64(10 + 7*i)}
		for j := 0; j < 3 && j < stores; j++ {
			r.peers = append(r.peers, clPeer{id: w.alloc(), store: uint64((i+j)%stores + 1)})
		}
		r.leader = r.peers[0].id
		w.live = append(w.live, r)
		out = append(out, r.clone())
	}
	// fix up ends after skipped duplicates
	for i := range w.live {
		if i+1 < len(w.live) {
			w.live[i].end = w.live[i+1].start
		} else {
			w.live[i].end = ""
		}
		out[i].end = w.live[i].end
	}
	return w, out
}

// pick a region, preferring those with a peer on store pref (0 = any)
func (w *clWorld) pick(i int, pref uint64) *clReg {
	if pref != 0 {
		var c []*clReg
		for _, r := range w.live {
			if r.hasStore(pref) {
				c = append(c, r)
			}
		}
		if len(c) > 0 {
			return c[clMod(i, len(c))]
		}
	}
	return w.live[clMod(i, len(w.live))]
}

func (w *clWorld) apply(op ClOp, pref uint64) []*clReg {
	r := w.pick(op.R, pref)
	nonLeader := func() []uint64 {
		var c []uint64
		for _, p := range r.peers {
			if p.id != r.leader {
				c = append(c, p.id)
			}
		}
		return c
	}
	switch op.K {
	case "leader":
		var c []uint64
		for _, p := range r.peers {
			if p.id != r.leader && !p.learner {
				c = append(c, p.id)
			}
		}
		if len(c) == 0 {
			return w.apply(ClOp{K: "size", R: op.R, A: op.A, B: op.B}, pref)
		}
		r.leader = c[clMod(op.A, len(c))]
		r.pending = clDrop(r.pending, r.leader)
		r.term++
	case "addpeer":
		var free []uint64
		for s := 1; s <= w.stores; s++ {
			if !r.hasStore(uint64(s)) {
				free = append(free, uint64(s))
			}
		}
		if len(free) == 0 || len(r.peers) >= 5 {
			return w.apply(ClOp{K: "rmpeer", R: op.R, A: op.A, B: op.B}, pref)
		}
		p := clPeer{id: w.alloc(), store: free[clMod(op.A, len(free))], learner: true}
		r.peers = append(r.peers, p)
		if op.B%2 == 0 {
			r.pending = append(r.pending, p.id)
		}
		r.conf++
	case "rmpeer":
		c := nonLeader()
		if len(c) == 0 {
			return w.apply(ClOp{K: "size", R: op.R, A: op.A, B: op.B}, pref)
		}
		id := c[clMod(op.A, len(c))]
		var np []clPeer
		for _, p := range r.peers {
			if p.id != id {
				np = append(np, p)
			}
		}
		r.peers = np
		r.pending = clDrop(r.pending, id)
		r.conf++
	case "promote":
		done := false
		for i := range r.peers {
			if r.peers[i].learner {
				r.peers[i].learner = false
				r.conf++
				done = true
				break
			}
		}
		if !done {
			return w.apply(ClOp{K: "addpeer", R: op.R, A: op.A, B: op.B}, pref)
		}
	case "pending":
		c := nonLeader()
		if len(c) == 0 {
			return w.apply(ClOp{K: "size", R: op.R, A: op.A, B: op.B}, pref)
		}
		id := c[clMod(op.A, len(c))]
		if len(clDrop(r.pending, id)) != len(r.pending) {
			r.pending = clDrop(r.pending, id)
		} else {
			r.pending = append(r.pending, id)
		}
	case "size":
		r.sizeMB = uint64(1 + clMod(op.A, 200))
	case "dup":
	case "split":
		var cands []string
		for _, k := range keyTable {
			if k > r.start && (r.end == "" || k < r.end) {
				cands = append(cands, k)
			}
		}
		if len(cands) == 0 || len(w.live) >= 24 {
			return w.apply(ClOp{K: "size", R: op.R, A: op.A, B: op.B}, pref)
		}
		k := cands[clMod(op.A, len(cands))]
		n := r.clone()
		n.id = w.alloc()
		n.pending = nil
		var ls uint64
		for _, p := range r.peers {
			if p.id == r.leader {
				ls = p.store
			}
		}
		for i := range n.peers {
			n.peers[i].id = w.alloc()
			if n.peers[i].store == ls {
				n.leader = n.peers[i].id
			}
		}
		n.term = 6
		r.ver++
		n.ver = r.ver
		half := r.sizeMB / 2
		r.sizeMB, n.sizeMB = r.sizeMB-half, half+1
		// the new region takes the left part (right derive)
		n.start, n.end = r.start, k
		r.start = k
		var nl []*clReg
		for _, x := range w.live {
			if x == r {
				nl = append(nl, n)
			}
			nl = append(nl, x)
		}
		w.live = nl
		w.splits++
		if op.B%2 == 0 {
			return []*clReg{r.clone(), n.clone()}
		}
		return []*clReg{n.clone(), r.clone()} // the child first: it displaces the parent
	case "merge":
		idx := 0
		for i, x := range w.live {
			if x == r {
				idx = i
			}
		}
		ti := idx + 1
		if op.A%2 == 1 || ti >= len(w.live) {
			ti = idx - 1
		}
		if ti < 0 || ti >= len(w.live) {
			return w.apply(ClOp{K: "size", R: op.R, A: op.A, B: op.B}, pref)
		}
		t := w.live[ti]
		// PD moves the source's peers onto the target's stores first; those conf changes of the
		// source are not reported when B%2==1 (heartbeats lost), otherwise one by one
		var out []*clReg
		report := op.B%2 == 0
		if !report && w.reportAll {
			report = true
			w.excluded++
		}
		for _, p := range t.peers {
			if !r.hasStore(p.store) {
				r.peers = append(r.peers, clPeer{id: w.alloc(), store: p.store})
				r.conf++
				if report {
					out = append(out, r.clone())
				}
			}
		}
		for {
			removed := false
			for _, p := range r.peers {
				if !t.hasStore(p.store) {
					if p.id == r.leader {
						for _, q := range r.peers {
							if t.hasStore(q.store) && !q.learner {
								r.leader = q.id
								r.pending = clDrop(r.pending, q.id)
								r.term++
								break
							}
						}
						if p.id == r.leader {
							break
						}
					}
					var np []clPeer
					for _, q := range r.peers {
						if q.id != p.id {
							np = append(np, q)
						}
					}
					r.peers = np
					r.pending = clDrop(r.pending, p.id)
					r.conf++
					if report {
						out = append(out, r.clone())
					}
					removed = true
					break
				}
			}
			if !removed {
				break
			}
		}
		for _, p := range r.peers {
			if !t.hasStore(p.store) {
				return out // could not match the stores (source leader had nowhere to go)
			}
		}
		r.ver++
		r.conf++
		if r.ver > t.ver {
			t.ver = r.ver
		}
		t.ver++
		if ti > idx {
			t.start = r.start
		} else {
			t.end = r.end
		}
		t.sizeMB += r.sizeMB
		var nl []*clReg
		for _, x := range w.live {
			if x != r {
				nl = append(nl, x)
			}
		}
		w.live = nl
		w.merges++
		return append(out, t.clone())
	}
	return []*clReg{r.clone()}
}

// ---------------------------------------------------------------- fixture

const clStorePrefix = "raft/s/"

type clFixture struct {
	cancel context.CancelFunc
	rc     *cluster.RaftCluster
	bc     *core.BasicCluster
	fkv    *faultkv.KV

	mu      sync.Mutex
	parkKey string        // store key whose save is parked
	parked  chan struct{} // closed when the save arrived at the gate
	release chan struct{} // closed to let it go
}

func newClFixture(stores int) (*clFixture, error) {
	cfg := config.NewConfig()
	if err := cfg.Adjust(nil, false); err != nil {
		return nil, err
	}
	opt := config.NewPersistOptions(cfg)
	opt.SetClusterVersion(versioninfo.MinSupportedVersion(versioninfo.Version2_0))
	ctx, cancel := context.WithCancel(context.Background())
	f := &clFixture{cancel: cancel, fkv: faultkv.New(kv.NewMemoryKV()), bc: core.NewBasicCluster()}
	f.rc = cluster.NewRaftCluster(ctx, "", 1, nil, nil, nil)
	f.rc.InitCluster(mockid.NewIDAllocator(), opt, core.NewStorage(f.fkv), f.bc)
	for i := 1; i <= stores; i++ {
		f.bc.PutStore(core.NewStoreInfo(&metapb.Store{Id: uint64(i), Address: fmt.Sprintf("127.0.0.1:%d", i),
			State: metapb.StoreState_Up, Version: "4.0.0"}))
	}
	f.fkv.SetGate(func(kind, key string) error {
		if kind != "save" {
			return nil
		}
		f.mu.Lock()
		hit := f.parkKey != "" && key == f.parkKey
		var parked, release chan struct{}
		if hit {
			parked, release = f.parked, f.release
			f.parkKey = "" // one shot
		}
		f.mu.Unlock()
		if hit {
			close(parked)
			<-release
		}
		return nil
	})
	return f, nil
}

func clStoreStats(id uint64, st ClStats) *pdpb.StoreStats {
	const gb = 1 << 30
	return &pdpb.StoreStats{StoreId: id, Capacity: 100 * gb, Available: uint64(st.Avail) * gb, UsedSize: uint64(st.Used) * gb,
		Interval: &pdpb.TimeInterval{StartTimestamp: 1000, EndTimestamp: 1010}}
}

// ---------------------------------------------------------------- oracle

type clCounts struct {
	leaders, regions, pending int
	leaderSize, regionSize    int64
}

func (f *clFixture) checkStores(stores int, last map[uint64]ClStats) error {
	want := map[uint64]*clCounts{}
	for i := 1; i <= stores; i++ {
		want[uint64(i)] = &clCounts{}
	}
	for _, r := range f.rc.GetRegions() {
		for _, p := range r.GetPeers() {
			c := want[p.GetStoreId()]
			if c == nil {
				return fmt.Errorf("harness: region %d has a peer on unknown store %d", r.GetID(), p.GetStoreId())
			}
			c.regions++
			c.regionSize += r.GetApproximateSize()
			if r.GetLeader().GetId() == p.GetId() {
				c.leaders++
				c.leaderSize += r.GetApproximateSize()
			}
		}
		for _, p := range r.GetPendingPeers() {
			if c := want[p.GetStoreId()]; c != nil {
				c.pending++
			}
		}
	}
	for i := 1; i <= stores; i++ {
		id := uint64(i)
		w := *want[id]
		idx := clCounts{f.bc.GetStoreLeaderCount(id), f.bc.GetStoreRegionCount(id), f.bc.GetStorePendingPeerCount(id),
			f.bc.GetStoreLeaderRegionSize(id), f.bc.GetStoreRegionSize(id)}
		if idx != w {
			return fmt.Errorf("store %d: the region index says %+v, a scan over GetRegions says %+v", id, idx, w)
		}
		s := f.rc.GetStore(id)
		if s == nil {
			return fmt.Errorf("store %d is not served", id)
		}
		got := clCounts{s.GetLeaderCount(), s.GetRegionCount(), s.GetPendingPeerCount(), s.GetLeaderSize(), s.GetRegionSize()}
		if got != w {
			return fmt.Errorf("store %d: GetStore reports %+v, a scan over GetRegions says %+v (leaders, regions, pending peers, leader size, region size)", id, got, w)
		}
		if st, ok := last[id]; ok {
			const gb = 1 << 30
			if s.GetCapacity() != 100*gb || s.GetAvailable() != uint64(st.Avail)*gb || s.GetUsedSize() != uint64(st.Used)*gb {
				return fmt.Errorf("store %d: GetStore reports capacity/available/used %d/%d/%d GB, the last store heartbeat said 100/%d/%d",
					id, s.GetCapacity()/gb, s.GetAvailable()/gb, s.GetUsedSize()/gb, st.Avail, st.Used)
			}
		}
	}
	return nil
}

func (f *clFixture) deliver(hbs []*clReg) error {
	for _, h := range hbs {
		if err := f.rc.VerifProcessRegionHeartbeat(h.region()); err != nil {
			return fmt.Errorf("fresh heartbeat %v refused: %v", h, err)
		}
	}
	return nil
}

func runCluster(c ClCase) (vkit.Info, error) {
	var info vkit.Info
	classes := map[string]bool{}
	stores := c.Stores
	if stores < 3 {
		stores = 3
	}
	f, err := newClFixture(stores)
	if err != nil {
		return info, err
	}
	defer f.cancel()
	setLog(c.Debug)
	defer setLog(false)
	if c.Debug {
		classes["log-level-debug"] = true
	}
	w, initial := newClWorld(stores, c.Init)
	w.reportAll = vkit.Known(clKnownOverlapStores)
	if err := f.deliver(initial); err != nil {
		return info, err
	}
	last := map[uint64]ClStats{}
	if err := f.checkStores(stores, last); err != nil {
		return info, fmt.Errorf("after the initial regions: %v", err)
	}
	races, raceChanged := 0, 0
	for i, st := range c.Steps {
		sid := uint64(clMod(st.S, stores) + 1)
		desc := st.K
		switch st.K {
		case "region":
			if st.Op == nil {
				continue
			}
			hbs := w.apply(*st.Op, 0)
			desc = "region heartbeat(s) " + st.Op.K
			classes["region-"+st.Op.K] = true
			if st.Fail {
				// the save of the region fails: the heartbeat is still accepted (the cache is ahead of storage)
				f.fkv.FailNth(1)
			}
			err := f.deliver(hbs)
			if st.Fail {
				if f.fkv.Writes() > 0 {
					classes["region-save-failed"] = true
					desc += " (its first storage write failed)"
				}
				f.fkv.ResetCounters()
			}
			if err != nil {
				return info, fmt.Errorf("step %d: %v", i, err)
			}
		case "droprace":
			if st.Op == nil {
				continue
			}
			hbs := w.apply(*st.Op, 0)
			if len(hbs) == 0 {
				continue
			}
			target := hbs[len(hbs)-1].id
			desc = fmt.Sprintf("DropCacheRegion(%d) racing region heartbeat(s) %s", target, st.Op.K)
			// The cluster's read lock is held while the heartbeat queues for the write lock; the drop request arrives
			// behind it (a queued writer keeps later readers out), so on release the heartbeat runs first and the drop
			// second: afterwards the region is simply gone from the cache and every index agrees.
			f.rc.RLock()
			hbDone := make(chan error, 1)
			go func() { hbDone <- f.deliver(hbs) }()
			pending := false
			for deadline := time.Now().Add(5 * time.Second); time.Now().Before(deadline); {
				if !f.rc.TryRLock() {
					pending = true
					break
				}
				f.rc.RUnlock()
				select {
				case err := <-hbDone: // the heartbeat did not need the write lock (nothing changed)
					hbDone <- err
					deadline = time.Now()
				default:
					time.Sleep(20 * time.Microsecond)
				}
			}
			dropDone := make(chan struct{})
			go func() { f.rc.DropCacheRegion(target); close(dropDone) }()
			time.Sleep(2 * time.Millisecond)
			f.rc.RUnlock()
			err := <-hbDone
			<-dropDone
			if err != nil {
				return info, fmt.Errorf("step %d: %v", i, err)
			}
			if pending {
				classes["droprace-heartbeat-queued-behind-read-lock"] = true
			} else {
				classes["droprace-no-write-needed"] = true
			}
			if err := f.checkStores(stores, last); err != nil {
				return info, fmt.Errorf("step %d (%s): %v", i, desc, err)
			}
			// the store reports the dropped region again (its current state): the cache is whole again
			for _, r := range w.live {
				if r.id == target {
					if err := f.deliver([]*clReg{r.clone()}); err != nil {
						return info, fmt.Errorf("step %d: re-reporting the dropped region: %v", i, err)
					}
				}
			}
		case "store":
			s := f.rc.GetStore(sid)
			if s != nil && s.NeedPersist() {
				classes["store-heartbeat-persisted"] = true
			} else {
				classes["store-heartbeat-not-persisted"] = true
			}
			if err := f.rc.HandleStoreHeartbeat(clStoreStats(sid, st.St)); err != nil {
				return info, fmt.Errorf("step %d: store heartbeat of %d: %v", i, sid, err)
			}
			last[sid] = st.St
			desc = fmt.Sprintf("store heartbeat of %d", sid)
		case "expire":
			// an hour passes: the next heartbeat of this store has to be persisted again
			if s := f.rc.GetStore(sid); s != nil {
				f.bc.PutStore(s.Clone(core.SetLastPersistTime(time.Time{})))
			}
			desc = fmt.Sprintf("persist interval of store %d expires", sid)
		case "race":
			if s := f.rc.GetStore(sid); s != nil && !s.NeedPersist() {
				f.bc.PutStore(s.Clone(core.SetLastPersistTime(time.Time{})))
			}
			var hbs []*clReg
			for _, op := range st.Ops {
				hbs = append(hbs, w.apply(op, sid)...)
				classes["race-region-"+op.K] = true
			}
			parked, release := make(chan struct{}), make(chan struct{})
			f.mu.Lock()
			f.parkKey = fmt.Sprintf("%s%020d", clStorePrefix, sid)
			f.parked, f.release = parked, release
			f.mu.Unlock()
			var shErr, rhErr error
			shDone, rhDone := make(chan struct{}), make(chan struct{})
			go func() {
				defer close(shDone)
				shErr = f.rc.HandleStoreHeartbeat(clStoreStats(sid, st.St))
			}()
			select {
			case <-parked:
			case <-shDone: // did not need persisting after all
			case <-time.After(20 * time.Second):
				close(release)
				info.Inconclusive = true
				return info, nil
			}
			go func() {
				defer close(rhDone)
				rhErr = f.deliver(hbs)
			}()
			if st.Early {
				classes["race-released-early"] = true
			} else {
				// give the region heartbeats the chance to go first (they cannot while the
				// store heartbeat holds the cluster lock; then this simply times out)
				select {
				case <-rhDone:
					classes["race-region-heartbeats-overtook"] = true
				case <-time.After(1500 * time.Microsecond):
				}
				classes["race-released-late"] = true
			}
			close(release)
			for _, ch := range []chan struct{}{shDone, rhDone} {
				select {
				case <-ch:
				case <-time.After(30 * time.Second):
					info.Inconclusive = true
					return info, nil
				}
			}
			f.mu.Lock()
			f.parkKey = ""
			f.mu.Unlock()
			if shErr != nil {
				return info, fmt.Errorf("step %d: store heartbeat of %d: %v", i, sid, shErr)
			}
			if rhErr != nil {
				return info, fmt.Errorf("step %d: %v", i, rhErr)
			}
			last[sid] = st.St
			races++
			if len(hbs) > 0 {
				raceChanged++
			}
			desc = fmt.Sprintf("store heartbeat of %d parked at SaveStore while %d region heartbeat(s) %s were delivered", sid, len(hbs), clOpKinds(st.Ops))
		default:
			continue
		}
		if err := f.checkStores(stores, last); err != nil {
			return info, fmt.Errorf("step %d (%s): %v", i, desc, err)
		}
	}
	// the cache is what the ground truth says (every heartbeat was fresh)
	got := f.rc.GetRegions()
	if len(got) != len(w.live) {
		return info, fmt.Errorf("at the end %d regions are served, the ground truth has %d", len(got), len(w.live))
	}
	var cl []string
	for k := range classes {
		cl = append(cl, k)
	}
	sort.Strings(cl)
	for _, k := range cl {
		info.Class(k)
	}
	for i := 0; i < w.excluded; i++ {
		info.Exclude(clKnownOverlapStores)
	}
	info.NonTrivial = races > 0 && raceChanged > 0 && w.splits+w.merges > 0
	return info, nil
}

// TestFinding_displaced_region_stores_not_refreshed: region A ["","m") on stores 1,2,3 and
// region B ["m","") on stores 1,2 are cached; A moves off store 3 without PD hearing of it and
// is merged into B; B's heartbeat ["","") version 2 displaces A. Store 3 holds no region any
// more, GetStore(3) still reports one.
func TestFinding_displaced_region_stores_not_refreshed(t *testing.T) {
	f, err := newClFixture(3)
	if err != nil {
		t.Fatal(err)
	}
	defer f.cancel()
	a := &clReg{id: 10, start: "", end: "m", ver: 1, conf: 1, term: 6, sizeMB: 40,
		peers: []clPeer{{11, 1, false}, {12, 2, false}, {13, 3, false}}, leader: 11}
	b := &clReg{id: 20, start: "m", end: "", ver: 1, conf: 1, term: 6, sizeMB: 20,
		peers: []clPeer{{21, 1, false}, {22, 2, false}}, leader: 21}
	b2 := b.clone()
	b2.start, b2.ver, b2.sizeMB = "", 3, 60
	if err := f.deliver([]*clReg{a, b, b2}); err != nil {
		vkit.Finding(t, clKnownOverlapStores, false, "heartbeats refused: "+err.Error())
		return
	}
	s := f.rc.GetStore(3)
	n := 0
	for _, r := range f.rc.GetRegions() {
		if r.GetStorePeer(3) != nil {
			n++
		}
	}
	vkit.Finding(t, clKnownOverlapStores, s.GetRegionCount() != n || s.GetRegionSize() != 0,
		fmt.Sprintf("after region 20 [,) v3 on stores 1,2 displaced region 10 [,m) on stores 1,2,3: GetStore(3) reports %d regions of size %d, %d cached regions have a peer on store 3", s.GetRegionCount(), s.GetRegionSize(), n))
}

func clOpKinds(ops []ClOp) string {
	var ks []string
	for _, o := range ops {
		ks = append(ks, o.K)
	}
	return "[" + strings.Join(ks, ",") + "]"
}

// The admin request "drop region from cache" removes the region from every index but used to leave the
// statistics cached on its stores untouched until some later heartbeat touched those stores.
func TestFinding_drop_cache_region_leaves_store_statistics(t *testing.T) {
	const key = "C07/drop-cache-region-leaves-store-statistics"
	f, err := newClFixture(3)
	if err != nil {
		t.Fatal(err)
	}
	defer f.cancel()
	a := &clReg{id: 10, start: "", end: "", ver: 1, conf: 1, term: 6, sizeMB: 40,
		peers: []clPeer{{11, 1, false}, {12, 2, false}, {13, 3, false}}, leader: 11}
	if err := f.deliver([]*clReg{a}); err != nil {
		vkit.Finding(t, key, false, "heartbeat refused: "+err.Error())
		return
	}
	f.rc.DropCacheRegion(10)
	s := f.rc.GetStore(1)
	vkit.Finding(t, key, len(f.rc.GetRegions()) == 0 && (s.GetRegionCount() != 0 || s.GetLeaderCount() != 0 || s.GetRegionSize() != 0),
		fmt.Sprintf("after DropCacheRegion(10) no region is cached, GetStore(1) reports %d regions, %d leaders, region size %d", s.GetRegionCount(), s.GetLeaderCount(), s.GetRegionSize()))
}
